import sys, os
sys.path.insert(0, os.path.dirname(os.path.dirname(os.path.abspath(__file__))))
from checks import *

def V(ns, syms, plan, **kw):
    """tree automata: universe of harness/common/ruleset.h (ns states, syms = [(symbol, rank), ...]); plan = family mask per step
    (1 copies/lifetime, 2 mutations, 4 trimming results, 8 unions, 16 bulk additions into an existing handle)"""
    d = {'NS': ns, 'SYMS': '{%s}' % ','.join('{%d,%d}' % sr for sr in syms), 'STEPS': len(plan), 'PLAN': '{%s}' % ','.join(str(p) for p in plan)}
    d.update(kw); return d

def F(ns, nsym, plan, **kw):
    """word automata: ns states, nsym symbols; plan = family mask per step (1 copies/lifetime, 2 mutations, 4 RemoveUnreachableStates,
    8 unions, 16 RemoveUselessStates / Reverse)"""
    d = {'NS': ns, 'NSYM': nsym, 'STEPS': len(plan), 'PLAN': '{%s}' % ','.join(str(p) for p in plan)}
    d.update(kw); return d

A01  = [(0, 0), (0, 1)]          # one symbol used as leaf and as unary symbol (both kinds of rule share one tuple set per parent)
A0G2 = [(0, 0), (1, 2)]
A0F1 = [(0, 0), (1, 1)]

TREE_Q = [
  V(2, A01, [7, 7]),                                  # any call, any call
  V(2, A01, [1, 2, 1]), V(2, A01, [1, 1, 2]),                            # copy, then mutate one side, then copy/mutate again
  V(2, A01, [4, 2, 1]), V(2, A01, [4, 1, 2]), V(2, A01, [4, 2, 2]),      # trimming result, then operand/result mutated, copied, destroyed
  V(2, A01, [1, 16, 2]), V(2, A01, [16, 3]),                              # ReindexStates(dst) / CopyTransitionsFrom into a handle that shares storage
  V(2, A01, [8, 2, 1]), V(2, A01, [8, 1, 2]),                             # Union result kept while operands change
  V(2, A01, [8, 2, 2], PRE=3), V(3, A01, [8, 2], PRE=3),                  # UnionDisjointStates of two non-empty automata over disjoint states
  V(2, A0G2, [1, 2], INITR=6), V(3, A0F1, [1, 2], INITR=8, INITF=0),
  V(2, A01, [1, 2], NH=3), V(2, A01, [2, 1], NH=3, PRE=2), V(2, A01, [2, 2], NH=3, PRE=2),   # three handles sharing one map
]
TREE_T = TREE_Q + [
  V(2, A01, [1, 2, 2]),
  V(2, A01, [8, 2, 3]), V(3, A01, [8, 3], PRE=3), V(2, A0G2, [3, 3], INITR=6),
  V(2, A01, [1, 2, 1, 2], INITR=4), V(2, A01, [2, 2, 2], PRE=1), V(2, A01, [1, 2, 2], NH=3, PRE=2),
  V(2, A01, [2, 4, 2]), V(2, A01, [4, 2, 4]), V(2, A01, [16, 2, 1]), V(3, A01, [8, 2, 2], PRE=3, _heavy=1, _mem_gb=16, _time=3000), V(2, A0G2, [1, 2, 2], INITR=6),
]
FA_Q = [
  F(2, 1, [15, 15]), F(2, 1, [3, 3]), F(2, 1, [4, 2, 3]), F(2, 1, [16, 2, 3]), F(2, 1, [16, 3], FINAL_USELESS=None), F(2, 1, [8, 2, 3], PRE=3),
  F(2, 2, [1, 2, 2], INITT=4, INITS=2), F(2, 2, [16, 2], INITT=4, INITS=2), F(3, 1, [1, 2], INITT=5, INITS=2), F(3, 1, [8, 3], PRE=3), F(3, 1, [16, 2], INITT=4, INITS=1),
  F(2, 1, [1, 2, 2], NH=3, PRE=1), F(2, 1, [1, 2, 1, 2]),
]
FA_T = FA_Q + [F(2, 1, [3, 3, 3]), F(3, 1, [1, 2, 2], INITT=5, INITS=2), F(3, 1, [16, 2], INITT=6, INITS=2), F(2, 1, [15, 15, 3]), F(2, 2, [3, 3, 3], INITT=4, INITS=2), F(3, 1, [4, 2, 3], INITT=5, INITS=2), F(2, 1, [2, 1, 2, 1], NH=3, PRE=1), F(2, 1, [16, 16, 2]), F(2, 2, [16, 2]), F(2, 1, [31, 31])]

CHECKS = {
 'C11': {
  'level': 'model_checking',
  'explanation': 'Two or three heap-allocated automaton objects (so that construction and destruction are calls of the history) go through a symbolic history: a symbolic initial automaton in handle 0, then STEPS calls, each chosen by an input code from the families enabled for that step (copies/lifetime: copy-assign incl. self-assignment, copy-construct incl. the copyTrans/copyFinal variants, move-construct and move-assign with the moved-from object destroyed, move-construct followed by copy-/move-assignment back into the moved-from object, destroy; mutations: AddTransition of any universe rule, SetStateFinal, EraseFinalStates, Clear (word automata: AddTransition, SetStateFinal, SetStateStart); results: RemoveUnreachableStates / RemoveUselessStates (word automata also Reverse) stored into any handle incl. the operand itself; unions: UnionDisjointStates stored into a handle, Union with translation maps kept as a separate object; bulk additions: ReindexStates(dst, functor) and CopyTransitionsFrom into an existing handle). Every handle has a shadow value (one boolean per universe rule, mask of final states; word automata also the start states and the start-symbol map) updated with value semantics; after every call every handle is read back (tree: iteration with exactly-once check, GetFinalStates, ContainsTransition; word: the public DumpToString with a decoding serializer, GetStartStates, GetStartSymbols of every state) and must equal its shadow; results of operations must agree with a pure function of the operand shadows (naive fixpoint oracles; RemoveUselessStates of tree automata, ReindexStates, CopyTransitionsFrom: equal to it; RemoveUnreachableStates, UnionDisjointStates, Union (read through the returned maps, which must be injective with disjoint ranges and name every state of the result) and, for word automata, RemoveUselessStates and Reverse, whose contract is only language-level: between the part of the operands that lies on accepting runs and the whole operands (tree RemoveUnreachableStates: rules with a reachable parent), the value actually read becoming the shadow of the result handle, so that e.g. final states without rules or the start-symbol entries of non-start states may be kept or dropped by the library) and the kept Union result must stay equal to its snapshot; at the end IsLangEmpty / RemoveUselessStates (word: RemoveUnreachableStates) of every handle must again equal the oracle on the shadow. Use of freed storage, double free and leaks of ownership in the copy-on-write machinery are caught by the engine\'s memory model.',
  'bounds': {'quick': 'tree automata: 2 handles (3 in three queries), initial automaton any subset of 2 x {a/0,a/1} (also 3 x {a/0,a/1}, 2 x {a/0,g/2}, 3 x {a/0,f/1} with a restricted initial automaton), 2..3 calls from the planned families; word automata: 2..3 handles, 2..3 states, 1..2 symbols, 2..4 calls; 16..24 free input bits per query (1..60 s each)',
             'thorough': 'as quick plus histories of 3..4 calls on the same universes'},
  'outside': 'more than 3 live objects, more than 4 calls after the initial automaton, more than 3 states / rank > 2; moved-from objects are only destroyed or assigned to (any other call on them is outside the contract of the library: core_ is null); automata with a private tuple cache or a private alphabet (not constructible through the public facade); Intersection, Complement, Reduce, CollapseStates, TranslateSymbols, GetCandidateTree and inclusion checking as sources of sharing (they build their result rule by rule from scratch); word automata: the start-symbol map is treated as part of the value for every state (Reverse / RemoveUselessStates keep entries of states that are no longer start states), UnionDisjointStates is only called when the operands mention disjoint state sets including the keys of that map; Intersection, Complement, GetCandidateTree, simulation and inclusion on word automata',
  'harnesses': [
    {'name': 'values', 'src': 'harness/C11/values.cc', 'tus': TREE_CORE + ['explicit_tree_useless', 'explicit_tree_unreach', 'explicit_tree_union'],
     'configs': {'quick': TREE_Q, 'thorough': TREE_T},
     'selftest_config': V(2, A01, [3, 4]), 'selftests': ['VS_SELFTEST_1', 'VS_SELFTEST_2']},
    {'name': 'favalues', 'src': 'harness/C11/favalues.cc', 'tus': ['explicit_finite_aut', 'explicit_finite_aut_core', 'explicit_finite_unreach', 'explicit_finite_union', 'explicit_finite_reverse', 'explicit_finite_useless'],
     'configs': {'quick': FA_Q, 'thorough': FA_T},
     'selftest_config': F(2, 1, [3, 4]), 'selftests': ['VS_SELFTEST_1', 'VS_SELFTEST_2']},
  ],
 },
}
