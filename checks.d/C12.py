import sys, os
sys.path.insert(0, os.path.dirname(os.path.dirname(os.path.abspath(__file__))))
from checks import *

def R(ns, syms, **kw):
    """rule universe of harness/common/ruleset.h: ns states, syms = [(symbol number, rank), ...] (a symbol may have several ranks)"""
    d = {'NS': ns, 'SYMS': '{%s}' % ','.join('{%d,%d}' % sr for sr in syms)}
    d.update(kw); return d

A01  = [(0, 0), (0, 1)]                      # one symbol used as leaf and as unary symbol
A012 = [(0, 0), (0, 1), (1, 2)]
AB02 = [(0, 0), (1, 0), (0, 2)]              # two leaves; symbol 0 with ranks 0 and 2
ONE  = [(0, 0), (0, 1), (0, 2), (1, 1)]      # one state: symbol 0 with three ranks
A02  = [(0, 0), (0, 2)]
A011 = [(0, 0), (0, 1), (1, 1)]
A0B1 = [(0, 0), (1, 1)]

CHECKS = {
 'C12': {
  'level': 'model_checking',
  'explanation': 'An ExplicitTreeAut is driven through a symbolic history of mutating calls (AddTransition of any universe rule incl. repeats, SetStateFinal, SetStatesFinal of any subset, EraseFinalStates, Clear) and every read-only view (range-for with const and non-const begin/end, GetAcceptTrans, operator[] for every state and a state that never occurs incl. empty(), both ContainsTransition overloads for every universe rule and for near misses, GetUsedStates, GetFinalStates, IsStateFinal, AreTransitionsEmpty) is compared with a shadow value (one boolean per universe rule, a bit mask of final states) after every call; each rule must be yielded exactly once and nothing outside the shadow may appear. Harness "calls": the history is STEPS arbitrary calls (one call code per step). Harness "bulk": AddTransition for an arbitrary subset of the whole universe and SetStateFinal for a subset of states, then one of {nothing, Clear, EraseFinalStates, all AddTransition calls repeated in reverse order}, then a second batch of additions, with the views compared after each phase.',
  'bounds': {'quick': 'calls: histories of 2..4 calls over 1..3 states and the universes {a/0,a/1}, {a/0,a/1,g/2}, {a/0,b/0,a/2}, {a/0,a/1,a/2,f/1} (1 state), {a/0,a/2} (3 states), views after every call or only after the last; bulk: every subset of the universes 2 x {a/0,a/1}, 2 x {a/0,a/1,f/1}, 2 x {a/0,a/2}, 2 x {a/0,a/1,g/2}, 3 x {a/0,f/1}, 3 x {a/0,a/1}; 12..21 free input bits per query',
             'thorough': 'as quick plus histories of 4..5 arbitrary calls (20 input bits) on the 2- and 3-state universes'},
  'outside': 'more than 3 states, rank > 2, histories of more than 5 arbitrary calls (bulk histories: up to 2 x |universe| + |states| + 4 calls in a fixed order of rules), rules added through LoadFromAutDesc / CopyTransitionsFrom / ReindexStates, iterators kept across a mutating call, automata sharing storage with copies (C11); ExplicitTreeAut::GetDown cannot be called at all (declared in include/vata/explicit_tree_aut.hh, defined nowhere)',
  'harnesses': [
    {'name': 'calls', 'src': 'harness/C12/container.cc', 'tus': TREE_CORE,
     'configs': {'quick': [R(2, A01, STEPS=4), R(2, A012, STEPS=3), R(3, A01, STEPS=3), R(2, AB02, STEPS=3), R(3, A02, STEPS=2), R(1, ONE, STEPS=4),
                           R(2, A01, STEPS=4, VIEWS=1), R(2, A01, STEPS=2)],
                 'thorough': [R(2, A01, STEPS=4), R(2, A012, STEPS=3), R(3, A01, STEPS=3), R(2, AB02, STEPS=3), R(3, A02, STEPS=2), R(1, ONE, STEPS=4),
                              R(2, A01, STEPS=4, VIEWS=1), R(2, A01, STEPS=2), R(1, ONE, STEPS=5),
                              R(2, A01, STEPS=5), R(3, A01, STEPS=4, _heavy=1, _mem_gb=16), R(2, A012, STEPS=4, _heavy=1, _mem_gb=16), R(2, A012, STEPS=4, VIEWS=1, _heavy=1, _mem_gb=16)]},
     'selftest_config': R(2, A01, STEPS=3), 'selftests': ['VS_SELFTEST_1', 'VS_SELFTEST_2']},
    {'name': 'bulk', 'src': 'harness/C12/container.cc', 'tus': TREE_CORE,
     'configs': {'quick': [R(2, A01, MODE=1, NR2=1), R(2, A011, MODE=1, NR2=1), R(2, A02, MODE=1, NR2=1), R(2, A012, MODE=1, NR2=1), R(3, A0B1, MODE=1, NR2=1), R(3, A01, MODE=1, NR2=1, VIEWS=1)],
                 'thorough': [R(2, A01, MODE=1, NR2=2), R(2, A011, MODE=1, NR2=2), R(2, A02, MODE=1, NR2=2), R(2, A012, MODE=1, NR2=1), R(3, A0B1, MODE=1, NR2=1), R(3, A01, MODE=1, NR2=1), R(2, AB02, MODE=1, NR2=1)]},
     'selftest_config': R(2, A01, MODE=1, NR2=1), 'selftests': ['VS_SELFTEST_1', 'VS_SELFTEST_2']},
  ],
 },
}
