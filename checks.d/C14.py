import sys, os
sys.path.insert(0, os.path.dirname(os.path.dirname(os.path.abspath(__file__))))
from checks import *

# OP: 0 ReindexStates(AbstractReindexF&) 1 ReindexStates(dst = copy of A, AbstractReindexF&) 2 ReindexStates(StateToStateTranslWeak&), symbolic allocator
#     3 CollapseStates(StateToStateMap) 4 TranslateSymbols 5 ReindexStates(StateToStateTranslWeak&), counting allocator
# NT = number of target indices of the symbolic state map (default NS); SPARSE=1: targets are numbers > 2^32 / symbols 42+1000f
_QUICK = [
  U(2, [0, 1], OP=0, NT=3, SPARSE=1), U(2, [0, 2], OP=0), U(2, [0, 2], OP=0, NT=3, SPARSE=1), U(2, [0, 0, 1], OP=0, ADDFIN=0),
  U(2, [0, 1], OP=1, NT=3), U(2, [0, 2], OP=1, NT=3, SPARSE=1), U(2, [0, 1], OP=1, NT=3, ADDFIN=0),
  U(2, [0, 1], OP=2, PREFILL=1, SPARSE=1), U(2, [0, 2], OP=2, PREFILL=1), U(2, [0, 1], OP=2, NT=3),
  U(2, [0, 1], OP=3, NT=3, SPARSE=1), U(2, [0, 2], OP=3, NT=3), U(3, [0, 1], OP=3, NT=2),
  U(2, [0, 0, 1], OP=4), U(2, [0, 0, 2], OP=4, SPARSE=1), U(2, [0, 0, 1, 1], OP=4), U(2, [0, 1, 1], OP=4, SPARSE=1),
  U(2, [0, 1], OP=5), U(2, [0, 2], OP=5), U(3, [0, 1], OP=5),
]
_THOROUGH = _QUICK + [
  U(3, [0, 1], OP=0, NT=3, SPARSE=1), U(2, [0, 1, 2], OP=0, NT=3),
  U(3, [0, 1], OP=1, NT=4, _heavy=1, _mem_gb=24, _time=2400),
  U(3, [0, 1], OP=2, NT=3, PREFILL=1),
  U(3, [0, 1], OP=3, NT=4, SPARSE=1), U(2, [0, 1, 2], OP=3),
  U(3, [0, 0, 1], OP=4), U(2, [0, 1, 1, 2], OP=4),
  U(2, [0, 1, 2], OP=5),
]

CHECKS = {
 'C14': {
  'level': 'model_checking',
  'explanation': 'ExplicitTreeAut::ReindexStates (functor overload into a fresh automaton and into a given destination that is a storage-sharing copy of the source; weak-translator overload with a symbolic allocator, a pre-entered translation, and with a counting allocator), CollapseStates (total StateToStateMap) and TranslateSymbols executed symbolically on every automaton of the rule universe together with every state map (one symbolic target index per state: identity, permutations, merging maps, maps into a larger / sparse range of numbers above 2^32) resp. every rank-preserving symbol map. The result is decoded by iterating it and compared rule by rule and final state by final state with the mask-level image of the input under the map (a rule / final state is expected iff it is the image of one of the input); the map of the weak translator is read back after the call (exactly the states occurring in the automaton plus the pre-entered one, with the allocated values; dense and injective for the counting allocator). Consequences are decided by the independent macro-state inclusion oracle: L(A) subseteq L(result) always, L(result) subseteq L(A) and equal numbers of rules and states whenever the map is injective on the occurring states, symbol maps against the relabelled language, identity symbol map returns the same automaton; the source automaton is re-read after the call and must be unchanged.',
  'bounds': {'quick': 'automata over 2 states x {a/0,f/1}, {a/0,g/2}, {a/0,b/0,f/1}, {a/0,b/0,g/2}, {a/0,f/1,f2/1}, {a/0,b/0,f/1,f2/1} and 3 states x {a/0,f/1}; all rule subsets and final sets; all state maps into 2..3 target indices (dense or sparse numbers), all rank-preserving symbol maps; 8..18 free bits per query',
             'thorough': 'as quick plus 3 states x {a/0,f/1} with all maps into 3..4 targets for every overload, 2 states x {a/0,f/1,g/2}, 3 states x {a/0,b/0,f/1} and 2 states x {a/0,f/1,f2/1,g/2} for symbol maps (up to 21 bits)'},
  'outside': 'more than 3 states, rank > 2, symbol maps that identify symbols of different rank (the result is no ranked automaton), state maps / functors that are partial on the occurring states (CollapseStates then throws std::out_of_range from unordered_map::at), functors that are not functions (different answers for the same state), a destination automaton other than an empty one or a copy of the source, destination == source object',
  'harnesses': [
    {'name': 'rename', 'src': 'harness/C14/rename.cc', 'tus': TREE_CORE,
     'configs': {'quick': _QUICK, 'thorough': _THOROUGH},
     'selftest_config': U(2, [0, 1], OP=0, NT=3), 'selftests': ['VS_SELFTEST_1', 'VS_SELFTEST_2']},
    {'name': 'rename-sym', 'src': 'harness/C14/rename.cc', 'tus': TREE_CORE,
     'configs': {'quick': [U(2, [0, 1, 1], OP=4)], 'thorough': [U(2, [0, 1, 1], OP=4)]},
     'selftest_config': U(2, [0, 1, 1], OP=4), 'selftests': ['VS_SELFTEST_1']},
  ],
 },
}
