import sys, os
sys.path.insert(0, os.path.dirname(os.path.dirname(os.path.abspath(__file__))))
from checks import *

def L(steps, init, cubes=0, opb=0, nv=2, actset=0, **kw):
    d = {'NV': nv, 'NVAL': 4, 'STEPS': steps, 'INIT': init, 'CUBES': cubes, 'OPB': opb, 'ACTSET': actset}
    d.update(kw); return d

_life_quick = [L(3, 0), L(3, 1, 1), L(3, 2), L(3, 2, 2, 1), L(4, 1), L(3, 1, 0, 2, nv=3), L(3, 1, 3), L(3, 0, 3)]
_life_thorough = _life_quick + [L(4, 0, 1), L(4, 2), L(4, 2, 2, 1), L(4, 1, 1, 2, nv=3), L(5, 1, _time=2500), L(5, 0, 1, _time=2500), L(5, 2, 2, 1, _time=2500)]
_derive_quick = [L(4, 1, nv=3, actset=1, SHAREDFN=None, PREFIX0=None, ACTMASK='0x93e0u'),   # project x2, both cofactors, apply x2, destroy, unary: one functor object used node-wise, then diagram-wise
                 L(3, 1, nv=3, actset=1, SHAREDFN=None), L(2, 1, nv=3, actset=1), L(2, 2, nv=3, actset=1), L(3, 0, nv=3, actset=1), L(2, 2, 1, nv=3, actset=1)]
_derive_thorough = _derive_quick + [L(3, 1, nv=3, actset=1), L(3, 2, nv=3, actset=1), L(3, 1, 1, nv=3, actset=1), L(3, 2, 2, nv=3, actset=1)]

CHECKS = {
 'C18': {
  'level': 'model_checking',
  'explanation': 'Drawn histories over three heap-allocated OndriksMTBDD<unsigned> handles that share sub-graphs (and share them with a diagram that outlives the history): per step one of construct from a cube / copy-construct or assign from another handle / self-assign / binary apply into a third or into an operand handle / destroy (harness life), plus Project, Rename, ExtendWith, GetMtbddForPrefix, unary and ternary apply and constant construction (harness derive), executed symbolically for all histories at once. After every step every live handle is read back on all assignments and compared with its shadow table, equal roots <=> equal shadows; the engine reports every use after free, double free and invalid free in the real reference-counting code; at the end the remaining handles are destroyed and the sizes of both unique tables (read-only hooks VerifLeafCacheSize / VerifInternalCacheSize) must equal the sizes recorded before the history, with the surviving diagram intact and re-constructible to the same root.',
  'bounds': {'quick': 'histories of 3 (one universe: 4) steps with 8 actions x 3 target handles per step from 3 concrete start states (empty / two diagrams sharing a sub-graph / three diagrams incl. an apply result), 4 cube sets (shared internal node, different leaves, constants with different defaults, an all-X cube whose unused default leaf is in use elsewhere), apply = plus mod 4 / max / xor, 2 or 3 variables; with the 16-action set: 2..3 steps over 3 variables (12..20 free bits per query); third red-team round: one diagram with a symbolic value table (2 variables x 4 values, 3 variables x 2 values) and 65537 resp. 258 live handles on it (copy-constructed or assigned), 1..2 of them destroyed (10 free bits)',
             'thorough': 'as quick plus 4-step histories from every start state, a 5-step universe and 3-step histories with the 16-action set from every start state'},
  'outside': 'more than 3 handles in a drawn history (the many-references harness has 65537 copies of one diagram, thorough 131074), more than 2^17 live references to one node, histories longer than 5 steps, leaf types with their own resources (sets, vectors), diagrams over more than 3 variables, destruction order at process exit (static destruction of the unique tables is not executed)',
  'assumptions': ['handles are heap objects created with new and destroyed with delete by the harness; the temporaries returned by the apply functors are destroyed at the end of the full expression as in any client'],
  'harnesses': [
    {'name': 'life', 'src': 'harness/C18/life.cc', 'tus': ['sym_var_asgn'],
     'configs': {'quick': _life_quick, 'thorough': _life_thorough},
     'selftest_config': L(3, 0), 'selftests': ['VS_SELFTEST_1']},
    {'name': 'derive', 'src': 'harness/C18/life.cc', 'tus': ['sym_var_asgn'],
     'configs': {'quick': _derive_quick, 'thorough': _derive_thorough},
     'selftest_config': L(2, 1, nv=3, actset=1), 'selftests': ['VS_SELFTEST_1']},
    # one diagram (symbolic value table) with NCOPY concrete live handles on it, a symbolic number of them destroyed: a reference
    # counter narrower than the number of live references wraps (third red-team round: uintptr_t -> uint16_t)
    {'name': 'manyrefs', 'src': 'harness/C18/manyrefs.cc', 'tus': ['sym_var_asgn'],
     'configs': {'quick': [{'NV': 2, 'NVAL': 4, 'NCOPY': 65537}, {'NV': 3, 'NVAL': 2, 'NCOPY': 258}], 'thorough': [{'NV': 2, 'NVAL': 4, 'NCOPY': 65537}, {'NV': 3, 'NVAL': 2, 'NCOPY': 258}, {'NV': 2, 'NVAL': 4, 'NCOPY': 131074, '_time': 2500}]},
     'selftest_config': {'NV': 2, 'NVAL': 4, 'NCOPY': 300}, 'selftests': ['VS_SELFTEST_1']},
  ],
 },
}
