import sys, os
sys.path.insert(0, os.path.dirname(os.path.dirname(os.path.abspath(__file__))))
from checks import *

BDD_CORE = ['bdd_bu_tree_aut', 'bdd_bu_tree_aut_core', 'bdd_td_tree_aut', 'bdd_td_tree_aut_core', 'symbolic_tree_aut_base_core', 'sym_var_asgn']
BDD_OPS = BDD_CORE + ['bdd_bu_tree_aut_union', 'bdd_bu_tree_aut_union_disj', 'bdd_bu_tree_aut_isect', 'bdd_bu_tree_aut_unreach', 'bdd_bu_tree_aut_useless',
                      'bdd_td_tree_aut_union', 'bdd_td_tree_aut_union_disj', 'bdd_td_tree_aut_isect', 'bdd_td_tree_aut_unreach', 'bdd_td_tree_aut_useless']

def ops(na, nb, ranks, **kw):
    d = {'NA': na, 'NB': nb, 'SYM_RANKS': '{%s}' % ','.join(str(r) for r in ranks)}
    d.update(kw); return d

def c08_ops(tier):
    out = []
    for enc in (0, 1):
        unary = [0, 4, 5] + ([6] if enc == 0 else [])
        for op in unary:
            out.append(ops(2, 0, [0, 1], ENC=enc, OP=op))                      # 8 bits
        for op in (1, 2, 3):
            out.append(ops(2, 1, [0, 1], ENC=enc, OP=op))                      # 11 bits
    return out

CHECKS = {
 'C08': {
  'level': 'model_checking',
  'explanation': 'Load (LoadFromString through a parser that hands over the AutDescription), Union, UnionDisjointStates, Intersection, RemoveUnreachableStates, RemoveUselessStates and GetTopDownAut of BDDBottomUpTreeAut / BDDTopDownTreeAut executed symbolically (MTBDD package included) on every automaton / pair drawn from the rule universe of the configuration; the result and every operand after the call are dumped with DumpToString (serializer that receives the AutDescription), decoded by name into rule masks and compared by language with the expected automaton (mask-level disjoint union / product / the operand itself) using an independent macro-state inclusion oracle.',
  'bounds': {'quick': 'operands over <= 2 states, {a/0,f/1}', 'thorough': 'as quick'},
  'outside': 'more than 3 states per operand, rank > 2',
  'harnesses': [
    {'name': 'bddops', 'src': 'harness/C08/bddops.cc', 'tus': BDD_OPS,
     'configs': {'quick': c08_ops('quick'), 'thorough': c08_ops('thorough')},
     'selftest_config': ops(2, 1, [0, 1], ENC=0, OP=1), 'selftests': ['VS_SELFTEST_1', 'VS_SELFTEST_2']},
  ],
 },
}
