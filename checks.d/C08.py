import sys, os
sys.path.insert(0, os.path.dirname(os.path.dirname(os.path.abspath(__file__))))
from checks import *

BDD_CORE = ['bdd_bu_tree_aut', 'bdd_bu_tree_aut_core', 'bdd_td_tree_aut', 'bdd_td_tree_aut_core', 'symbolic_tree_aut_base_core', 'sym_var_asgn', 'symbolic']
BDD_OPS = BDD_CORE + ['bdd_bu_tree_aut_union', 'bdd_bu_tree_aut_union_disj', 'bdd_bu_tree_aut_isect', 'bdd_bu_tree_aut_unreach', 'bdd_bu_tree_aut_useless',
                      'bdd_td_tree_aut_union', 'bdd_td_tree_aut_union_disj', 'bdd_td_tree_aut_isect', 'bdd_td_tree_aut_unreach', 'bdd_td_tree_aut_useless']

def ops(na, nb, ranks, **kw):
    d = {'NA': na, 'NB': nb, 'SYM_RANKS': '{%s}' % ','.join(str(r) for r in ranks)}
    d.update(kw); return d
def seq(na, nb, nc, ranks, **kw):
    d = {'NA': na, 'NB': nb, 'NC': nc, 'SYM_RANKS': '{%s}' % ','.join(str(r) for r in ranks)}
    d.update(kw); return d

# sub-universes (bit i = universe rule i is a solver variable, the other rules are absent)
SAME8 = '0x109bul'      # 2 states, {a/0,a/1,a/2}: a->q0, a->q1, a(q1)->q0, a(q0)->q1, a(q0,q1)->q0, a(q1,q0)->q1
SAME12 = '0x16bful'     # 2 states, {a/0,a/1,a/2}: all nullary and unary rules, a(q0,q1)->q0, a(q1,q1)->q0, a(q0,q0)->q1, a(q1,q0)->q1
BIN6 = '0x16bul'        # 2 states, {a/0,g/2}: a->q0, a->q1, g(q0,q1)->q0, g(q1,q1)->q0, g(q0,q0)->q1, g(q1,q0)->q1
BIN3_11 = '0x2889917ul' # 3 states, {a/0,g/2}: the 3 nullary rules and 8 binary rules, every state parent and child

# 3 states, {a/0,f/1,g/2}: a->q0, f(q0)->q1, f(q1)->q2, g(q0,q1)->q2, g(q0,q2)->q2, g(q1,q0)->q2, g(q2,q0)->q2: the product states of
# the two child positions of a binary rule are discovered at different times (work-list order matters)
CHAIN3 = '0x1380000441ul'

def c08_ops(tier):
    out = []
    for enc in (0, 1):
        out.append(ops(1, 3, [0, 1, 2], ENC=enc, OP=3, BFREE=CHAIN3))                          # 14 bits: one operand repeats a child state
        if tier == 'thorough' or enc == 0:
            out.append(ops(3, 1, [0, 1, 2], ENC=enc, OP=3, AFREE=CHAIN3))                      # 14 bits
        unary = [0, 4, 5] + ([6] if enc == 0 else [])
        for op in unary:
            out.append(ops(2, 0, [0, 1], ENC=enc, OP=op))                                      # 8 bits
            out.append(ops(2, 0, [0, 0, 1], ENC=enc, OP=op))                                   # 10 bits
            if tier == 'thorough' or (op != 6 and (enc == 0 or op == 5)):                      # the others: 15..60 s each
                out.append(ops(2, 0, [0, 2], ENC=enc, OP=op))                                  # 12 bits
            out.append(ops(2, 0, [0, 1, 2], ENC=enc, OP=op, SAME_NAME=None, AFREE=SAME8))      # 8 bits, one symbol name with three ranks
            if tier == 'thorough' or op == 5:                                                  # quick: RemoveUselessStates (third red-team round: a productive state reachable only through a rule with an unproductive sibling needs 3 states and rank 2)
                out.append(ops(3, 0, [0, 2], ENC=enc, OP=op, AFREE=BIN3_11, _time=2400))       # 14 bits
            if tier == 'thorough':
                out.append(ops(3, 0, [0, 1], ENC=enc, OP=op, _time=2400))                      # 15 bits
                out.append(ops(2, 0, [0, 1, 2], ENC=enc, OP=op, SAME_NAME=None, AFREE=SAME12, _time=2400))   # 12 bits
        # state numbers / symbol codes handed out by the loader in order of appearance, or fixed in another order
        out.append(ops(2, 0, [0, 1], ENC=enc, OP=0, SEED=0))
        out.append(ops(2, 0, [0, 1], ENC=enc, OP=0, PRIME=1))
        out.append(ops(2, 0, [0, 1], ENC=enc, OP=5, SEED=0, PRIME=2))
        # trimming a copy that shares the table of the original
        out.append(ops(2, 0, [0, 1], ENC=enc, OP=4, SHARE=1))
        out.append(ops(2, 0, [0, 1], ENC=enc, OP=5, SHARE=1))
        for op in (1, 2, 3):
            out.append(ops(2, 1, [0, 1], ENC=enc, OP=op))                                      # 11 bits
            out.append(ops(1, 2, [0, 1], ENC=enc, OP=op))                                      # 11 bits
            out.append(ops(1, 1, [0, 0, 1, 2], ENC=enc, OP=op))                                # 10 bits
            out.append(ops(2, 2, [0, 1], ENC=enc, OP=op, SHARE=1))                             # 10 bits, operands share one table
            if tier == 'thorough' or enc == 0 or op != 3:
                out.append(ops(2, 2, [0, 2], ENC=enc, OP=op, SHARE=1, AFREE=BIN6))             # 10 bits, operands share one table
            if op != 2: out.append(ops(2, 1, [0, 1], ENC=enc, OP=op, SEED=0))                  # 11 bits
            if tier == 'thorough':
                out.append(ops(2, 2, [0, 1], ENC=enc, OP=op, _time=2400))                      # 16 bits
                out.append(ops(2, 1, [0, 2], ENC=enc, OP=op, AFREE=BIN6, _time=2400))          # 11 bits
                if not (enc == 1 and op == 3):                                                 # top-down intersection: > 40 min
                    out.append(ops(2, 2, [0, 2], ENC=enc, OP=op, SHARE=1, _time=2400))         # 14 bits
    out.sort(key=lambda d: 0 if '_time' in d else 1)      # the long queries first
    return out

def c08_seq(tier):
    out = []
    for enc in (0, 1):
        for s in (1, 5):
            out.append(seq(1, 1, 1, [0, 1], ENC=enc, SEQ=s))                                   # 9 bits
            out.append(seq(1, 1, 1, [0, 0, 1], ENC=enc, SEQ=s))                                # 12 bits
            if tier == 'thorough':
                out.append(seq(2, 1, 1, [0, 1], ENC=enc, SEQ=s))                               # 14 bits
                out.append(seq(1, 1, 1, [0, 2], ENC=enc, SEQ=s))                               # 9 bits
        if enc == 0:
            out.append(seq(1, 1, 0, [0, 1], ENC=0, SEQ=7))                                     # 6 bits
            out.append(seq(1, 1, 0, [0, 1, 2], ENC=0, SEQ=7))                                  # 8 bits
            if tier == 'thorough': out.append(seq(2, 1, 0, [0, 1], ENC=0, SEQ=7)); out.append(seq(1, 2, 0, [0, 0, 1], ENC=0, SEQ=7))
        for s in (2, 3, 4) + ((6,) if enc == 0 else ()):
            out.append(seq(1, 1, 0, [0, 0, 1], ENC=enc, SEQ=s))                                # 8 bits
            if tier == 'thorough' or not (s == 6 or (enc == 1 and s == 3)):                    # those: ~50 s each
                out.append(seq(2, 1, 0, [0, 1], ENC=enc, SEQ=s))                               # 11 bits
            if tier == 'thorough':
                out.append(seq(1, 2, 0, [0, 1], ENC=enc, SEQ=s))                               # 11 bits
                out.append(seq(1, 1, 0, [0, 1, 2], ENC=enc, SEQ=s))                            # 8 bits
    return out

CHECKS = {
 'C08': {
  'level': 'model_checking',
  'explanation': 'Load (LoadFromString through a parser object that hands over the AutDescription), Union, UnionDisjointStates, Intersection, RemoveUnreachableStates, RemoveUselessStates and GetTopDownAut of BDDBottomUpTreeAut / BDDTopDownTreeAut executed symbolically (MTBDD package, on-the-fly alphabet and state dictionaries included) on every automaton / pair / triple drawn from the rule universe of the configuration (presence bit per rule, finality bit per state). The result and every operand (and earlier result) after each call are dumped with DumpToString (serializer object that receives the AutDescription), decoded by state and symbol name into rule masks and compared by *language* with the expected automaton (the operand itself, mask-level disjoint union, mask-level product) using an independent macro-state inclusion oracle in both directions; after RemoveUselessStates every state the dump mentions must occur in an accepting run of the dumped automaton. harness bddops: one operation on fresh operands or on operands that are copies sharing one transition table; harness bddseq: two-call sequences starting with UnionDisjointStates (whose result used to alias its left operand\'s table), every automaton built so far is re-checked after each call.',
  'bounds': {'quick': 'operands over <= 2 states: universes 2 x {a/0,f/1}, 2 x {a/0,b/0,f/1}, 2 x {a/0,g/2}, 2 x {a/0,a/1,a/2} (one name, three ranks; 6-rule sub-universe), pairs 2+1, 1+2 over {a/0,f/1}, 1+1 over {a/0,b/0,f/1,g/2}, table-sharing pairs over {a/0,f/1} and a 6-rule sub-universe of {a/0,g/2}, intersection of a 1-state operand over {a/0,f/1,g/2} with a 3-state operand restricted to a 7-rule chain-shaped sub-universe (either order); triples 1+1+1 over {a/0,f/1} and {a/0,b/0,f/1}; state numbers and symbol codes either fixed in advance or handed out by the loader; all rule subsets and final sets (8..12 free bits per query); a converted (GetTopDownAut) automaton meeting a directly loaded top-down automaton in Intersection and Union (1+1 over {a/0,f/1} and {a/0,f/1,g/2}); RemoveUselessStates of both encodings on an 11-rule sub-universe of 3 x {a/0,g/2} (14 bits; third red-team round)',
             'thorough': 'as quick plus 3 x {a/0,f/1}, an 11-rule sub-universe of 3 x {a/0,g/2}, 2 x {a/0,a/1,a/2} with 10 free rules, pairs 2+2 over {a/0,f/1}, 2+1 over {a/0,g/2}, table-sharing pairs over all of 2 x {a/0,g/2}, triples 2+1+1 (up to 16 free bits per query)'},
  'outside': 'more than 3 states per operand, rank > 2, more than 4 symbols; sequences longer than two calls; the Timbuk text parser/serializer (the harness hands AutDescription objects over directly); loading into an automaton whose table is already shared (AddTransition asserts uniqueness); the "symbolic" load/dump parameter; state dictionaries other than the seeded / on-the-fly ones',
  'harnesses': [
    {'name': 'bddops', 'src': 'harness/C08/bddops.cc', 'tus': BDD_OPS,
     'configs': {'quick': c08_ops('quick'), 'thorough': c08_ops('thorough')},
     'selftest_config': ops(2, 1, [0, 1], ENC=0, OP=1), 'selftests': ['VS_SELFTEST_1', 'VS_SELFTEST_2']},
    {'name': 'bddseq', 'src': 'harness/C08/bddseq.cc', 'tus': BDD_OPS,
     'configs': {'quick': c08_seq('quick'), 'thorough': c08_seq('thorough')},
     'selftest_config': seq(1, 1, 1, [0, 1], ENC=1, SEQ=5), 'selftests': ['VS_SELFTEST_1']},
  ],
 },
}
