import sys, os
sys.path.insert(0, os.path.dirname(os.path.dirname(os.path.abspath(__file__))))
from checks import *

def rmask(ns, ranks, pred):
    """rule mask of the universe U(ns, ranks) (layout of harness/common/universe.h): bit set iff pred(symbol, parent, children)"""
    m = 0; idx = 0
    for s, rk in enumerate(ranks):
        for p in range(ns):
            for t in range(ns ** rk):
                ch = []; x = t
                for _ in range(rk): ch.insert(0, x % ns); x //= ns
                if pred(s, p, ch): m |= 1 << idx
                idx += 1
    return '0x%xul' % m

def R(ns, ranks, rename=None, **kw):
    d = U(ns, ranks, **kw)
    if rename is not None: d['RENAME'] = '{%s}' % ','.join(str(x) for x in rename)
    return d

# sub-universes of U(3, {a/0, g/2}) (3 leaf rules + 27 binary rules)
G3_ASC   = rmask(3, [0, 2], lambda s, p, ch: s == 0 or ch[0] < ch[1])                                                # g(c,d)->p with c < d (9 binary rules)
G3_DIAG  = rmask(3, [0, 2], lambda s, p, ch: s == 0 or ch[0] == ch[1])                                               # g(c,c)->p (9 binary rules)
G3_ASC12 = rmask(3, [0, 2], lambda s, p, ch: s == 0 or ch[0] < ch[1] or (ch[0] == ch[1] and p == ch[0]))              # ascending pairs (9) + g(q,q)->q (3)
# sub-universes of U(4, {a/0, u/1}) (4 leaf rules + 16 unary rules): the 6 forward rules u(qi)->qj, i < j, (14 bits) / forward rules and
# self loops (18 bits): third red-team round - lost removals in the LTS engine need a second refinement round, i.e. 4 states
U4_FWD  = rmask(4, [0, 1], lambda s, p, ch: s == 0 or ch[0] < p)
U4_FWDL = rmask(4, [0, 1], lambda s, p, ch: s == 0 or ch[0] <= p)
HEAVY = {'_heavy': 1, '_mem_gb': 16, '_time': 2400}

QUICK = [
  R(4, [0, 1], RMASK=U4_FWD, _time=1500),
  R(2, [0, 1]), R(2, [0, 1], rename=[5, 2]), R(2, [0, 0, 1], PERM=1), R(2, [0, 2], rename=[1, 0]), R(2, [0, 1, 2]),
  R(3, [0, 1]), R(3, [0, 1], rename=[7, 0, 3]), R(3, [0, 1], PERM=1), R(3, [0, 0, 1], rename=[4, 9, 1]), R(3, [0, 2], RMASK=G3_ASC),
]
THOROUGH = QUICK + [
  R(2, [0, 1, 2], rename=[9, 4]), R(2, [0, 0, 1, 2], **HEAVY), R(3, [0, 0, 1], PERM=1, **HEAVY), R(3, [0, 2], rename=[2, 8, 5], RMASK=G3_DIAG), R(2, [0, 0, 2], PERM=1),
  R(3, [0, 2], RMASK=G3_ASC12, **HEAVY),
  R(4, [0, 1], RMASK=U4_FWDL, **HEAVY),
]

CHECKS = {
 'C05': {
  'level': 'model_checking',
  'explanation': 'ExplicitTreeAut::Reduce() executed symbolically on every automaton whose rules are drawn from the rule universe of the configuration (presence bit per rule, finality bit per state), built with dense, permuted (concrete or symbolic permutation) or sparse concrete state numbers; the returned automaton is decoded by iterating its transitions and final states and compared with the input: language equality by two macro-state inclusion oracles, number of occurring states and number of rules not larger, every state of the result is a state of the input (the representative chosen by the quotient projection), operand unchanged.',
  'bounds': {'quick': 'automata over 2 states with {a/0,f/1} (dense and sparse {5,2}), {a/0,b/0,f/1} (symbolic numbering), {a/0,g/2} (swapped), {a/0,f/1,g/2}; over 3 states with {a/0,f/1} (dense, sparse {7,0,3}, symbolic numbering), {a/0,b/0,f/1} (sparse {4,9,1}), and {a/0,g/2} restricted to the 9 binary rules with ascending children; all rule subsets and final sets (8..18 free bits per query); third red-team round: 4 states with {a/0,u/1} restricted to the leaf rules and the 6 forward rules u(qi)->qj, i < j (14 bits)',
             'thorough': 'as quick plus 2 x {a/0,f/1,g/2} sparse, 2 x {a/0,b/0,f/1,g/2}, 3 x {a/0,b/0,f/1} with symbolic numbering, two further sub-universes of 3 x {a/0,g/2} (9 rules g(c,c)->p with sparse numbers {2,8,5}; 12 rules), 2 x {a/0,b/0,g/2} with symbolic numbering; 4 states with {a/0,u/1}, forward rules and self loops (18 bits)'},
  'outside': 'more than 3 states (4 outside the forward-chain sub-universes over one unary symbol), rank > 2, 3 states with a binary symbol outside the listed sub-universes, one symbol used with two ranks, automata sharing storage with other automata (see C11), ReduceParam relations other than TA_DOWNWARD (none is implemented)',
  'harnesses': [
    {'name': 'reduce', 'src': 'harness/C05/reduce.cc', 'tus': TREE_INCL,
     'configs': {'quick': QUICK, 'thorough': THOROUGH},
     'selftest_config': R(2, [0, 0, 1], PERM=1), 'selftests': ['VS_SELFTEST_1', 'VS_SELFTEST_2']},
  ],
 },
}
