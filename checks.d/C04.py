import sys, os
sys.path.insert(0, os.path.dirname(os.path.dirname(os.path.abspath(__file__))))
from checks import *

def rmask(ns, ranks, pred):
    """rule mask of the universe U(ns, ranks) (layout of harness/common/universe.h): bit set iff pred(symbol, parent, children)"""
    m = 0; idx = 0
    for s, rk in enumerate(ranks):
        for p in range(ns):
            for t in range(ns ** rk):
                ch = []; x = t
                for _ in range(rk): ch.insert(0, x % ns); x //= ns
                if pred(s, p, ch): m |= 1 << idx
                idx += 1
    return '0x%xul' % m

# sub-universes of U(3, {a/0, g/2}) (3 leaf rules + 27 binary rules): the leaf rules plus 9 binary rules
G3_ASC  = rmask(3, [0, 2], lambda s, p, ch: s == 0 or ch[0] < ch[1])        # g(c,d)->p with c < d
G3_DIAG = rmask(3, [0, 2], lambda s, p, ch: s == 0 or ch[0] == ch[1])       # g(c,c)->p
HEAVY = {'_heavy': 1, '_mem_gb': 16, '_time': 2400}
def CLI(ns, ranks, rename, **kw):
    # the path of `vata sim`: arbitrary (sparse) concrete numbers, ReindexStates first, its state count passed on
    return U(ns, ranks, VIA_REINDEX=None, RENAME='{%s}' % ','.join(str(x) for x in rename), **kw)
DOWN_Q = [U(3, [0, 1], DIR=0, COPYREL=None), U(2, [0, 1], DIR=0), U(2, [0, 0, 1], DIR=0), U(2, [0, 2], DIR=0), U(2, [1, 2], DIR=0), U(3, [0, 1], DIR=0), U(2, [0, 1, 2], DIR=0),
          CLI(2, [0, 2], [6, 1], DIR=0), CLI(3, [0, 1], [7, 0, 3], DIR=0, PERM=0)]
UP_Q   = [U(3, [0, 1], DIR=1, COPYREL=None), U(2, [0, 1], DIR=1), U(2, [0, 0, 1], DIR=1), U(2, [0, 2], DIR=1), U(2, [0, 1, 1], DIR=1), U(3, [0, 1], DIR=1), U(2, [0, 0, 2], DIR=1),
          CLI(2, [0, 2], [6, 1], DIR=1), CLI(3, [0, 1], [7, 0, 3], DIR=1, PERM=0)]
DOWN_T = DOWN_Q + [CLI(2, [0, 1, 2], [9, 4], DIR=0, PERM=0), U(2, [0, 0, 1, 2], DIR=0), U(3, [0, 0, 1], DIR=0), U(3, [0, 2], DIR=0, RMASK=G3_ASC), U(3, [0, 2], DIR=0, RMASK=G3_DIAG)]
# upward with 3 states and a binary symbol: concrete numberings (PERMFIX = index of the permutation), because the symbolic
# permutation makes the hash of TranslateUpward::Env symbolic and the engine then needs the SMT solver for every bucket index
UP_T   = UP_Q + [CLI(2, [0, 0, 2], [9, 4], DIR=1, PERM=0), U(2, [0, 1, 2], DIR=1, **HEAVY), U(3, [0, 0, 1], DIR=1),
                 U(3, [0, 2], DIR=1, RMASK=G3_ASC, PERMFIX=3, **HEAVY), U(3, [0, 2], DIR=1, RMASK=G3_DIAG, PERMFIX=0, **HEAVY), U(3, [0, 2], DIR=1, RMASK=G3_DIAG, PERMFIX=4, **HEAVY)]

CHECKS = {
 'C04': {
  'level': 'model_checking',
  'explanation': 'ExplicitTreeAut::ComputeSimulation(SimParam{TA_DOWNWARD | TA_UPWARD, numStates = n}) executed symbolically on every automaton whose rules are drawn from the rule universe of the configuration (presence bit per rule, finality bit per state), built through AddTransition/SetStateFinal after renaming the states by a symbolic permutation of 0..n-1; the returned DiscontBinaryRelation is read with get(x,y) for all states x,y of the automaton and compared with the greatest downward / upward simulation computed by a naive greatest-fixpoint oracle of the definition on the un-renamed automaton (transported along the permutation); reflexivity and transitivity of the result are checked separately. The VIA_REINDEX configurations follow `vata sim` (cli/operations.hh): the automaton is built with sparse numbers, renumbered by ReindexStates with a weak translator whose counter is passed as the number of states, and the relation is read at the translated numbers. Upward: inputs restricted (vs_assume) to automata in which all n states are useful.',
  'bounds': {'quick': 'automata over 2 states with alphabets {a/0,f/1}, {a/0,b/0,f/1}, {a/0,g/2}, and downward {f/1,g/2}, {a/0,f/1,g/2}, upward {a/0,f/1,h/1}, {a/0,b/0,g/2}; over 3 states with {a/0,f/1}; all rule subsets, all final sets, all 2 resp. 6 numberings of the states; the `vata sim` path (sparse numbers {6,1} / {7,0,3}, ReindexStates first) on 2 x {a/0,g/2} and 3 x {a/0,f/1} in both directions (9..18 free bits per query); the returned relation copied and its source variable re-used for another numbering (3 x {a/0,f/1}, both directions)',
             'thorough': 'as quick plus downward: 2 x {a/0,b/0,f/1,g/2}, 3 x {a/0,b/0,f/1}, two sub-universes of 3 x {a/0,g/2} with 9 binary rules each (all 6 numberings); upward: 2 x {a/0,f/1,g/2}, 3 x {a/0,b/0,f/1}, the same two 3-state sub-universes with a binary symbol under three concrete numberings'},
  'outside': 'more than 3 states, rank > 2, 3 states together with a binary symbol outside the listed 9-rule sub-universes (thorough tier only), alphabets that use one symbol with two different ranks (the LTS encoding inlines unary rules), numStates different from the number of states, state numbers >= numStates without the ReindexStates step of the CLI (sparse numberings of Reduce: see C05), upward simulation of automata with useless states (not claimed by the property)',
  'assumptions': ['upward: every state of the automaton is useful (vs_assume on the oracle mask usefulStates)', 'get(x,y) is only called for numbers x,y that occur in the automaton (parent, child or final); for other numbers the relation throws, which is outside the property'],
  'harnesses': [
    {'name': 'down', 'src': 'harness/C04/sim.cc', 'tus': TREE_INCL,
     'configs': {'quick': DOWN_Q, 'thorough': DOWN_T},
     'selftest_config': U(2, [0, 1], DIR=0), 'selftests': ['VS_SELFTEST_1', 'VS_SELFTEST_2']},
    {'name': 'up', 'src': 'harness/C04/sim.cc', 'tus': TREE_INCL,
     'configs': {'quick': UP_Q, 'thorough': UP_T},
     'selftest_config': U(2, [0, 0, 1], DIR=1), 'selftests': ['VS_SELFTEST_1', 'VS_SELFTEST_2']},
  ],
 },
}
