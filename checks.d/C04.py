import sys, os
sys.path.insert(0, os.path.dirname(os.path.dirname(os.path.abspath(__file__))))
from checks import *

HEAVY = {'_heavy': 1, '_mem_gb': 16, '_time': 1500}
DOWN_Q = [U(2, [0, 1], DIR=0), U(2, [0, 0, 1], DIR=0), U(2, [0, 2], DIR=0), U(2, [1, 2], DIR=0), U(3, [0, 1], DIR=0), U(2, [0, 1, 2], DIR=0)]
UP_Q   = [U(2, [0, 1], DIR=1), U(2, [0, 0, 1], DIR=1), U(2, [0, 2], DIR=1), U(2, [0, 1, 1], DIR=1), U(3, [0, 1], DIR=1), U(2, [0, 1, 2], DIR=1, _heavy=1, _mem_gb=32, _time=1500)]
DOWN_T = DOWN_Q + [U(2, [0, 0, 1, 2], DIR=0, **HEAVY), U(3, [0, 0, 1], DIR=0, **HEAVY), U(3, [1, 1], DIR=0, **HEAVY)]
UP_T   = UP_Q + [U(2, [0, 0, 1, 2], DIR=1, **HEAVY), U(3, [0, 0, 1], DIR=1, **HEAVY), U(2, [0, 0, 2], DIR=1)]

CHECKS = {
 'C04': {
  'level': 'model_checking',
  'explanation': 'ExplicitTreeAut::ComputeSimulation(SimParam{TA_DOWNWARD | TA_UPWARD, numStates = n}) executed symbolically on every automaton whose rules are drawn from the rule universe of the configuration (presence bit per rule, finality bit per state), built through AddTransition/SetStateFinal after renaming the states by a symbolic permutation of 0..n-1; the returned DiscontBinaryRelation is read with get(x,y) for all states x,y of the automaton and compared with the greatest downward / upward simulation computed by a naive greatest-fixpoint oracle of the definition on the un-renamed automaton (transported along the permutation); reflexivity and transitivity of the result are checked separately. Upward: inputs restricted (vs_assume) to automata in which all n states are useful.',
  'bounds': {'quick': 'automata over 2 states with alphabets {a/0,f/1}, {a/0,b/0,f/1}, {a/0,g/2}, {f/1,g/2} (downward) / {a/0,f/1,h/1} (upward), {a/0,f/1,g/2}, and over 3 states with {a/0,f/1}; all rule subsets, all final sets, all 2 resp. 6 numberings (9..19 free bits per query)',
             'thorough': 'as quick plus 2 states x {a/0,b/0,f/1,g/2}, 3 states x {a/0,b/0,f/1}, 3 states x {f/1,h/1} (downward), 2 states x {a/0,b/0,g/2} (upward)'},
  'outside': 'more than 3 states, rank > 2, 3 states together with a binary symbol, alphabets that use one symbol with two different ranks (the LTS encoding inlines unary rules), numStates different from the number of states, state numbers >= numStates (sparse numberings: see C05 for Reduce), upward simulation of automata with useless states (not claimed by the property)',
  'assumptions': ['upward: every state of the automaton is useful (vs_assume on the oracle mask usefulStates)', 'get(x,y) is only called for numbers x,y that occur in the automaton (parent, child or final); for other numbers the relation throws, which is outside the property'],
  'harnesses': [
    {'name': 'down', 'src': 'harness/C04/sim.cc', 'tus': TREE_INCL,
     'configs': {'quick': DOWN_Q, 'thorough': DOWN_T},
     'selftest_config': U(2, [0, 1], DIR=0), 'selftests': ['VS_SELFTEST_1', 'VS_SELFTEST_2']},
    {'name': 'up', 'src': 'harness/C04/sim.cc', 'tus': TREE_INCL,
     'configs': {'quick': UP_Q, 'thorough': UP_T},
     'selftest_config': U(2, [0, 0, 1], DIR=1), 'selftests': ['VS_SELFTEST_1', 'VS_SELFTEST_2']},
  ],
 },
}
