import sys, os
sys.path.insert(0, os.path.dirname(os.path.dirname(os.path.abspath(__file__))))
from checks import *

BDD_INCL = ['bdd_bu_tree_aut', 'bdd_bu_tree_aut_core', 'bdd_td_tree_aut', 'bdd_td_tree_aut_core', 'symbolic_tree_aut_base_core', 'sym_var_asgn', 'symbolic',
            'bdd_bu_tree_aut_union', 'bdd_bu_tree_aut_union_disj', 'bdd_bu_tree_aut_isect', 'bdd_bu_tree_aut_unreach', 'bdd_bu_tree_aut_useless',
            'bdd_td_tree_aut_union', 'bdd_td_tree_aut_union_disj', 'bdd_td_tree_aut_isect', 'bdd_td_tree_aut_unreach', 'bdd_td_tree_aut_useless',
            'bdd_bu_tree_aut_incl', 'bdd_td_tree_aut_incl', 'bdd_bu_tree_aut_sim', 'bdd_td_tree_aut_sim', 'aut_base', 'incl_param', 'util', 'convert']

def pair(na, nb, ranks, **kw):
    d = {'NA': na, 'NB': nb, 'SYM_RANKS': '{%s}' % ','.join(str(r) for r in ranks)}
    d.update(kw); return d

# (ENC, SEL, SIMSRC) - see harness/C07/bddincl.cc; SEL bit 0 = sim, bits 1..2 = 0 up, 1 down non-rec, 2 down rec, 3 down rec + cache
IMPLEMENTED = [(0, 0, 0), (0, 1, 1), (0, 5, 0), (0, 5, 1), (1, 4, 0), (1, 6, 0), (1, 5, 1), (1, 7, 1)]
# unimplemented selections whose exception comes from ComputeSimulation (NotImplementedException(__func__))
UNIMPLEMENTED = [(0, 1, 0), (1, 1, 0), (1, 3, 0), (1, 5, 0), (1, 7, 0)]
# unimplemented selections whose exception message is built with InclParam::toString() -> Convert::ToString(bool) ->
# std::ostringstream: the engine has no model of basic_ios::init / std::locale yet (VSYMEX-INCONCLUSIVE ... _M_cache_locale);
# set the flag when it has, the queries are complete
OSTRINGSTREAM_MODELLED = True
UNIMPLEMENTED_TOSTRING = [(0, 2, 0), (0, 3, 0), (0, 3, 1), (0, 4, 0), (0, 6, 0), (0, 7, 0), (0, 7, 1), (1, 0, 0), (1, 1, 1), (1, 2, 0), (1, 3, 1)]
# sub-universes of B over 2 states, {a/0,b/0,g/2} (bit i = universe rule i is a solver variable)
B6 = '0x81ful'    # a->r0, a->r1, b->r0, b->r1, g(r0,r0)->r0, g(r1,r1)->r1
B8 = '0xc3ful'    # B6 + g(r0,r1)->r0, g(r1,r0)->r1

# B over 2 states, {a/0,b/0,g/2}: a->r0, b->r0, a->r1, g(r0,r0)->r0, g(r0,r1)->r0, g(r1,r0)->r0 (one child position simulates, the other does not)
B6X = '0x77ul'
# A over 2 states: a->p0, b->p0, g(p0,p0)->p0, g(p0,p0)->p1, only p1 may be final;  B over 3 states: a->r0, a->r1, b->r0, b->r1,
# g(r0,r0)->r2, g(r0,r1)->r2, g(r1,r0)->r2, g(r1,r1)->r2, only r2 may be final: the children of A are covered only jointly by
# several rules of B (choice functions over the rules of B matter)
A4J = '0x115ul'
B8J = '0x%xul' % sum(1 << i for i in (0, 1, 3, 4, 24, 25, 27, 28))
JOINT = {'AFREE': A4J, 'AFIN': '0x2u', 'BFREE': B8J, 'BFIN': '0x4u'}
# three leaf symbols: A over 2 states: a->p0, b->p0, c->p0, g(p0,p0)->p1 (p1 final); B over 3 states: a->r0, a->r1, b->r1, b->r2, c->r2,
# g(r0,r0)->r0, g(r0,r1)->r0, g(r1,r1)->r0, g(r2,r2)->r0 (r0 final): a child of A is covered by three rules of B only jointly, so
# that set-inclusion caches are consulted with 2-element subsets of an established 3-element set
JOINT3 = {'AFREE': '0x%xul' % sum(1 << i for i in (0, 2, 4, 10)), 'AFIN': '0x2u', 'BFREE': '0x%xul' % sum(1 << i for i in (0, 1, 4, 5, 8, 9, 10, 13, 17)), 'BFIN': '0x1u'}

# A over 2 states: a->p0, b->p1, g(p0,p1)->p0 (p0 final); B over 3 states: a->r0, a->r1, b->r0, b->r1, b->r2, g(ri,rj)->r0 for all 9
# pairs (r0 final): below the two children of the rule of A, B reaches 2 and 3 states - the upward algorithm has to enumerate a
# 2 x 3 product of child tuples
PROD23 = {'AFREE': '0x29ul', 'AFIN': '0x1u', 'BFREE': '0x7ffbul', 'BFIN': '0x1u'}

# A over 2 states: a->p0, a->p1, b->p1, g(p0,p0)->p1, g(p0,p1)->p0, g(p1,p0)->p0; B over 2 states: the 8-rule sub-universe B8: both
# children of a rule of A carry several macro-states of B at the same time (the combinations of finding C07-1)
UP22 = {'AFREE': '0x16bul', 'BFREE': B8}

# fourth round: A over 2 states {a/0,g/1,f/2}: a->q, a->r, g(q)->q, g(q)->r, f(q,q)->r (only r may be final); B over 3 states: a->p1, a->p2,
# g(p1)->p1, g(p1)->p2, g(p2)->p2, f(pi,pj)->pf for i,j in {1,2} (only pf may be final): a rule of A that repeats a child state whose
# macro-states are discovered at different times (the processed set has to be combined with the older sets of the same state)
REP2 = {'AFREE': '0x417ul', 'AFIN': '0x2u', 'BFREE': '0x%xul' % sum(1 << i for i in (0, 1, 3, 6, 7, 30, 31, 33, 34)), 'BFIN': '0x4u'}

def c07_configs(tier):
    out = []
    out.append(pair(2, 3, [0, 0, 2], **dict(PROD23, ENC=0, SEL=0, SIMSRC=0, _time=1500)))       # 19 bits
    out.append(pair(2, 3, [0, 1, 2], **dict(REP2, ENC=0, SEL=0, SIMSRC=0, _time=1500)))          # 16 bits
    if tier == 'thorough': out.append(pair(2, 3, [0, 1, 2], **dict(REP2, ENC=0, SEL=1, SIMSRC=1, _time=1500)))
    if tier == 'thorough': out.append(pair(2, 3, [0, 0, 2], **dict(PROD23, ENC=0, SEL=1, SIMSRC=1, _time=1500)))
    for (enc, sel, src) in IMPLEMENTED:
        k = {'ENC': enc, 'SEL': sel, 'SIMSRC': src}
        direct = not (sel & 1) or (enc, sel) == (0, 5)               # selections that sanitise copies themselves: called on the automata as loaded
        if direct: out.append(pair(2, 1, [0, 1], PRESAN=1, **k))     # ... and once the way the CLI does it (sanitised by the caller first)
        slow = (enc, sel, src) == (0, 5, 0)                          # also computes the simulation in the harness (which this selection ignores): minutes
        if not slow:                                                 # (0,5,0): the small universes only, in both tiers - (0,5,1) runs the same library code on the large ones
            out.append(pair(1, 2, [0, 0, 2], BFREE=B6X, **k))        # 12 bits
            out.append(pair(2, 3, [0, 0, 2], **dict(JOINT, _time=1500, **k)))    # 14 bits
            if tier == 'thorough' or (enc, sel) in ((1, 4), (1, 5), (0, 0)):        # quick: the plain downward functor with and without a relation, the upward algorithm; the others take 3..8 minutes each
                out.append(pair(2, 3, [0, 0, 0, 2], **dict(JOINT3, _time=1500, **k)))   # 15 bits
            if (enc, sel) in ((0, 0), (0, 1)):                       # bottom-up upward (finding C07-1, fixed): rank 2 in the smaller automaton
                out.append(pair(2, 1, [0, 2], _time=1500, **k))      # 15 bits
                out.append(pair(1, 2, [0, 2], _time=1500, **k))      # 15 bits
                if tier == 'thorough' or (enc, sel) == (0, 0): out.append(pair(2, 2, [0, 0, 2], **dict(UP22, _time=2800, **k)))   # 18 bits
        out.append(pair(1, 1, [0, 0, 1], **k))                       # 8 bits
        out.append(pair(1, 1, [0, 1, 2], SAME_NAME=None, **k))       # 8 bits: one symbol name used with three ranks (a:0 a:1 a:2)
        out.append(pair(2, 1, [0, 1], SAME_NAME=None, **k))          # 11 bits: a:0 a:1
        out.append(pair(1, 1, [0, 0, 2], **k))                       # 8 bits
        out.append(pair(2, 1, [0, 1], **k))                          # 11 bits
        out.append(pair(1, 2, [0, 1], **k))                          # 11 bits
        heavy = (enc, sel) == (0, 5)                                 # bottom-up downward: simulation + inversion, minutes
        if tier == 'thorough' or not heavy:
            out.append(pair(1, 2, [0, 0, 2], BFREE=B6, **k))         # 12 bits: children reached by different trees
        if tier == 'thorough' and not slow:
            out.append(pair(1, 2, [0, 0, 2], BFREE=B8, _time=2800, **k))   # 14 bits
            out.append(pair(2, 2, [0, 1], _time=2800, **k))          # 16 bits
            out.append(pair(2, 1, [0, 1], SEED=0, PRIME=2, **k))     # 11 bits, numbering by the loader
        if tier == 'thorough' and slow: out.append(pair(2, 1, [0, 1], SEED=0, PRIME=2, **k))
    # heap model with reuse of released addresses (the downward checkers memoise set comparisons under the addresses of macro-states)
    for (enc, sel, src) in [(1, 4, 0), (1, 6, 0), (1, 5, 1), (1, 7, 1)] + ([(0, 5, 1)] if tier == 'thorough' else []):
        k = {'ENC': enc, 'SEL': sel, 'SIMSRC': src, '_reuse': 1}
        out.append(pair(1, 2, [0, 0, 2], BFREE=B6, **k))
        out.append(pair(1, 2, [0, 0, 2], BFREE=B6X, **k))
        if tier == 'thorough': out.append(pair(2, 3, [0, 0, 2], **dict(JOINT, _time=1500, **k)))
    for (enc, sel, src) in UNIMPLEMENTED + (UNIMPLEMENTED_TOSTRING if OSTRINGSTREAM_MODELLED else []):
        out.append(pair(1, 1, [0, 0, 1], ENC=enc, SEL=sel, SIMSRC=src))   # 8 bits
    out.sort(key=lambda d: 0 if '_time' in d else 1)      # the long queries first
    return out

CHECKS = {
 'C07': {
  'level': 'model_checking',
  'explanation': 'BDDBottomUpTreeAut::CheckInclusion / BDDTopDownTreeAut::CheckInclusion executed symbolically (MTBDD package, sanitisation, inversion to top-down form, simulation computation included) for every parameter selection on every pair of automata drawn from the rule universes of the configuration (presence bit per rule, finality bit per state); operands loaded through LoadFromString and prepared as cli/operations.hh does (SanitizeAutsForInclusion; for sim=yes the relation the tool computes on UnionDisjointStates, or the identity relation where the library cannot compute one). Implemented selections: the verdict must equal an independent macro-state inclusion oracle on the rule masks (the same oracle semantics as the explicit-encoding check C01); every other selection must end in an exception (of any type) - or, should a future version implement it, in that same exact verdict: never in a wrong one.',
  'bounds': {'quick': 'pairs (A,B): 1+1 over {a/0,b/0,f/1} and {a/0,b/0,g/2}; 2+1, 1+2 over {a/0,f/1}; 1+2 over {a/0,b/0,g/2} with B restricted to a 6-rule sub-universe in which children are reached by different trees; all rule subsets and final sets (8..12 free bits per query); 8 implemented selections (bottom-up: upward, upward+identity relation, downward+simulation computed by the library; top-down: downward recursive with/without implication cache, with/without identity relation), the unimplemented selections on 1+1 (5 whose exception comes from ComputeSimulation, 11 whose message is built through the Convert stubs); plus (added after the red-team rounds): B6X (one child position of a binary rule of B simulates, the other does not), the joint-cover universes JOINT (2+3 over {a/0,b/0,g/2}, 14 bits) and JOINT3 (2+3 over {a/0,b/0,c/0,g/2}, 15 bits; quick: the plain downward functor with and without relation), PROD23 (2+3 over {a/0,b/0,g/2}, 19 bits: a 2 x 3 product of child tuples in the upward algorithm), calls without caller-side sanitisation for the selections that sanitise themselves, and 8 top-down queries under the heap model that reuses released addresses; one symbol name used with several ranks (a:0 a:1 a:2 on 1+1, a:0 a:1 on 2+1; third red-team round: the arity prefix of the top-down encoding is what keeps such symbols apart); REP2 (2+3 over {a/0,g/1,f/2}, 16 bits: a rule f(q,q) of A whose child gets its macro-states at different times; fourth round); since the repair of C07-1 the two upward selections also run on JOINT, JOINT3 (without relation), the full 2+1 and 1+2 universes over {a/0,g/2} (15 bits) and, without relation, UP22 (2+2 over {a/0,b/0,g/2}, 18 bits: both children of a rule of A carry several macro-states of B)',
             'thorough': 'as quick plus 2+2 over {a/0,f/1}, 1+2 over {a/0,b/0,g/2} with an 8-rule sub-universe of B, 2+1 with loader-assigned numbering (up to 16 free bits per query); JOINT / JOINT3 for every implemented selection, PROD23 with a supplied relation, address reuse also for bottom-up downward and on JOINT; UP22 and JOINT3 also with a supplied relation'},
  'outside': 'more than 2 states per operand, rank > 2, more than 3 symbols; simulation relations other than identity / the one the library computes; congruence algorithm, breadth-first order',
  'harnesses': [
    {'name': 'bddincl', 'src': 'harness/C07/bddincl.cc', 'tus': BDD_INCL,
     'configs': {'quick': c07_configs('quick'), 'thorough': c07_configs('thorough')},
     'selftest_config': pair(1, 1, [0, 0, 1], ENC=1, SEL=4, SIMSRC=0), 'selftests': ['VS_SELFTEST_1']},
  ],
 },
}
