import sys, os
sys.path.insert(0, os.path.dirname(os.path.dirname(os.path.abspath(__file__))))
from checks import *

MT_TUS = ['sym_var_asgn']

def M(nv, nval=4, **kw):
    """MTBDD universe: functions over nv variables (numbered VBASE..) with leaf values < nval; character-valued defines are quoted"""
    d = {'NV': nv, 'NVAL': nval}
    for k, v in kw.items(): d[k] = "'%s'" % v if k in ('FSRC', 'GSRC', 'HSRC') else v
    return d

def H(name, src, quick, thorough, selftests=('VS_SELFTEST_1',), selftest_config=None):
    return {'name': name, 'src': 'harness/C17/' + src, 'tus': MT_TUS, 'configs': {'quick': quick, 'thorough': quick + thorough},
            'selftest_config': selftest_config or quick[0], 'selftests': list(selftests)}

SLOW = {'_time': 2500}
HARNESSES = [
  # ---- construction from a cube with don't-care positions, GetValue (total / partial), GetPaths, constants, copies
  H('cube', 'build.cc', [M(2, MODE=0), M(3, MODE=0), M(2, VBASE=3, MODE=0)],
    [M(4, MODE=0), M(3, VBASE=2, MODE=0), M(3, 2, MODE=0)], selftests=('VS_SELFTEST_1', 'VS_SELFTEST_2')),
  # ---- two cubes in one node store: same root <=> same function
  H('equal', 'build.cc', [M(2, MODE=1), M(3, 2, MODE=1)], [M(3, MODE=1), M(2, VBASE=3, MODE=1), M(4, 2, MODE=1, ONE_DEFAULT=None)]),
  # ---- binary apply: T any table, C cube, K constant; OPSEL -1 = drawn among plus mod n / max / min / xor
  H('apply2', 'apply.cc',
    [M(2, KIND=0, FSRC='C', GSRC='C', OPSEL=-1), M(2, KIND=0, FSRC='T', GSRC='C', OPSEL=0), M(2, 2, KIND=0, FSRC='T', GSRC='T', OPSEL=-1),
     M(3, 2, KIND=0, FSRC='C', GSRC='C', OPSEL=3), M(2, VBASE=3, KIND=0, FSRC='C', GSRC='C', OPSEL=-1, ORDER=1), M(2, KIND=0, FSRC='T', GSRC='K', OPSEL=-1), M(3, 2, KIND=0, FSRC='T', GSRC='K', OPSEL=-1), M(3, 2, KIND=0, FSRC='C', GSRC='T', OPSEL=0)],
    [M(2, KIND=0, FSRC='T', GSRC='T', OPSEL=0, **SLOW), M(2, KIND=0, FSRC='T', GSRC='T', OPSEL=1, **SLOW), M(2, KIND=0, FSRC='T', GSRC='T', OPSEL=2, ORDER=1, **SLOW),
     M(2, KIND=0, FSRC='T', GSRC='T', OPSEL=3, ORDER=1, **SLOW), M(3, KIND=0, FSRC='C', GSRC='C', OPSEL=0), M(3, 2, KIND=0, FSRC='T', GSRC='C', OPSEL=3),
     M(3, 2, KIND=0, FSRC='C', GSRC='C', OPSEL=-1), M(3, 2, KIND=0, FSRC='T', GSRC='T', OPSEL=1, _heavy=1, **SLOW)],
    selftest_config=M(2, 2, KIND=0, FSRC='T', GSRC='T', OPSEL=-1)),
  H('apply1', 'apply.cc', [M(2, KIND=1, FSRC='T', GSRC='K', OPSEL=-1), M(3, 2, KIND=1, FSRC='C', GSRC='C', OPSEL=-1), M(3, 2, KIND=1, FSRC='T', GSRC='K', OPSEL=-1)],
    [M(2, KIND=1, FSRC='T', GSRC='C', OPSEL=-1), M(3, KIND=1, FSRC='C', GSRC='K', OPSEL=-1)], selftest_config=M(2, KIND=1, FSRC='T', GSRC='K', OPSEL=-1)),
  H('apply3', 'apply.cc', [M(2, KIND=2, FSRC='C', GSRC='C', HSRC='K', OPSEL=0), M(2, 2, KIND=2, FSRC='T', GSRC='T', HSRC='T', OPSEL=1), M(2, KIND=2, FSRC='C', GSRC='K', HSRC='C', OPSEL=2),
     M(3, 2, KIND=2, FSRC='T', GSRC='K', HSRC='K', OPSEL=1)],      # fourth round: any table over 3 variables (an internal node reached over two paths: memo hits)
    [M(2, KIND=2, FSRC='C', GSRC='C', HSRC='K', OPSEL=-1), M(2, 2, KIND=2, FSRC='T', GSRC='T', HSRC='T', OPSEL=-1), M(3, 2, KIND=2, FSRC='C', GSRC='C', HSRC='K', OPSEL=3), M(2, KIND=2, FSRC='T', GSRC='C', HSRC='K', OPSEL=0, **SLOW)]),
  H('optree', 'apply.cc', [M(2, 2, KIND=3, FSRC='T', GSRC='T', OPSEL=-1), M(2, KIND=3, FSRC='C', GSRC='C', OPSEL=0)],
    [M(2, KIND=3, FSRC='T', GSRC='C', OPSEL=1), M(2, KIND=3, FSRC='C', GSRC='C', OPSEL=-1, **SLOW)]),
  H('voidapply', 'apply.cc', [M(2, KIND=4, FSRC='T', GSRC='C'), M(3, 2, KIND=4, FSRC='C', GSRC='C')], [M(2, KIND=4, FSRC='T', GSRC='T', **SLOW)],
    selftest_config=M(2, 2, KIND=4, FSRC='T', GSRC='T')),
  # ---- SymbolicVarAsgn itself (NVA ternary digits; 5 and 6 cross the 4-variables-per-byte packing)
  {'name': 'asgn', 'src': 'harness/C17/asgn.cc', 'tus': MT_TUS,
   'configs': {'quick': [{'NVA': 5, 'MODE': 0}, {'NVA': 6, 'MODE': 0}, {'NVA': 4, 'MODE': 1}, {'NVA': 3, 'MODE': 2}],
               'thorough': [{'NVA': 5, 'MODE': 0}, {'NVA': 6, 'MODE': 0}, {'NVA': 4, 'MODE': 1}, {'NVA': 3, 'MODE': 2}, {'NVA': 7, 'MODE': 0}, {'NVA': 5, 'MODE': 1}]},
   'selftest_config': {'NVA': 5, 'MODE': 0}, 'selftests': ['VS_SELFTEST_1']},
  # ---- Project / Rename / ExtendWith / GetMtbddForPrefix
  H('project', 'shape.cc', [M(2, KIND=0, PRJOP=1), M(2, KIND=0, PRJOP=0), M(3, 2, KIND=0, PRJOP=2)],
    [M(2, KIND=0, PRJOP=2, ORDER=1), M(3, 2, KIND=0, PRJOP=1), M(3, 2, KIND=0, PRJOP=0), M(2, VBASE=3, KIND=0, PRJOP=1), M(3, KIND=0, PRJOP=0, FSRC='D')]),
  H('rename', 'shape.cc', [M(2, KIND=1), M(3, 2, KIND=1)], [M(2, VBASE=3, KIND=1), M(3, KIND=1, FSRC='D')]),
  H('extend', 'shape.cc', [M(2, KIND=2), M(3, 2, KIND=2, FSRC='D'), M(2, KIND=2, FSRC='K'), M(2, 2, KIND=2, FSRC='D')], [M(3, KIND=2, FSRC='D'), M(2, VBASE=3, KIND=2, FSRC='D'), M(3, 2, KIND=2)]),
  H('prefix', 'shape.cc', [M(2, KIND=3), M(3, 2, KIND=3)], [M(2, VBASE=3, KIND=3), M(3, KIND=3, FSRC='D')]),
]

CHECKS = {
 'C17': {
  'level': 'model_checking',
  'explanation': 'OndriksMTBDD<unsigned> and the Apply1/2/3 and VoidApply1/2 functors executed symbolically on every diagram of the configured universe: operands are drawn as arbitrary function tables (assembled through the public API from minterm diagrams), as cubes with don\'t-care positions or as constants; the leaf operation, the removed variables, the renaming, the prefix and the offset are drawn too. Every result is read back with GetValue on all total assignments and compared entry by entry with the leaf operation applied to the operand tables (oracle on plain arrays); canonicity is checked by assembling the oracle table independently, in another order, in the same process-wide node store and requiring the identical root (operator==), and by (x == y) <=> equal tables for the diagrams at hand; GetPaths of cubes, apply results and projections must partition the assignment space with the right values; SymbolicVarAsgn (Set/Get, string form, append, concrete-symbol enumeration, ++, operator< as a strict total order) is checked on every ternary vector; operands must be unchanged; default values must be the operation applied to the default values.',
  'bounds': {'quick': 'functions over 2 variables with 4 leaf values and over 3 variables with 2 leaf values (cubes: 3 variables, 4 values), variables numbered from 0 or from 3 (straddling a byte of SymbolicVarAsgn); every cube, every table, every default value; binary leaf operations plus mod n, max, min, xor; 4 unary and 4 ternary operations; operation trees of depth 2; every set of projected variables, every monotone renaming into twice as many variables, every prefix cube; 10..16 free bits per query; a unary apply functor object re-used after its parameter changed; fourth round: an arbitrary table over 3 variables x 2 values as one operand of the unary, binary and ternary apply (nodes reached over two paths: memo hits), a void binary functor stopped at a symbolic leaf value and used again, extensions of constant and default-valued diagrams compared with the constant diagram (canonicity)',
             'thorough': 'as quick plus both operands arbitrary tables over 2 variables/4 values for each binary operation and over 3 variables/2 values, cubes over 3 variables/4 values, 4 variables for construction, further operation / order / variable-base combinations (up to 20 free bits)'},
  'outside': 'more than 3 (construction: 4) variables, more than 4 leaf values, leaf types other than unsigned, diagrams whose variables exceed the length of the assignment passed to GetValue (precondition of the API), renamings that are not strictly monotone (precondition), ExtendWith offsets at or below a variable of the diagram (precondition); Project with a non-idempotent operation is checked against its documented node-wise meaning; DumpToDot',
  'assumptions': ['assignments passed to GetValue / GetMtbddForPrefix are at least as long as the highest variable of the diagram requires (documented precondition: shorter ones are read out of bounds)'],
  'harnesses': HARNESSES,
 },
}
