import sys, os
sys.path.insert(0, os.path.dirname(os.path.dirname(os.path.abspath(__file__))))
from checks import *

MT_TUS = ['sym_var_asgn']

def M(nv, nval=4, **kw):
    """MTBDD universe: functions over nv variables (numbered VBASE..) with leaf values < nval; character-valued defines are quoted"""
    d = {'NV': nv, 'NVAL': nval}
    for k, v in kw.items(): d[k] = "'%s'" % v if k in ('FSRC', 'GSRC', 'HSRC') else v
    return d

_build_quick = [M(2, MODE=0), M(3, MODE=0), M(2, VBASE=3, MODE=0), M(2, MODE=1), M(3, 2, MODE=1)]
_build_thorough = _build_quick + [M(3, MODE=1), M(4, MODE=0), M(3, VBASE=2, MODE=0), M(2, VBASE=3, MODE=1), M(4, 2, MODE=1, ONE_DEFAULT=None)]

_apply_quick = [
    M(2, KIND=0, FSRC='T', GSRC='C', OPSEL=0),              # plus mod 4, any function x cube
    M(2, KIND=0, FSRC='C', GSRC='C', OPSEL=-1),             # drawn operation, cube x cube
    M(2, 2, KIND=0, FSRC='T', GSRC='T', OPSEL=-1),          # drawn operation, any two 0/1 functions
    M(3, 2, KIND=0, FSRC='C', GSRC='C', OPSEL=3),           # 3 variables (skipped levels), xor
    M(2, VBASE=3, KIND=0, FSRC='C', GSRC='C', OPSEL=-1, ORDER=1),
    M(2, KIND=1, FSRC='T', GSRC='K', OPSEL=-1),             # unary, drawn operation (merging and permuting leaves)
    M(2, KIND=2, FSRC='C', GSRC='C', HSRC='K', OPSEL=0),    # ternary if-then-else
    M(2, 2, KIND=2, FSRC='T', GSRC='T', HSRC='T', OPSEL=1), # ternary sum
    M(2, 2, KIND=3, FSRC='T', GSRC='T', OPSEL=-1),          # operation tree with three drawn operations
    M(2, KIND=4, FSRC='T', GSRC='C'),                       # void apply
]
_apply_thorough = _apply_quick + [
    M(2, KIND=0, FSRC='T', GSRC='T', OPSEL=0, _time=1500), M(2, KIND=0, FSRC='T', GSRC='T', OPSEL=1, _time=1500),
    M(2, KIND=0, FSRC='T', GSRC='T', OPSEL=2, ORDER=1, _time=1500), M(2, KIND=0, FSRC='T', GSRC='T', OPSEL=3, ORDER=1, _time=1500),
    M(3, 2, KIND=0, FSRC='C', GSRC='C', OPSEL=-1),
    M(2, KIND=1, FSRC='T', GSRC='C', OPSEL=-1),
    M(2, KIND=2, FSRC='C', GSRC='C', HSRC='K', OPSEL=-1), M(2, 2, KIND=2, FSRC='T', GSRC='T', HSRC='T', OPSEL=-1),
    M(2, KIND=3, FSRC='T', GSRC='C', OPSEL=1), M(2, KIND=4, FSRC='T', GSRC='T', _time=1500),
]

_shape_quick = [
    M(2, KIND=0, PRJOP=1), M(2, KIND=0, PRJOP=0), M(3, 2, KIND=0, PRJOP=2),
    M(2, KIND=1), M(3, 2, KIND=1),
    M(2, KIND=2), M(3, 2, KIND=2, FSRC='D'),
    M(2, KIND=3), M(3, 2, KIND=3),
]
_shape_thorough = _shape_quick + [
    M(2, KIND=0, PRJOP=2, ORDER=1), M(3, 2, KIND=0, PRJOP=1), M(3, 2, KIND=0, PRJOP=0), M(2, VBASE=3, KIND=0, PRJOP=1),
    M(2, VBASE=3, KIND=1), M(3, KIND=1, FSRC='D'),
    M(3, KIND=2, FSRC='D'), M(2, VBASE=3, KIND=2, FSRC='D'),
    M(2, VBASE=3, KIND=3), M(3, KIND=3, FSRC='D'),
]

CHECKS = {
 'C17': {
  'level': 'model_checking',
  'explanation': 'OndriksMTBDD<unsigned> and the Apply1/2/3 and VoidApply1/2 functors executed symbolically on every diagram of the configured universe: operands are drawn as arbitrary function tables (assembled through the public API from minterm diagrams), as cubes with don\'t-care positions or as constants, the leaf operation / removed variables / renaming / prefix / offset are drawn too. Every result is read back with GetValue on all total assignments and compared entry by entry with the leaf operation applied to the operand tables (oracle on plain arrays); canonicity is checked by assembling the oracle table independently, in another order, in the same process-wide node store and requiring the identical root (operator==), and by (x == y) <=> equal tables for all pairs of diagrams at hand; GetPaths must partition the assignment space; operands must be unchanged.',
  'bounds': {'quick': 'functions over 2 variables with 4 leaf values and over 3 variables with 2 leaf values (cubes: 3 variables, 4 values), variables numbered from 0 or from 3 (straddling a byte of SymbolicVarAsgn); every cube, every table, every default value; leaf operations: plus mod n, max, min, xor; 4 unary and 4 ternary operations; operation trees of depth 2; 10..16 free bits per query',
             'thorough': 'as quick plus both operands arbitrary tables over 2 variables/4 values for each binary operation, 4 variables for construction, further operation / order / variable-base combinations'},
  'outside': 'more than 3 (construction: 4) variables, more than 4 leaf values, leaf types other than unsigned, diagrams whose variables exceed the length of the assignment passed to GetValue (precondition of the API), renamings that are not strictly monotone (precondition), Project with a non-idempotent operation is checked against its documented node-wise meaning only; unique tables with more than 13 internal nodes of symbolic content (second rehash: engine limitation, reported)',
  'assumptions': ['assignments passed to GetValue / GetMtbddForPrefix are at least as long as the highest variable of the diagram requires (documented precondition; shorter ones read out of bounds)'],
  'harnesses': [
    {'name': 'build', 'src': 'harness/C17/build.cc', 'tus': MT_TUS,
     'configs': {'quick': _build_quick, 'thorough': _build_thorough},
     'selftest_config': M(2, MODE=0), 'selftests': ['VS_SELFTEST_1', 'VS_SELFTEST_2']},
    {'name': 'apply', 'src': 'harness/C17/apply.cc', 'tus': MT_TUS,
     'configs': {'quick': _apply_quick, 'thorough': _apply_thorough},
     'selftest_config': M(2, 2, KIND=0, FSRC='T', GSRC='T', OPSEL=-1), 'selftests': ['VS_SELFTEST_1']},
    {'name': 'shape', 'src': 'harness/C17/shape.cc', 'tus': MT_TUS,
     'configs': {'quick': _shape_quick, 'thorough': _shape_thorough},
     'selftest_config': M(2, KIND=0, PRJOP=1), 'selftests': ['VS_SELFTEST_1']},
  ],
 },
}
