import sys, os
sys.path.insert(0, os.path.dirname(os.path.dirname(os.path.abspath(__file__))))
from checks import *

def P(k, head, **kw):
    # the longest path of a parse query on the current tree is ~30 000 instructions; a path of 3 million is reported as non-termination
    d = {'TAIL_K': k, 'HEAD_SEL': head, '_path_limit': 3000000}; d.update(kw); return d

CHECKS = {
 'C13': {
  'level': 'other',
  'explanation': 'PARTIAL (see DESIGN.md section 4, C13).  (a) round trip: for every description over a pool of 2 states x 2-3 ranked symbols (presence bit per declared symbol, declared state, final state and transition) ParseString(Serialize(d)) returns the same final states and transitions (the declaration lists and the automaton name are not part of the property and are not compared), and LoadFromAutDesc + DumpToAutDesc through the explicit encoding keeps rules and final states under the same names; number<->text conversion (Convert::ToString/FromString = ostringstream/istringstream) is executed through stubs (engine/rt/convert_models.cc), everything else is the real serializer, parser and loader code.  (b) robustness: TimbukParser::ParseString (src/timbuk_parser-nobison.cc: parse_timbuk, trim, split_delim, read_word, contains_whitespace, parse_colonned_token without numbers) executed symbolically on texts consisting of one of three concrete, colon-free heads followed by K symbolic characters drawn from the 8-character alphabet {blank, newline, ( ) , - > q}: for every such text the parser returns or throws (the exception path ends at __cxa_throw), without any memory-safety / UB violation, and every transition of a returned description has a non-empty symbol and a non-empty blank-free right-hand side.  NOT covered: the iostream code behind Convert (stubbed), the loaders of the finite-automaton and BDD classes, names other than those of the pool, arbitrary bytes outside the 8-character alphabet, texts with more than K free characters.',
  'bounds': {'quick': 'robustness: 8 text frames (the free part sits in the Ops, Automaton, States, Final States line, on a line of its own, at the start of a transition, inside a transition, between a rule symbol and its arrow) x K in {3,5,6,8} free characters from a 16-character alphabet (all six white-space characters, parentheses, comma, minus, greater-than, colon, a digit, two declared names, an undeclared letter): 12, 20, 24 and 32 free bits per query; round trip and load/dump: 2 states x 2 symbols (12 bits), once with disjoint name pools and once with states that are called like the nullary and the unary symbol (third red-team round)', 'thorough': 'robustness: the 8 frames x K in {3,5,6,8} plus K = 9 for the five frames whose heads keep the diagrams small (up to 36 free bits; K = 9 with the other three frames and K = 10 exhaust 24 GB and are outside the claim); round trip additionally 2 states x 3 symbols incl. a binary one (15 bits)'},
  'outside': 'see explanation: round trip, serializer, loaders, numbers after a colon, bytes outside the alphabet, longer free parts',
  'harnesses': [
    # "symbolic" load/dump mode of the bottom-up BDD encoding (known finding C13-1)
    {'name': 'symdump', 'src': 'harness/C13/symdump.cc', 'tus': ['timbuk_parser-nobison', 'timbuk_serializer', 'bdd_bu_tree_aut', 'bdd_bu_tree_aut_core', 'symbolic_tree_aut_base_core', 'sym_var_asgn', 'symbolic', 'util', 'convert'],
     'configs': {'quick': [{'NST': 2, 'LEAFMASK': '0xfful', 'UNMASK': '0x0ul'}, {'NST': 2, 'LEAFMASK': '0x55ul', 'UNMASK': '0x9999ul'}, {'NST': 2, 'LEAFMASK': '0x0ful', 'UNMASK': '0x00fful', 'VIA_TEXT': 1}],
                 'thorough': [{'NST': 2, 'LEAFMASK': '0xfful', 'UNMASK': '0x0ul'}, {'NST': 2, 'LEAFMASK': '0x55ul', 'UNMASK': '0x9999ul'}, {'NST': 2, 'LEAFMASK': '0x0ful', 'UNMASK': '0x00fful', 'VIA_TEXT': 1}]},      # (all 16 unary rules, UNMASK=0xffff: out of memory)
     'selftest_config': {'NST': 2, 'LEAFMASK': '0xfful', 'UNMASK': '0x0ul'}, 'selftests': ['VS_SELFTEST_1']},
    {'name': 'parse', 'src': 'harness/C13/parse.cc', 'tus': ['timbuk_parser-nobison'],
     'configs': {'quick': [P(k, h) for k in (3, 5, 6, 8) for h in range(8)], 'thorough': [P(k, h, _time=2500, _mem_gb=24) for k in (3, 5, 6, 8) for h in range(8)] + [P(9, h, _time=2500, _mem_gb=24) for h in (0, 1, 5, 6, 7)]},      # (9 free characters with the heads 2, 3, 4 and 10 characters: out of memory at 24 GB - outside the claim)
     'selftest_config': P(4, 0), 'selftests': ['VS_SELFTEST_1']},
    {'name': 'roundtrip', 'src': 'harness/C13/roundtrip.cc', 'tus': ['timbuk_parser-nobison', 'timbuk_serializer'],
     'configs': {'quick': [{'NST': 2, 'NSY': 2}, {'NST': 2, 'NSY': 2, 'SHARED_NAMES': None}], 'thorough': [{'NST': 2, 'NSY': 2}, {'NST': 2, 'NSY': 2, 'SHARED_NAMES': None}, {'NST': 2, 'NSY': 3, '_time': 2500}]},
     'selftest_config': {'NST': 2, 'NSY': 2}, 'selftests': ['VS_SELFTEST_1']},
    {'name': 'loaddump_fa', 'src': 'harness/C13/roundtrip.cc', 'tus': ['timbuk_parser-nobison', 'timbuk_serializer', 'explicit_finite_aut', 'explicit_finite_aut_core', 'util', 'convert', 'symbolic'],
     'configs': {'quick': [{'NST': 2, 'NSY': 2, 'LOADDUMP': 1, 'LD_ENC': 1, 'DECL_FIXED': None, 'LD_AGAIN': 0}], 'thorough': [{'NST': 2, 'NSY': 2, 'LOADDUMP': 1, 'LD_ENC': 1, 'DECL_FIXED': None, 'LD_AGAIN': 0}, {'NST': 2, 'NSY': 2, 'LOADDUMP': 1, 'LD_ENC': 1, 'DECL_FIXED': None, 'LD_AGAIN': 1, '_time': 2500}]},
     'selftest_config': {'NST': 2, 'NSY': 1, 'LOADDUMP': 1, 'LD_ENC': 1, 'DECL_FIXED': None, 'LD_AGAIN': 0}, 'selftests': ['VS_SELFTEST_1']},
    # (load/dump of the BDD encodings in explicit symbol mode at rule level: no verdict within 1000 s at 8 free bits; their
    #  load/dump is compared by language in C08 and, for the symbolic mode, by meaning in symdump above)
    {'name': 'loaddump', 'src': 'harness/C13/roundtrip.cc', 'tus': ['timbuk_parser-nobison', 'timbuk_serializer'] + TREE_CORE + ['util', 'convert', 'symbolic'],
     'configs': {'quick': [{'NST': 2, 'NSY': 2, 'LOADDUMP': 1}, {'NST': 2, 'NSY': 2, 'LOADDUMP': 1, 'LD_ALPHA': 1}, {'NST': 2, 'NSY': 2, 'LOADDUMP': 1, 'SHARED_NAMES': None}], 'thorough': [{'NST': 2, 'NSY': 2, 'LOADDUMP': 1}, {'NST': 2, 'NSY': 2, 'LOADDUMP': 1, 'LD_ALPHA': 1}, {'NST': 2, 'NSY': 2, 'LOADDUMP': 1, 'SHARED_NAMES': None}]},
     'selftest_config': {'NST': 2, 'NSY': 2, 'LOADDUMP': 1}, 'selftests': ['VS_SELFTEST_1']},
  ],
 },
}
