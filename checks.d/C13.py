import sys, os
sys.path.insert(0, os.path.dirname(os.path.dirname(os.path.abspath(__file__))))
from checks import *

def P(k, head, **kw):
    d = {'TAIL_K': k, 'HEAD_SEL': head}; d.update(kw); return d

CHECKS = {
 'C13': {
  'level': 'other',
  'explanation': 'SUB-CLAIM ONLY (see DESIGN.md section 4, C13): TimbukParser::ParseString (src/timbuk_parser-nobison.cc: parse_timbuk, trim, split_delim, read_word, contains_whitespace, parse_colonned_token without numbers) executed symbolically on texts consisting of one of three concrete, colon-free heads followed by K symbolic characters drawn from the 8-character alphabet {blank, newline, ( ) , - > q}: for every such text the parser returns or throws (the exception path ends at __cxa_throw), without any memory-safety / UB violation, and every transition of a returned description has a non-empty symbol and a non-empty blank-free right-hand side.  NOT covered: the serialiser and the round-trip law, rank annotations (a:1) and every other use of Convert::FromString/ToString (iostream extraction/insertion lives in libstdc++.so and its locale machinery cannot be executed), the loaders of the four automaton classes, arbitrary bytes outside the 8-character alphabet, texts with more than K free characters.',
  'bounds': {'quick': '3 heads x K in {4,5} free characters (12 and 15 free bits per query)', 'thorough': '3 heads x K in {4,5,6} (12..18 free bits)'},
  'outside': 'see explanation: round trip, serializer, loaders, numbers after a colon, bytes outside the alphabet, longer free parts',
  'harnesses': [
    {'name': 'parse', 'src': 'harness/C13/parse.cc', 'tus': ['timbuk_parser-nobison'],
     'configs': {'quick': [P(k, h) for k in (4, 5) for h in (0, 1, 2)], 'thorough': [P(k, h) for k in (4, 5, 6) for h in (0, 1, 2)]},
     'selftest_config': P(4, 0), 'selftests': ['VS_SELFTEST_1']},
  ],
 },
}
