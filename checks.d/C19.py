import sys, os
sys.path.insert(0, os.path.dirname(os.path.dirname(os.path.abspath(__file__))))
from checks import *

C19_INCL_TUS = TREE_INCL + ['explicit_tree_isect']
C19_SIM_TUS = TREE_CORE + ['explicit_tree_useless', 'explicit_tree_unreach', 'explicit_tree_sim', 'explicit_lts_sim', 'aut_base', 'util', 'symbolic', 'convert']

def mi(na, nb, ranks, sels, **kw):
    return [AB(na, nb, ranks, SEL=s, **kw) for s in sels]
def S(ns, ranks, **kw):
    return U(ns, ranks, **kw)
def L(law, sels, ranks, na=2, nb=None, nc=None, **kw):
    out = []
    for s in sels:
        d = {'NA': na, 'SYM_RANKS': '{%s}' % ','.join(str(r) for r in ranks), 'LAW': law, 'SEL': s}
        if nb: d['NB'] = nb
        if nc: d['NC'] = nc
        d.update(kw); out.append(d)
    return out

ALL = list(range(8)); NOSIM = [0, 2, 4, 6]
SPARSE = dict(BASE=3, STRIDE=4, SYMMAP='{5,2}')          # states 3,7,(11); symbols numbered 5,2

INCL_QUICK = (mi(1, 1, [0, 0, 1], ALL) + mi(2, 1, [0, 1], ALL) + mi(1, 2, [0, 1], ALL)
              + mi(2, 1, [0, 1], [0, 3, 5, 6], **SPARSE)
              + mi(2, 1, [0, 2], NOSIM, NORD=1, ORDBASE=1)                       # binary symbol, 16 bits, backward insertion
              + [AB(1, 1, [0, 0, 1], OP=1, SELS='0xff'), AB(2, 1, [0, 1], OP=1, SELS='0xff', NORD=2)])
INCL_THOROUGH = (INCL_QUICK + mi(1, 2, [0, 1], [1, 2, 4, 7], **SPARSE)
                 + mi(2, 1, [0, 2], NOSIM, NORD=1, ORDBASE=3) + mi(1, 2, [0, 2], NOSIM, NORD=1, ORDBASE=1)
                 + mi(2, 1, [0, 2], [3, 5, 7], NORD=1, ORDBASE=1)
                 + [AB(2, 1, [0, 2], SEL=1, NORD=1, ORDBASE=1, _heavy=1, _mem_gb=40, _time=2500)]
                 + [AB(1, 2, [0, 1], OP=1, SELS='0xff', NORD=2)])

SIM_QUICK = ([S(2, [0, 1], DIR=d, FLOW=f) for d in (0, 1) for f in (0, 1)]
             + [S(2, [0, 2], DIR=d, FLOW=f) for d in (0, 1) for f in (0, 1)]       # binary symbol: environments in the upward encoding
             + [S(2, [0, 1], OP=1, DIR=d, FLOW=1) for d in (0, 1)]
             + [S(2, [0, 1], OP=2), S(2, [0, 2], OP=2)])
SIM_THOROUGH = (SIM_QUICK + [S(3, [0, 1], DIR=d, FLOW=1, NORD=1) for d in (0, 1)]   # all 6 permutations of 3 states
                + [S(2, [0, 2], OP=1, DIR=d, FLOW=f) for d in (0, 1) for f in (0, 1)]
                + [S(2, [0, 0, 1], DIR=d, FLOW=1, NORD=4) for d in (0, 1)]
                + [S(3, [0, 1], OP=2, NORD=1)])

LAWS_QUICK = (L(0, ALL, [0, 1]) + L(1, [0, 2, 5], [0, 1], nb=1) + L(2, [0, 3, 4], [0, 1], nb=1)
              + L(3, ALL, [0, 0, 1], na=1, nb=1, nc=1)
              + L(4, [0, 6], [0, 1]) + L(4, [3], [0, 1], PERM=1) + L(5, [0, 4], [0, 1]) + L(5, [2], [0, 1], PERM=1))
LAWS_THOROUGH = (LAWS_QUICK + L(0, NOSIM, [0, 2], NORD=1) + L(1, [1, 4, 6, 7], [0, 1], nb=1) + L(2, [1, 2, 6, 7], [0, 1], nb=1)
                 + L(1, [0, 2], [0, 1], na=1, nb=2) + L(2, [0, 4], [0, 1], na=1, nb=2)
                 + L(4, [1, 2, 4, 5, 7], [0, 1]) + L(4, [0], [0, 2], PERM=1, _time=2500)
                 + L(3, [0, 2, 5], [0, 1], na=2, nb=1, nc=1, NORD=1))

CHECKS = {
 'C19': {
  'level': 'model_checking',
  'explanation': 'Metamorphic checks executed symbolically on every automaton / pair / triple drawn from the rule universes of the configuration. The library operands are built as TWINS of the symbolic automaton: states renamed by a symbolic permutation (all permutations of <=3 states; in some configurations spread to sparse numbers 3,7,..), rules and final states inserted in a symbolic order (forward, backward, rotated, odd-then-even), symbols renumbered. meta_incl: the verdict of each of the 8 inclusion selections and IsLangEmpty on the twins equals a numbering-free macro-state oracle (the identity/forward twin is one of the cases, so every twin agrees with the original), plus the direct form: verdict(twin) == verdict(original) and all 8 selections agree. meta_sim: ComputeSimulation(twin).get(pi(q),pi(r)) equals a numbering-free reference (greatest downward simulation / greatest upward simulation w.r.t. identity) for the direct call on a densely numbered automaton and for the `vata sim` flow (ReindexStates + state count), plus the direct form relation(twin) == renamed image of relation(original); the number of states of Reduce / RemoveUselessStates / RemoveUnreachableStates is the same for twin and original (distinct states counted by comparing the state numbers of the result with each other only, so renumbered results count correctly) and, for the two trimming operations, not larger than the reference count of useful resp. top-down reachable states. laws: A<=A; A<=AuB, B<=AuB, (AuB<=A)==(B<=A); AnB<=A, AnB<=B, (A<=AnB)==(A<=B); transitivity on triples; A equivalent (both directions) to Reduce(A), RemoveUselessStates(A), RemoveUnreachableStates(A), ReindexStates(A) and to its dumped-and-reloaded form (DumpToAutDesc with a state dictionary -> LoadFromAutDesc).',
  'bounds': {'quick': 'operands over <=2 states, ranks <=2: pairs 1+1 over {a/0,b/0,f/1}, 2+1 and 1+2 over {a/0,f/1} (all 8 selections, 4 insertion orders, all state permutations; also sparse state numbers 3,7 with symbols numbered 5,2), 2+1 over {a/0,g/2} (selections without simulation, backward insertion); simulations and result sizes on 2 states over {a/0,f/1} and {a/0,g/2} (both permutations, 2 insertion orders, direct and reindexing flow); laws on 2 (+1) states over {a/0,f/1}, transitivity on 1+1+1 states over {a/0,b/0,f/1} for all 8 selections; 10..16 free bits per query',
             'thorough': 'as quick plus 1+2 over {a/0,g/2}, the selections with simulation on the binary universe, 3 states over {a/0,f/1} with all 6 permutations (simulations, sizes), the direct relation-image form on {a/0,g/2}, laws for all selections, transitivity on 2+1+1 states, derived forms on {a/0,g/2}'},
  'outside': 'the corpus clause of the statement (the large automata shipped under automata/ and tests/aut_timbuk_smaller/, for which no reference exists) is outside ANY bound of this method: nothing here loads a corpus file. Also outside: more than 3 states per operand (2 with a binary symbol), rank > 2, more than 3 symbols, renamings that are not injective, the textual Timbuk dump/parse round trip (C13), symbol registration order in an alphabet object (exercised for Complement in C06; inclusion works on raw symbol numbers, renumbered here by SYMMAP)',
  'assumptions': ['upward simulation is only specified for automata without useless states: assumed (vs_assume) in the upward queries of meta_sim', 'direct ComputeSimulation calls (FLOW 0) assume that all NS states occur, so that "states numbered 0..n-1, n passed" holds'],
  'harnesses': [
    {'name': 'meta_incl', 'src': 'harness/C19/meta_incl.cc', 'tus': C19_INCL_TUS,
     'configs': {'quick': INCL_QUICK, 'thorough': INCL_THOROUGH},
     'selftest_config': AB(2, 1, [0, 1], SEL=2), 'selftests': ['VS_SELFTEST_1']},
    {'name': 'meta_sim', 'src': 'harness/C19/meta_sim.cc', 'tus': C19_SIM_TUS,
     'configs': {'quick': SIM_QUICK, 'thorough': SIM_THOROUGH},
     'selftest_config': S(2, [0, 1], DIR=0, FLOW=1), 'selftests': ['VS_SELFTEST_1']},
    {'name': 'laws', 'src': 'harness/C19/laws.cc', 'tus': C19_INCL_TUS,
     'configs': {'quick': LAWS_QUICK, 'thorough': LAWS_THOROUGH},
     'selftest_config': L(1, [2], [0, 1], nb=1)[0], 'selftests': ['VS_SELFTEST_1']},
  ],
 },
}
