# C20 is an obligation on every other harness: the engine checks memory safety / UB on the real code of every query.
# This fragment re-runs a selection of the other properties' queries with -DVS_NO_PROPERTY (CHECK becomes a no-op), so
# that only the engine's own checks (null/dangling/freed/out-of-bounds access, double free, allocation mismatch,
# division by zero, shifts, signed overflow, dependence on uninitialised memory, abort/terminate, unexpected
# exceptions, unreachable) decide, plus a self-test harness proving that those detectors fire.
import sys, os, glob, importlib.util
sys.path.insert(0, os.path.dirname(os.path.dirname(os.path.abspath(__file__))))
from checks import *

_here = os.path.dirname(os.path.abspath(__file__))
_harn = [
  {'name': 'memcheck_selftest', 'src': 'harness/C20/memcheck_selftest.cc', 'tus': TREE_CORE + ['explicit_tree_useless', 'explicit_tree_unreach'],
   'configs': {'quick': [U(2, [0, 1])], 'thorough': [U(2, [0, 1]), U(2, [0, 1, 2])]},
   'selftest_config': U(2, [0, 1]),
   'selftests': [{'define': 'VS_SELFTEST_OOB', 'kind': 'memory'}, {'define': 'VS_SELFTEST_UAF', 'kind': 'memory'}, {'define': 'VS_SELFTEST_UNINIT', 'kind': 'memory'}, {'define': 'VS_SELFTEST_DOUBLEFREE', 'kind': 'memory'}]},
  {'name': 'stl_probe', 'src': 'harness/C20/stl_probe.cc', 'tus': [],
   'configs': {'quick': [{'MODE': 0}, {'MODE': 1}]}, 'selftest_config': {'MODE': 0}, 'selftests': []},
  # simulation entry points of the finite-automata encoding (known finding C20-3)
  {'name': 'fa_sim', 'src': 'harness/C20/fa_sim.cc', 'tus': ['explicit_finite_aut', 'explicit_finite_aut_core', 'explicit_finite_sim', 'explicit_lts_sim', 'aut_base', 'util', 'convert'],
   'configs': {'quick': [{'NA': 2, 'DIR': d} for d in (0, 1, 2)]}, 'selftest_config': {'NA': 2, 'DIR': 0}, 'selftests': []},
  # upward simulation on every automaton of the universe, not only on trimmed ones (C04 assumes trimmed automata because
  # the greatest-simulation claim is stated for them; memory safety is not limited to them): known finding C20-2
  {'name': 'C04_up_any', 'src': 'harness/C04/sim.cc', 'tus': TREE_INCL,
   'configs': {'quick': [U(3, [0, 1], DIR=1, ANY_AUTOMATON=None, VS_NO_PROPERTY=None)],
               'thorough': [U(3, [0, 1], DIR=1, ANY_AUTOMATON=None, VS_NO_PROPERTY=None), U(2, [0, 2], DIR=1, ANY_AUTOMATON=None, VS_NO_PROPERTY=None),
                            U(2, [0, 0, 1], DIR=1, ANY_AUTOMATON=None, VS_NO_PROPERTY=None), U(2, [0, 1, 2], DIR=1, ANY_AUTOMATON=None, VS_NO_PROPERTY=None, _time=1500)]},
   'selftest_config': U(2, [0, 1], DIR=1, ANY_AUTOMATON=None, VS_NO_PROPERTY=None), 'selftests': []},
]
# the public entry points of the facades and of ExplicitLTS that no other harness calls (apicov.py), one per query (CALL,
# see the table at the top of harness/C20/api_misc.cc); several registrations of the same source so that a query links
# only the translation units its group needs
def _api(calls, ranks=(0, 1), **kw): return [dict(U(2, list(ranks), CALL=k), **kw) for k in calls]
_TIMBUK = ['timbuk_parser-nobison', 'timbuk_serializer']
_API_BDD = ['bdd_bu_tree_aut', 'bdd_bu_tree_aut_core', 'bdd_td_tree_aut', 'bdd_td_tree_aut_core', 'symbolic_tree_aut_base_core', 'sym_var_asgn', 'symbolic', 'util', 'convert']
# not registered (engine limitation, not a finding): CALL 6 (ExplicitTreeAut::ToString(const Transition&)) and CALL 50
# (BDDBottomUpTreeAut::DumpToDot()) format through std::ostringstream, whose construction ends in libstdc++.so locale code
# that has no IR (INCONCLUSIVE: value enumeration exceeds --max-enum ... in std::basic_ios::_M_cache_locale); CALL 43 does
# not exist (the bottom-up facade declares no DumpToString(serializer, StateBackTranslStrict))
_API_TREE = [2, 3, 5, 7, 8, 9, 10, 11, 12, 13, 14, 15, 16]
_API_GROUPS = [
  ('api_misc_tree', TREE_CORE + ['util', 'convert', 'symbolic'] + _TIMBUK, _api(_API_TREE) + _api(_API_TREE, (0, 2))),
  ('api_misc_tree_algo', TREE_INCL, _api([0, 1, 4])),
  ('api_misc_fa', ['explicit_finite_aut', 'explicit_finite_aut_core', 'util', 'convert', 'symbolic'] + _TIMBUK, _api([22, 23, 24, 25, 26, 27, 28, 29, 30, 31, 32])),
  ('api_misc_fa_incl', ['explicit_finite_aut', 'explicit_finite_aut_core', 'explicit_finite_incl', 'explicit_finite_union', 'explicit_finite_useless', 'explicit_finite_unreach', 'explicit_finite_reverse', 'incl_param', 'aut_base', 'util', 'convert'], _api([20, 21])),
  ('api_misc_bdd', _API_BDD + _TIMBUK, _api([40, 41, 42, 44, 45, 46, 47, 48, 49, 51, 60, 61, 62, 63, 64, 65, 66, 67, 68])),
  ('api_misc_bdd_incl', _API_BDD + ['bdd_bu_tree_aut_union', 'bdd_bu_tree_aut_union_disj', 'bdd_bu_tree_aut_isect', 'bdd_bu_tree_aut_unreach', 'bdd_bu_tree_aut_useless',
                                    'bdd_td_tree_aut_union', 'bdd_td_tree_aut_union_disj', 'bdd_td_tree_aut_isect', 'bdd_td_tree_aut_unreach', 'bdd_td_tree_aut_useless',
                                    'bdd_bu_tree_aut_incl', 'bdd_td_tree_aut_incl', 'bdd_bu_tree_aut_sim', 'bdd_td_tree_aut_sim', 'aut_base', 'incl_param'] + _TIMBUK, _api([52, 53, 54])),
  ('api_misc_lts', ['explicit_lts_sim', 'util'], _api([80])),
]
for _n, _t, _c in _API_GROUPS:
    _harn.append({'name': _n, 'src': 'harness/C20/api_misc.cc', 'tus': _t, 'configs': {'quick': _c}, 'selftest_config': _c[0], 'selftests': ['VS_SELFTEST_1']})
import json as _json
_claimed = set(k for k, v in _json.load(open(os.path.join(os.path.dirname(_here), 'claims.json'))).items() if v.get('claimed'))
_covered = []
# how many queries of each other property are re-run here (quick, thorough)
_PER = {'quick': 3, 'thorough': 6}
# in addition: every algorithm selection of the explicit inclusion checker (hand-managed antichains, caches with invalidation
# callbacks, emulated call stack) on a universe with two leaf symbols
_MORE = {'C01:incl': [AB(1, 2, [0, 0, 1], SEL=s) for s in range(8)] +
                     # address-keyed memo tables and their invalidation: the same code under the heap model that reuses released addresses
                     [AB(1, 2, [0, 2], SEL=s, _reuse=1) for s in (0, 2, 4, 6)] + [AB(2, 2, [0, 1], SEL=s, _reuse=1) for s in (1, 3, 5, 7)] +
                     # the selections with a downward simulation called on operands that were NOT sanitised (states without rules, useless states;
                     # disjoint dense numbering done by the caller): 2+2 over {a/0,f/1} and a 2+4 sub-universe over {a/0,b/0,f/1} in which B has
                     # rule-less final states behind its last rule-owning state (third red-team round: index guards one past the end)
                     [AB(2, 2, [0, 1], SEL=s, DIRECT=2) for s in (3, 5, 7)] + [AB(2, 4, [0, 0, 1], SEL=s, DIRECT=2, AMASK='0xc7ul', BMASK='0x470023ul') for s in (3, 5)],
         # the simulation engine with more than 64 blocks (word boundary of its per-block bit masks)
         'C16:lts': [{'NQ': 2, 'NL': 1, 'MODE': 0, 'FILL': 67, 'FILLCHAIN': None}]}
for _f in sorted(glob.glob(os.path.join(_here, '*.py'))):
    _n = os.path.basename(_f)[:-3]
    if _n in ('C20', 'C13'): continue
    _spec = importlib.util.spec_from_file_location('c20_' + _n, _f); _m = importlib.util.module_from_spec(_spec)
    try: _spec.loader.exec_module(_m)
    except Exception as e: continue
    for _pid, _c in _m.CHECKS.items():
        if _pid not in _claimed: continue      # only harnesses of properties whose own check is claimed (i.e. stable)
        for _h in _c['harnesses']:
            def pick(tier, _h=_h):
                cfgs = [c for c in _h['configs'].get(tier, _h['configs']['quick']) if not c.get('_heavy')]
                if tier == 'quick': cfgs = [c for c in cfgs if '_time' not in c] or cfgs      # the long-running universes are left to the thorough tier
                n = min(_PER[tier], len(cfgs))     # evenly spread over the list, shifted by one per pick so that periodic lists (8 algorithm selections per universe) are not sampled in phase
                idx = []
                for i in list(((i * len(cfgs)) // n + i) % len(cfgs) for i in range(n)) + list(range(len(cfgs))):
                    if i not in idx and len(idx) < n: idx.append(i)
                return [dict(cfgs[i], VS_NO_PROPERTY=None) for i in idx]
            _more = [dict(c, VS_NO_PROPERTY=None) for c in _MORE.get(_pid + ':' + _h['name'], [])]
            _harn.append({'name': _pid + '_' + _h['name'], 'src': _h['src'], 'tus': _h['tus'], 'configs': {'quick': pick('quick') + _more, 'thorough': pick('thorough') + _more},
                          'selftest_config': dict(_h.get('selftest_config') or _h['configs']['quick'][0], VS_NO_PROPERTY=None), 'selftests': []})
            _covered.append(_pid + ':' + _h['name'])

CHECKS = {
 'C20': {
  'level': 'model_checking',
  'val_runs': {'quick': 2, 'thorough': 6},   # every harness is validated with 12/40 runs in its own property's check
  'pre_cmd': 'sh engine/tests/run.sh',     # engine regression tests: 22 tiny C programs with known verdicts (detectors, merges, pointer provenance)
  'explanation': 'Memory-safety and undefined-behaviour obligations checked by the symbolic engine on the real code of the other properties\' harnesses (property assertions disabled with -DVS_NO_PROPERTY), i.e. on every automaton / history / diagram of those universes: null, dangling-stack, freed and out-of-bounds loads and stores; free of non-heap or interior pointers; double free; new/delete[]/free mismatch; division by zero; shift >= width; signed overflow of nsw arithmetic; a branch, switch, address or size that depends on uninitialised memory; abort/terminate/failed libstdc++ assertion; unexpected exception; reaching LLVM unreachable; indirect call to a non-function.  A self-test harness plants a heap overflow, a use after free, a branch on uninitialised memory and a double free behind input-dependent conditions; each must be reported and must reproduce on the native ASan/UBSan (valgrind for the uninitialised read) twin.  Harnesses re-run: ' + ', '.join(_covered),
  'bounds': {'quick': 'up to 3 queries per harness of every other claimed property (from their quick universes); plus: all 8 selections of the explicit inclusion checker on 1+2 over {a/0,b/0,f/1}, the selections with a downward simulation called on operands that were not sanitised (2+2 over {a/0,f/1}; a 2+4 sub-universe over {a/0,b/0,f/1} with rule-less final states behind the last rule-owning state; an exception of the library is accepted, a memory error is not), 8 of its queries under the heap model that reuses released addresses, the simulation engine with 67 chain-shaped filler states, the upward simulation on every (also untrimmed) automaton over 3 x {a/0,f/1}, the finite-automata simulation entry points, and 65 queries that call the rarely used public entry points of the four automaton classes and ExplicitLTS one by one (api_misc: default-parameter CheckInclusion, AddTransition(Transition), BuildStateIndex, Reduce(ReduceParam), ToString, every LoadFromString / LoadFromAutDesc / DumpToString / DumpToAutDesc overload, SetExistingStateStart, AddTransition with SymbolicVarAsgn cubes, GetCandidateTree, GetTransMTBDDForTuple, move construction, iterator copies, computeSimulation())', 'thorough': 'up to 6 queries per harness (their thorough universes)'},
  'outside': 'code not reached by any harness (per-file list in DESIGN.md); behaviours that need a particular malloc address pattern, container reallocation order or rehash beyond the sizes reached; bit-precise definedness; data races; allocation failure',
  'assumptions': ['the uninitialised-memory check is value-based: a value that provably does not influence the branch/address is not reported'],
  'harnesses': _harn,
 },
}
