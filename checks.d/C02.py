import sys, os
sys.path.insert(0, os.path.dirname(os.path.dirname(os.path.abspath(__file__))))
from checks import *

TUS_C02 = TREE_CORE + ['explicit_tree_union', 'explicit_tree_isect', 'explicit_tree_isect_bu']

def c02_configs(shapes, ops, **kw):
    return [AB(na, nb, ranks, OP=op, **kw) for (na, nb, ranks) in shapes for op in ops]

_QUICK_SHAPES = [(2, 1, [0, 1]), (1, 1, [0, 0, 1]), (1, 2, [0, 1]), (2, 2, [0, 1]), (2, 1, [0, 2]), (1, 2, [0, 2])]
_BIG = {'_heavy': 1, '_mem_gb': 24, '_time': 2400}
# the first configuration of each list is the one the translation validation (engine vs native twin) runs on
_UNION_QUICK = ([AB(2, 1, [0, 1], OP=0, PREFILL=2)] + c02_configs(_QUICK_SHAPES, (0, 1))
          + [AB(2, 1, [0, 1], OP=0, MAPS=0)]                                          # library-internal maps (nullptr)
          + [AB(1, 1, [0, 1], OP=0, PREFILL=4), AB(1, 1, [0, 0, 1], OP=0, PREFILL=4), AB(1, 2, [0, 1], OP=0, PREFILL=2)]
          + [AB(2, 2, [0, 1], OP=0, ALIAS=1), AB(2, 2, [0, 0, 1], OP=0, ALIAS=1)])     # Union(a, copy of a)
_UNION_THOROUGH = (_UNION_QUICK + c02_configs([(3, 1, [0, 1]), (1, 3, [0, 1]), (2, 2, [0, 0, 1]), (2, 1, [0, 1, 2])], (0, 1))
          + c02_configs([(1, 2, [0, 1]), (2, 1, [0, 2])], (0,), MAPS=0)
          + [AB(2, 1, [0, 1], OP=0, PREFILL=4), AB(1, 2, [0, 1], OP=0, PREFILL=4), AB(2, 2, [0, 1], OP=0, PREFILL=2)])
_ISECT_QUICK = (c02_configs(_QUICK_SHAPES, (3, 2)) + c02_configs([(2, 1, [0, 1])], (2, 3), MAPS=0)
          + c02_configs([(2, 2, [0, 1]), (2, 2, [0, 0, 1])], (2, 3), ALIAS=1)        # Intersection(a, copy of a)
          + c02_configs([(1, 1, [0, 1, 1, 1]), (2, 1, [0, 1, 1]), (1, 2, [0, 1, 1])], (3, 2)))   # fourth round: several unary symbols, some of them only in one operand (10, 16, 16 bits)
_ISECT_THOROUGH = (_ISECT_QUICK + c02_configs([(3, 1, [0, 1]), (1, 3, [0, 1])], (2, 3))
          + c02_configs([(1, 2, [0, 1]), (2, 1, [0, 2])], (2, 3), MAPS=0)
          + c02_configs([(2, 2, [0, 0, 1]), (2, 1, [0, 1, 2])], (2, 3), **_BIG))

CHECKS = {
 'C02': {
  'level': 'model_checking',
  'explanation': 'ExplicitTreeAut::Union, UnionDisjointStates, Intersection and IntersectionBU executed symbolically on every pair of automata drawn from the rule universes of the configuration (presence bit per rule, finality bit per state; for Union additionally caller maps that are empty, absent (nullptr) or pre-filled for one symbolically chosen state of either operand with a symbolic target number; ALIAS configurations pass an automaton and a storage-sharing copy of it as the two operands). The result is decoded by iterating it, never through its state numbers (how the states of a union / product are numbered is not part of the contract): through the StateToStateMap / ProductTranslMap the library reports (a rule or final state over a state that no map entry names is a violation: the maps name every state of the result), or - nullptr maps, UnionDisjointStates - through a slot table of the distinct state numbers (harness/common/decode_free.h). Its language is compared with L(A) u L(B) / L(A) n L(B) by an independent macro-state inclusion oracle in both directions (against the operands and against a mask-level disjoint union / full product); the maps must have operand states (pairs) as keys only, keep pre-entered entries, name every state of the result by exactly one operand state / pair, and every rule and final state of the result must be the image of a rule / final state of the operand (union) resp. of the product (intersection) whose states name it (which rules must be present is decided by the language comparison, not rule by rule; the rule-for-rule equality with the complete image and the dense numbering of the current implementation are kept under STRICT_IMPL, never defined); both operands are re-read after the call and must be unchanged.',
  'bounds': {'quick': 'pairs (A,B): 1+1 states over {a/0,b/0,f/1}; 2+1, 1+2, 2+2 over {a/0,f/1}; 2+1, 1+2 over {a/0,g/2}; all rule subsets and final sets (8..16 free bits per query), all 4 operations; the intersections also on 1+1 over {a/0,f/1,h/1,k/1} and 2+1, 1+2 over {a/0,f/1,h/1} (several non-nullary symbols, some only in one operand; fourth round); nullptr maps on 2+1 {a,f}; Union with pre-filled maps (any one state of A and/or of B pre-entered with any target < 4 on 1+1, < 2 on 2+1 / 1+2); Union / Intersection / IntersectionBU of a 2-state automaton over {a/0,f/1}, {a/0,b/0,f/1} with a copy of itself',
             'thorough': 'as quick plus 3+1, 1+3 over {a/0,f/1}; 2+2 over {a/0,b/0,f/1}; 2+1 over {a/0,f/1,g/2} (18..20 bits); more nullptr-map and pre-filled (targets < 4 on 2+1 / 1+2, < 2 on 2+2) universes'},
  'outside': 'more than 4 states in total, rank > 2, more than 3 symbols; pre-filled maps with more than one pre-entered state per operand or targets >= 4; pre-filled ProductTranslMap for the intersections (documented as pure out-parameter); UnionDisjointStates on operands whose state sets overlap (documented as undefined); operands sharing storage with each other (see C11); the same map object passed for both operands',
  'assumptions': ['Union with pre-filled maps: the caller does not pre-enter the same target number for a state of A and a state of B (that would ask for a merge)'],
  'harnesses': [
    {'name': 'setops', 'src': 'harness/C02/setops.cc', 'tus': TUS_C02,     # Union, UnionDisjointStates
     'configs': {'quick': _UNION_QUICK, 'thorough': _UNION_THOROUGH},
     'selftest_config': AB(2, 1, [0, 1], OP=0), 'selftests': ['VS_SELFTEST_1', 'VS_SELFTEST_2']},
    {'name': 'isect', 'src': 'harness/C02/setops.cc', 'tus': TUS_C02,      # Intersection, IntersectionBU
     'configs': {'quick': _ISECT_QUICK, 'thorough': _ISECT_THOROUGH},
     'selftest_config': AB(2, 1, [0, 1], OP=2), 'selftests': ['VS_SELFTEST_1', 'VS_SELFTEST_2']},
  ],
 },
}
