import sys, os
sys.path.insert(0, os.path.dirname(os.path.dirname(os.path.abspath(__file__))))
from checks import *

CHECKS = {
 'C01': {
  'level': 'model_checking',
  'explanation': 'ExplicitTreeAut::CheckInclusion executed symbolically for each of the 8 implemented parameter selections (operands prepared as cli/operations.hh does: sanitisation, disjoint union, simulation of the matching direction) on every pair of automata drawn from the rule universes of the configuration, against an independent macro-state inclusion oracle; one query per (universe, selection).',
  'bounds': {'quick': 'pairs (A,B) with |Q_A|+|Q_B| <= 4 states: 1+1 over {a/0,b/0,f/1}; 2+1, 1+2, 2+2 over {a/0,f/1}; 2+1, 1+2 over {a/0,g/2}; all rule subsets and final sets (8..16 free bits per query), all 8 selections (the upward+simulation selection on the two universes with a binary symbol only in the thorough tier)',
             'thorough': 'as quick plus 2+2 over {a/0,b/0,f/1} and 1+2 / 2+1 over {a/0,f/1,g/2}'},
  'outside': 'more than 2 states per operand, rank > 2, more than 3 symbols, simulation relations other than the one the library computes',
  'harnesses': [
    {'name': 'incl', 'src': 'harness/C01/incl.cc', 'tus': TREE_INCL,
     'configs': {'quick': c01_configs([(1, 1, [0, 0, 1]), (2, 1, [0, 1]), (1, 2, [0, 1]), (2, 2, [0, 1]), (2, 1, [0, 2]), (1, 2, [0, 2])]),
                 'thorough': c01_configs([(1, 1, [0, 0, 1]), (2, 1, [0, 1]), (1, 2, [0, 1]), (2, 2, [0, 1]), (2, 1, [0, 2]), (1, 2, [0, 2]), (2, 2, [0, 0, 1])], heavy=True)},
     'selftest_config': AB(1, 1, [0, 0, 1], SEL=2), 'selftests': ['VS_SELFTEST_1']},
  ],
 }
}
