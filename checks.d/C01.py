import sys, os
sys.path.insert(0, os.path.dirname(os.path.dirname(os.path.abspath(__file__))))
from checks import *

# three leaf symbols: A over 2 states: a->p0, b->p0, c->p0, g(p0,p0)->p1; B over 3 states: a->r0, a->r1, b->r1, b->r2, c->r2,
# g(r0,r0)->r0, g(r0,r1)->r0, g(r1,r1)->r0, g(r2,r2)->r0: a child of A is covered by three rules of B only jointly (the
# set-inclusion caches of the downward algorithms are consulted with 2-element subsets of an established 3-element set)
JOINT3 = {'AMASK': '0x%xul' % sum(1 << i for i in (0, 2, 4, 10)), 'BMASK': '0x%xul' % sum(1 << i for i in (0, 1, 4, 5, 8, 9, 10, 13, 17))}
def c01_joint(sels): return [AB(2, 3, [0, 0, 0, 2], SEL=s, **dict(JOINT3, **({'_time': 1500} if s & 1 else {}))) for s in sels]   # with simulation: ~250 s each                 # 18 bits
# the selections without simulation called on the automata as built (no caller-side sanitisation)
def c01_direct(shapes): return [AB(na, nb, ranks, SEL=s, DIRECT=1) for (na, nb, ranks) in shapes for s in (0, 2, 4, 6)]

# queries of the thorough tier that the engine cannot decide: the emulated call stack of the non-recursive downward algorithm
# makes the set of alternatives of one pointer exceed --max-alts (2048); with 16384 the query runs for more than 25 minutes
def _undecidable(c):
    return (c.get('SEL') in (2, 3) and (c['NA'], c['NB'], c['SYM_RANKS']) == (2, 2, '{0,0,1}')) or (c.get('SEL') == 2 and 'BTRI' in c and 'ATRI' not in c and (c['NA'], c['NB']) == (3, 2))

# A over 2 states: a->p0, a->p1, g(x,y)->p1 for the 4 pairs; B over 4 states: a->s0, a->s1, a->s2, g(s2,s0)->s1, g(s3,s0)->s1, g(s2,s2)->s2,
# g(s2,s3)->s2, g(s2,s2)->s3, g(s2,s3)->s3 (21 bits with the final sets): recursion in A meets macro-states of B that are entered
# repeatedly - a call of the non-recursive downward algorithm assumes itself, fails, and its stack frame is recycled
RECYC = {'AMASK': '0x3c3ul', 'BMASK': '0xc000c00110000007ul'}
def c01_recyc(sels): return [AB(2, 4, [0, 2], SEL=s, _time=1500, **RECYC) for s in sels]
# the same queries under the heap model that hands released addresses out again (engine option --reuse-addresses, LIFO per
# size class like the C library): the inclusion checkers memoise set comparisons under the ADDRESSES of macro-states and
# invalidate the entries when a macro-state dies; a stale entry only matters when a later macro-state gets the same address
def c01_reuse(shapes, sels): return [AB(na, nb, ranks, SEL=s, _reuse=1) for (na, nb, ranks) in shapes for s in sels]

# third red-team round: two unary symbols (B rules of both symbols with the same, hash-consed child tuple), three leaf symbols (A uses a
# leaf symbol that B lacks although B has as many leaf symbols), and a unary chain of three B-states under one A-state with a loop
# (the simulation index of the downward algorithms: a state strictly simulated by the next one)
# fourth round: A over 2 states {a/0,b/0,f/2}: a->p0, b->p0, f(p0,p0)->p1 (p1 final); B over 4 states (qn=0, qf=1, q1=2, q2=3): the four
# leaf rules into q1/q2, f(qi,qj)->qn and ->qf for i,j in {1,2}, f(qn,q1)->qf, f(q1,qn)->qf (qf final, qn's finality free): the sibling of a
# child position carries two incomparable macro-states, and the combinations differ in whether the post-image is accepting
UPACC = {'AMASK': '0x105ul', 'AFINMASK': '0x0u', 'AFINFIX': '0x2u', 'BFINMASK': '0x1u', 'BFINFIX': '0x2u',
         'BMASK': '0x%xul' % sum(1 << i for i in (2, 3, 6, 7, 18, 19, 22, 23, 34, 35, 38, 39, 26, 32))}
def c01_upacc(sels): return [AB(2, 4, [0, 0, 2], SEL=s, _time=1500, **UPACC) for s in sels]     # 18 free bits

def c01_r3(tier):
    out = c01_configs([(1, 1, [0, 1, 1]), (2, 1, [0, 1, 1]), (1, 1, [0, 0, 0, 1])])               # 8, 16, 10 bits
    out += [AB(2, 1, [0, 0, 0, 1], SEL=s) for s in ((0, 1) if tier == 'quick' else range(8))]        # 17 bits
    out += [AB(1, 3, [0, 1], SEL=s, BTRI=None) for s in ((1, 3, 5, 7) if tier == 'quick' else range(8))]   # 15 bits
    if tier == 'thorough': out += c01_configs([(1, 2, [0, 1, 1]), (1, 2, [0, 0, 0, 1])])
    return out

CHECKS = {
 'C01': {
  'level': 'model_checking',
  'explanation': 'ExplicitTreeAut::CheckInclusion executed symbolically for each of the 8 implemented parameter selections (operands prepared as cli/operations.hh does: sanitisation, disjoint union, simulation of the matching direction) on every pair of automata drawn from the rule universes of the configuration, against an independent macro-state inclusion oracle; one query per (universe, selection).',
  'bounds': {'quick': 'pairs (A,B) with |Q_A|+|Q_B| <= 4 states: 1+1 over {a/0,b/0,f/1}; 2+1, 1+2, 2+2 over {a/0,f/1}; 2+1, 1+2 over {a/0,g/2}; all rule subsets and final sets (8..16 free bits per query), all 8 selections; plus the triangular sub-universes (rules whose parent number is <= every child number, i.e. DAG-shaped automata with self loops) over 2+3 and 3+2 states and {a/0,f/1} (19 free bits) for the four selections without simulation (the upward+simulation selection on the two universes with a binary symbol only in the thorough tier); plus (added after the red-team rounds): a 2+3 sub-universe over {a/0,b/0,c/0,g/2} in which a child of A is covered only jointly by three rules of B (18 bits, selections without simulation), the selections without simulation called directly on the automata as built (no caller-side sanitisation), a 2+4 sub-universe over {a/0,g/2} with recursion in A and repeatedly entered macro-states of B (21 bits, non-recursive downward), and 16 queries under the heap model that reuses released addresses (1+2 and 2+1 over {a/0,g/2} for the selections without simulation, 2+2 over {a/0,f/1} for all 8); third red-team round: 1+1 and 2+1 over {a/0,f/1,h/1} (two unary symbols) and 1+1 over {a/0,b/0,c/0,f/1} for all 8 selections, 2+1 over {a/0,b/0,c/0,f/1} (17 bits) for the upward selections, 1+3 over {a/0,f/1} with B triangular (15 bits) for the four selections with simulation; fourth round: UPACC, a 2+4 sub-universe over {a/0,b/0,f/2} (18 free bits) for the upward selection: the sibling of a child position of a binary rule of A carries two incomparable macro-states of B and the combinations differ in whether the post-image is accepting',
             'thorough': 'as quick plus 2+2 over {a/0,b/0,f/1}, the upward+simulation selection on the binary universes, and the triangular 2+3 / 3+2 universes for all 8 selections (also with only the bigger operand restricted, 20 bits); the joint-cover universe for all 8 selections, the 2+4 universe for 4 selections (the non-recursive downward selection with simulation needs more than 1500 s there and is left out), direct calls on two more shapes, and the address-reuse model also on the joint-cover and triangular universes; the third-round universes for all 8 selections, plus 1+2 over {a/0,f/1,h/1} and {a/0,b/0,c/0,f/1}; UPACC also for upward with simulation and the three downward selections without simulation'},
  'outside': 'more than 2 states per operand outside the listed sub-universes, rank > 2, more than 4 symbols, simulation relations other than the one the library computes',
  'harnesses': [
    {'name': 'incl', 'src': 'harness/C01/incl.cc', 'tus': TREE_INCL,
     'configs': {'quick': c01_upacc((0,)) + c01_r3('quick') + c01_configs([(1, 1, [0, 0, 1]), (2, 1, [0, 1]), (1, 2, [0, 1]), (2, 2, [0, 1]), (2, 1, [0, 2]), (1, 2, [0, 2])]) + c01_tri((0, 2, 4, 6)) + c01_joint((2, 4, 6)) + c01_direct([(2, 1, [0, 1]), (1, 2, [0, 2])]) + c01_reuse([(1, 2, [0, 2]), (2, 1, [0, 2])], (0, 2, 4, 6)) + c01_reuse([(2, 2, [0, 1])], range(8)) + c01_recyc((2,)),
                 'thorough': c01_upacc((0, 1, 2, 4, 6)) + c01_r3('thorough') + [c for c in c01_configs([(1, 1, [0, 0, 1]), (2, 1, [0, 1]), (1, 2, [0, 1]), (2, 2, [0, 1]), (2, 1, [0, 2]), (1, 2, [0, 2]), (2, 2, [0, 0, 1])], heavy=True) + c01_tri(range(8), _heavy=1, _mem_gb=30, _time=2500) + c01_tri((0, 2, 4, 6), both=False, _heavy=1, _mem_gb=30, _time=2500) + c01_joint(range(8)) + c01_direct([(2, 1, [0, 1]), (1, 2, [0, 2]), (2, 2, [0, 1]), (2, 1, [0, 2])]) + c01_reuse([(1, 2, [0, 2]), (2, 1, [0, 2])], (0, 2, 4, 6)) + c01_reuse([(2, 2, [0, 1]), (1, 1, [0, 0, 1])], range(8)) + [dict(c, _reuse=1) for c in c01_joint((2, 4, 6)) + c01_tri((0, 4, 6))] + c01_recyc((0, 2, 4, 6)) if not _undecidable(c)]},
     'selftest_config': AB(1, 1, [0, 0, 1], SEL=2), 'selftests': ['VS_SELFTEST_1']},
  ],
 }
}
