import sys, os
sys.path.insert(0, os.path.dirname(os.path.dirname(os.path.abspath(__file__))))
from checks import *

CHECKS = {
 'C01': {
  'level': 'model_checking',
  'explanation': 'ExplicitTreeAut::CheckInclusion executed symbolically for each of the 8 implemented parameter selections (operands prepared as cli/operations.hh does: sanitisation, disjoint union, simulation of the matching direction) on every pair of automata drawn from the rule universes of the configuration, against an independent macro-state inclusion oracle; one query per (universe, selection).',
  'bounds': {'quick': 'pairs (A,B) with |Q_A|+|Q_B| <= 4 states: 1+1 over {a/0,b/0,f/1}; 2+1, 1+2, 2+2 over {a/0,f/1}; 2+1, 1+2 over {a/0,g/2}; all rule subsets and final sets (8..16 free bits per query), all 8 selections; plus the triangular sub-universes (rules whose parent number is <= every child number, i.e. DAG-shaped automata with self loops) over 2+3 and 3+2 states and {a/0,f/1} (19 free bits) for the four selections without simulation (the upward+simulation selection on the two universes with a binary symbol only in the thorough tier)',
             'thorough': 'as quick plus 2+2 over {a/0,b/0,f/1}, the upward+simulation selection on the binary universes, and the triangular 2+3 / 3+2 universes for all 8 selections (also with only the bigger operand restricted, 20 bits)'},
  'outside': 'more than 2 states per operand, rank > 2, more than 3 symbols, simulation relations other than the one the library computes',
  'harnesses': [
    {'name': 'incl', 'src': 'harness/C01/incl.cc', 'tus': TREE_INCL,
     'configs': {'quick': c01_configs([(1, 1, [0, 0, 1]), (2, 1, [0, 1]), (1, 2, [0, 1]), (2, 2, [0, 1]), (2, 1, [0, 2]), (1, 2, [0, 2])]) + c01_tri((0, 2, 4, 6)),
                 'thorough': c01_configs([(1, 1, [0, 0, 1]), (2, 1, [0, 1]), (1, 2, [0, 1]), (2, 2, [0, 1]), (2, 1, [0, 2]), (1, 2, [0, 2]), (2, 2, [0, 0, 1])], heavy=True) + c01_tri(range(8), _heavy=1, _mem_gb=30, _time=2500) + c01_tri((0, 2, 4, 6), both=False, _heavy=1, _mem_gb=30, _time=2500)},
     'selftest_config': AB(1, 1, [0, 0, 1], SEL=2), 'selftests': ['VS_SELFTEST_1']},
  ],
 }
}
