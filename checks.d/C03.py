import sys, os
sys.path.insert(0, os.path.dirname(os.path.dirname(os.path.abspath(__file__))))
from checks import *

CHECKS = {
 'C03': {
  'level': 'model_checking',
  'explanation': 'RemoveUnreachableStates, RemoveUselessStates and IsLangEmpty executed symbolically on every automaton whose rules are drawn from the rule universe of the configuration (presence bit per rule, finality bit per state); results decoded by iterating the returned automaton and compared with naive fixpoint oracles (productive / reachable / useful masks computed on the input - the result is a sub-automaton of the reachable resp. useful part - and on the result itself - every state that occurs in it is reachable from one of its final states resp. every state and rule takes part in one of its accepting runs; macro-state language inclusion in both directions).',
  'bounds': {'quick': 'automata over <=3 states with symbols of rank <=2; universes: 2 states x {a/0,f/1}, 2 x {a/0,f/1,g/2}, 2 x {a/0,b/0,g/2} (two leaf rules of one state), 3 x {a/0,f/1}; all subsets of rules and final states (8..16 free bits per query)',
             'thorough': 'as quick plus 2 x {a/0,t/3} (a ternary symbol), 2 x {a/0,b/0,f/1,g/2} and 3-state universes with a binary symbol restricted to sub-universes'},
  'outside': 'more than 3 states, rank > 2, state numbers >= NS, automata sharing storage with other automata (see C11)',
  'harnesses': [
    {'name': 'trim', 'src': 'harness/C03/trim.cc', 'tus': TREE_CORE + ['explicit_tree_useless', 'explicit_tree_unreach'],
     'configs': {'quick': [U(2, [0, 1], OP=0), U(2, [0, 1], OP=1), U(2, [0, 1, 2], OP=0), U(2, [0, 1, 2], OP=1), U(3, [0, 1], OP=0), U(3, [0, 1], OP=1), U(2, [0, 0, 2], OP=0), U(2, [0, 0, 2], OP=1)],
                 'thorough': [U(2, [0, 1], OP=0), U(2, [0, 1], OP=1), U(2, [0, 1, 2], OP=0), U(2, [0, 1, 2], OP=1), U(3, [0, 1], OP=0), U(3, [0, 1], OP=1), U(2, [0, 0, 1, 2], OP=0), U(2, [0, 0, 1, 2], OP=1), U(2, [0, 0, 2], OP=0), U(2, [0, 0, 2], OP=1), U(2, [0, 3], OP=0, _time=1500), U(2, [0, 3], OP=1, _time=1500)]},
     'selftest_config': U(2, [0, 1], OP=0), 'selftests': ['VS_SELFTEST_1']},
  ],
 },
}
