import sys, os
sys.path.insert(0, os.path.dirname(os.path.dirname(os.path.abspath(__file__))))
from checks import *

# 3 states x {a/0,h/2}, 15 of the 30 rules (18 free bits): H3A = the three leaf rules, every h(x,y)->q0, h(q0,q0)->q1, h(q2,q2)->q2,
# h(q1,q1)->q2 (a final state whose rules mix productive and unproductive children); H3B = leaf rules, h(x,y)->q0 / q1 for the five
# child pairs that mention q2, h(q0,q1)->q2, h(q2,q2)->q2
H3A = '0x22001ffful'; H3B = '0x205e4f27ul'
C03_EXTRA_Q = [U(3, [0, 1], OP=0, MAPMODE=2), U(3, [0, 1], OP=1, MAPMODE=2), U(2, [0, 0, 2], OP=0, MAPMODE=2), U(2, [0, 0, 2], OP=1, MAPMODE=2), U(2, [0, 1], OP=0, MAPMODE=1), U(2, [0, 1], OP=1, MAPMODE=1),
               U(3, [0, 2], OP=0, RMASK=H3A, _time=1500), U(3, [0, 2], OP=1, RMASK=H3A, _time=1500),
               U(2, [0, 1, 2], OP=0, SAME_SYMNUM=5), U(2, [0, 1, 2], OP=1, SAME_SYMNUM=5), U(3, [0, 1], OP=0, SAME_SYMNUM=5), U(2, [0, 1, 2], OP=0, SAME_SYMNUM=5, BUILD_REV=None), U(2, [0, 1], OP=1, SAME_SYMNUM=5, BUILD_REV=None)]      # one symbol number used with arities 0, 1, 2
C03_EXTRA_T = [U(3, [0, 2], OP=0, RMASK=H3B, _time=1500), U(3, [0, 2], OP=1, RMASK=H3B, _time=1500), U(3, [0, 2], OP=0, RMASK=H3A, MAPMODE=2, _time=2800), U(2, [0, 1, 2], OP=0, MAPMODE=2), U(2, [0, 1, 2], OP=1, MAPMODE=2)]

CHECKS = {
 'C03': {
  'level': 'model_checking',
  'explanation': 'RemoveUnreachableStates, RemoveUselessStates and IsLangEmpty executed symbolically on every automaton whose rules are drawn from the rule universe of the configuration (presence bit per rule, finality bit per state); results decoded by iterating the returned automaton and compared with naive fixpoint oracles (productive / reachable / useful masks computed on the input - the result is a sub-automaton of the reachable resp. useful part - and on the result itself - every state that occurs in it is reachable from one of its final states resp. every state and rule takes part in one of its accepting runs; macro-state language inclusion in both directions).',
  'bounds': {'quick': 'automata over <=3 states with symbols of rank <=2; universes: 2 states x {a/0,f/1}, 2 x {a/0,f/1,g/2}, 2 x {a/0,b/0,g/2} (two leaf rules of one state), 3 x {a/0,f/1}; all subsets of rules and final states (8..16 free bits per query); plus (third red-team round) the optional out-map of both operations passed as an empty map (2 x {a/0,f/1}) or as a map that already holds identity entries for any subset of the states - a map left over from an earlier call - on 3 x {a/0,f/1} and 2 x {a/0,b/0,g/2} (16..18 bits), and a 15-rule sub-universe H3A of 3 x {a/0,h/2} (18 bits: a final state whose binary rules mix productive and unproductive children); one symbol number used with the arities 0, 1 (3 states) and 0, 1, 2 (2 states), (number, arity) being the symbol of the reference semantics; rules added in universe order and in reverse order',
             'thorough': 'as quick plus 2 x {a/0,t/3} (a ternary symbol), 2 x {a/0,b/0,f/1,g/2} a second 15-rule sub-universe H3B of 3 x {a/0,h/2}, H3A with a pre-filled map, 2 x {a/0,f/1,g/2} with a pre-filled map'},
  'outside': 'more than 3 states, rank > 2, 3 states with a binary symbol outside the two 15-rule sub-universes, out-maps holding entries that are not identity entries of states < NS, state numbers >= NS, automata sharing storage with other automata (see C11)',
  'harnesses': [
    {'name': 'trim', 'src': 'harness/C03/trim.cc', 'tus': TREE_CORE + ['explicit_tree_useless', 'explicit_tree_unreach'],
     'configs': {'quick': [U(2, [0, 1], OP=0), U(2, [0, 1], OP=1), U(2, [0, 1, 2], OP=0), U(2, [0, 1, 2], OP=1), U(3, [0, 1], OP=0), U(3, [0, 1], OP=1), U(2, [0, 0, 2], OP=0), U(2, [0, 0, 2], OP=1)] + C03_EXTRA_Q,
                 'thorough': [U(2, [0, 1], OP=0), U(2, [0, 1], OP=1), U(2, [0, 1, 2], OP=0), U(2, [0, 1, 2], OP=1), U(3, [0, 1], OP=0), U(3, [0, 1], OP=1), U(2, [0, 0, 1, 2], OP=0), U(2, [0, 0, 1, 2], OP=1), U(2, [0, 0, 2], OP=0), U(2, [0, 0, 2], OP=1), U(2, [0, 3], OP=0, _time=1500), U(2, [0, 3], OP=1, _time=1500)] + C03_EXTRA_Q + C03_EXTRA_T},
     'selftest_config': U(2, [0, 1], OP=0), 'selftests': ['VS_SELFTEST_1']},
  ],
 },
}
