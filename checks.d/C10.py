import sys, os
sys.path.insert(0, os.path.dirname(os.path.dirname(os.path.abspath(__file__))))
from checks import *

FA_CORE = ['explicit_finite_aut', 'explicit_finite_aut_core']
FA_OPS = FA_CORE + ['explicit_finite_union', 'explicit_finite_isect', 'explicit_finite_reverse', 'explicit_finite_unreach', 'explicit_finite_useless', 'explicit_finite_candidate', 'aut_base', 'util', 'convert']

def FAB(na, nb, nsym, **kw):
    d = {'NA': na, 'NB': nb, 'FA_NSYM': nsym}
    d.update(kw); return d

CHECKS = {
 'C10': {
  'level': 'model_checking',
  'explanation': 'x',
  'bounds': {'quick': 'x', 'thorough': 'x'},
  'outside': 'x',
  'harnesses': [
    {'name': 'fa_ops', 'src': 'harness/C10/fa_ops.cc', 'tus': FA_OPS,
     'configs': {'quick': [FAB(2, 1, 1, OP=4)], 'thorough': [FAB(2, 1, 1, OP=4)]},
     'selftest_config': FAB(2, 1, 1, OP=4), 'selftests': ['VS_SELFTEST_1']},
  ],
 },
}
