import sys, os
sys.path.insert(0, os.path.dirname(os.path.dirname(os.path.abspath(__file__))))
from checks import *

FA_CORE = ['explicit_finite_aut', 'explicit_finite_aut_core']
FA_OPS = FA_CORE + ['explicit_finite_union', 'explicit_finite_isect', 'explicit_finite_reverse', 'explicit_finite_unreach', 'explicit_finite_useless', 'explicit_finite_candidate', 'aut_base', 'util', 'convert']

def FAB(na, nb, nsym, **kw):
    d = {'NA': na, 'NB': nb, 'FA_NSYM': nsym}
    d.update(kw); return d

def edges(n, nsym, pred):
    """mask of the candidate edges (q,a,r) of an n-state automaton over nsym letters that satisfy pred; index (q*nsym+a)*n+r"""
    m = 0
    for q in range(n):
        for a in range(nsym):
            for r in range(n):
                if pred(q, a, r): m |= 1 << ((q * nsym + a) * n + r)
    return hex(m)

# OP: 0 Union, 1 UnionDisjointStates, 2 Intersection (two operands A, B); 3 Reverse, 4 RemoveUnreachableStates,
#     5 RemoveUselessStates, 6 GetCandidateTree, 7 Reverse followed by GetCandidateTree (one operand A; NB is unused).  Shapes as in checks.d/C09.py.
UNARY, BINARY = (3, 4, 5, 6, 7), (0, 1, 2)
UN_QUICK = [
  FAB(2, 1, 2),                                             # 12 bits: two states, letters a,b, everything free
  FAB(3, 1, 1),                                             # 15 bits: three states, one letter
  FAB(2, 1, 3),                                             # 16 bits: two states, three letters
]
UN_THOROUGH = UN_QUICK + [
  FAB(3, 1, 2, A_EDGES=edges(3, 2, lambda q, a, r: r != 0), A_START=0, A_STARTFIX=1),                     # 12+3: three states, two letters, no edge into the start state 0
  FAB(3, 1, 2, A_EDGES=edges(3, 2, lambda q, a, r: a == 0 or q == r), A_START=6, A_STARTFIX=1, A_FIN=6),   # 12+4: all a-edges, b only as self loops; state 0 start, others free; finals of 1,2 free
  FAB(4, 1, 1, A_EDGES=edges(4, 1, lambda q, a, r: r != 0), A_START=0, A_STARTFIX=1),                     # 12+4: four states, one letter
  FAB(3, 1, 2, A_START=0, A_STARTFIX=1, A_FIN=0, A_FINFIX=4),                                              # 18 bits: all edges of three states x two letters, 0 start, 2 final
]
BIN_QUICK = [
  FAB(1, 2, 2), FAB(2, 1, 2),                               # 4+12 / 12+4 bits
  FAB(2, 2, 1),                                             # 8+8: one letter
  FAB(1, 1, 3),                                             # 5+5: three letters
]
BIN_THOROUGH = BIN_QUICK + [
  FAB(2, 2, 2, A_EDGES=edges(2, 2, lambda q, a, r: a == 0), A_START=0, A_STARTFIX=1, B_START=0, B_STARTFIX=1),   # 6+10: A uses letter a only; starts {0}; finals free
  FAB(2, 2, 2, A_START=0, A_STARTFIX=1, A_FIN=0, A_FINFIX=2, B_START=0, B_STARTFIX=1, B_FIN=0, B_FINFIX=3),     # 8+8: all 16 edges; A: 0 start, 1 final; B: 0 start, both final
  FAB(2, 2, 2, A_START=0, A_STARTFIX=3, A_FIN=0, A_FINFIX=2, B_START=0, B_STARTFIX=1, B_FIN=0, B_FINFIX=2),     # 8+8: A with two start states (product states with only one start component), finals {1}
  FAB(2, 2, 2, A_FIN=0, A_FINFIX=2, B_EDGES=edges(2, 2, lambda q, a, r: r == 1), B_START=0, B_STARTFIX=1),             # 10+6: A all 8 edges, start bits free, final {1}; B edges into state 1 only, start {0}, finals free
  FAB(2, 3, 1, A_START=0, A_STARTFIX=1, B_START=0, B_STARTFIX=1, B_FIN=4),                                       # 6+10: one letter, 2x3 states
]
# two thorough queries the engine cannot decide (Reverse followed by GetCandidateTree: the set of alternatives of one pointer exceeds
# --max-alts 2048): left out, stated under 'outside'
def _undecided(c): return c.get('OP') == 7 and (c['NA'] == 4 or (c['NA'] == 3 and c['FA_NSYM'] == 2 and c.get('A_FINFIX') == 4))
def ops(univ, which, **kw):
    return [c for c in (dict(u, OP=o, **kw) for u in univ for o in which) if not _undecided(c)]

CHECKS = {
 'C10': {
  'level': 'model_checking',
  'explanation': 'ExplicitFiniteAut::Union (with translation maps, as the CLI), UnionDisjointStates, Intersection, Reverse, RemoveUnreachableStates, RemoveUselessStates and GetCandidateTree executed symbolically on every NFA (pair of NFAs) of the universe of the configuration (presence bit per edge, start bit and final bit per state, built through SetStateStart / AddTransition / SetStateFinal with the letters registered in the alphabet); the result is observed at the public observation point DumpToString(serializer, stateDict) with a serializer that decodes the AutDescription back into edge/start/final masks (results: independently of the state numbers the library chose - the names that occur are assigned to universe states in order of first occurrence, at most |Q_A|+|Q_B| resp. |Q_A|*|Q_B| resp. |Q_A| distinct states out of 8 dictionary names; operands: under their own numbers), and its language is compared by an independent subset-construction inclusion oracle (both directions) with the language the property demands: L(A) u L(B), L(A) n L(B) (textbook product on masks), the mirror language (transposed masks), L(A) for the two trimming operations, and for GetCandidateTree: subset of L(A) and empty iff L(A) is empty. Operands are checked to be unchanged. The thorough tier also applies the CLI switches -p / -s (trimming the operands first).',
  'bounds': {'quick': 'one-operand operations: all NFAs with 2 states x 2 letters (12 bits), 3 states x 1 letter (15), 2 states x 3 letters (16); two-operand operations: all pairs with 1+2 and 2+1 states x 2 letters, 2+2 x 1 letter, 1+1 x 3 letters (10..16 bits); every start/final combination (empty word, several start states, product states with one start component); Reverse followed by GetCandidateTree on the one-operand universes',
             'thorough': 'as quick plus 15..18-bit sub-universes of 3 states x 2 letters and 4 states x 1 letter (one operand), 16-bit sub-universes of 2+2 states x 2 letters and 2+3 states x 1 letter (two operands), and the quick universes with operands trimmed first by RemoveUnreachableStates / RemoveUselessStates (-p / -s)'},
  'outside': 'Reverse followed by GetCandidateTree on the 4-state x 1-letter and the full 3-state x 2-letter sub-universes (undecided by the engine: pointer alternatives exceed its limit; the two operations are decided there separately); more than 4 states per operand (6 product states), more than 3 letters, start symbols (every start state gets the same start symbol x; which start symbol a result prints is not checked), the Timbuk text produced by the real serializer, the translation maps returned by Union / Intersection, Complement/Reduce (not implemented)',
  'assumptions': ['start symbols (the nullary Timbuk rules that make a state a start state) carry no language meaning'],
  'harnesses': [
    # one entry per operation: own witness twin, own seeded fault (VS_SELFTEST_1 is operation specific), own translation validation
    {'name': name, 'src': 'harness/C10/fa_ops.cc', 'tus': FA_OPS,
     'configs': {'quick': ops(UN_QUICK if op in UNARY else BIN_QUICK, (op,)),
                 'thorough': ops(UN_THOROUGH if op in UNARY else BIN_THOROUGH, (op,))
                             + (ops(BIN_QUICK, (op,), PRUNE=1) + ops(BIN_QUICK, (op,), PRUNE=2) if op in BINARY else [])
                             + (ops(UN_QUICK[:2], (op,), PRUNE=2) if op in (3, 6) else []) + (ops(UN_QUICK[:2], (op,), PRUNE=1) if op == 6 else [])},
     'selftest_config': FAB(2, 1, 2, OP=op) if op in UNARY else FAB(1, 2, 2, OP=op), 'selftests': ['VS_SELFTEST_1']}
    for op, name in [(0, 'union'), (1, 'union_disjoint'), (2, 'isect'), (3, 'reverse'), (4, 'unreach'), (5, 'useless'), (6, 'witness'), (7, 'reverse_witness')]
  ],
 },
}
