import sys, os
sys.path.insert(0, os.path.dirname(os.path.dirname(os.path.abspath(__file__))))
from checks import *

def emask(n, l, pred):
    """edge mask of the LTS universe U(n states, l labels): bit (a*n+q)*n+r set iff pred(a, q, r)"""
    m = 0
    for a in range(l):
        for q in range(n):
            for r in range(n):
                if pred(a, q, r): m |= 1 << ((a * n + q) * n + r)
    return '0x%xul' % m

def LTS(n, l, mode, **kw):
    d = {'NQ': n, 'NL': l, 'MODE': mode}
    d.update(kw); return d

# sub-universes of U(3 states, 2 labels) (18 edges) with 12 edges each
M32 = {
 'src':    emask(3, 2, lambda a, q, r: (a == 0 and q < 2) or (a == 1 and q > 0)),     # label 0 leaves {0,1}, label 1 leaves {1,2}
 'dst':    emask(3, 2, lambda a, q, r: (a == 0 and r < 2) or (a == 1 and r > 0)),     # label 0 enters {0,1}, label 1 enters {1,2}
 'noloop': emask(3, 2, lambda a, q, r: q != r),
 'a+loop': emask(3, 2, lambda a, q, r: a == 0 or q == r),                              # label 0 complete, label 1 self loops
 'loop+b': emask(3, 2, lambda a, q, r: a == 1 or q == r),
}
# sub-universes of U(3 states, 1 label) for the runs with an initial partition/preorder (which adds up to 10 bits)
M31 = {
 'noloop': emask(3, 1, lambda a, q, r: q != r),
 'fwd':    emask(3, 1, lambda a, q, r: q <= r),
 'bwd':    emask(3, 1, lambda a, q, r: q >= r),
}
# sub-universes of U(4 states, 2 labels) (32 edges)
M42 = {
 'ring':   emask(4, 2, lambda a, q, r: (a == 0 and r == (q + 1) % 4) or (a == 0 and q == r and q < 2) or (a == 1 and abs(q - r) == 1)),   # 12 edges
 'updown': emask(4, 2, lambda a, q, r: (a == 0 and r == q + 1) or (a == 1 and r == q - 1) or (a == 1 and q == r) or (a == 0 and q == 3 and r == 0)),   # 11 edges
 'fan':    emask(4, 2, lambda a, q, r: (a == 0 and q < 2 and r >= 2) or (a == 1 and q >= 2)),   # 12 edges
}
M33_ROT  = emask(3, 3, lambda a, q, r: r == (q + a) % 3 or (a == 1 and r == q))                # 12 of the 27 edges of 3 states x 3 labels
M51_BAND = emask(5, 1, lambda a, q, r: abs(q - r) <= 1)                                         # 13 of the 25 edges of 5 states x 1 label
M51_WIDE = emask(5, 1, lambda a, q, r: abs(q - r) <= 1 or r == (q + 2) % 5)                     # 18 edges
HEAVY = {'_heavy': 1, '_mem_gb': 16, '_time': 2400}

# concrete filler states (disconnected self loops) around the symbolic core: > 31 (label,state) pairs with outgoing
# transitions, i.e. several counter rows in the engine (SharedCounter rows hold 31 entries)
M33_CORE12 = emask(3, 3, lambda a, q, r: a >= 1 and q != r)     # core edges on labels 1 and 2 only (12 edges), label 0 is the fillers'
FILLED = [LTS(3, 1, 0, FILL=30), LTS(3, 1, 0, FILL=33, MULT=1, OUTSYM=0),
          LTS(3, 3, 0, EMASK=M33_CORE12, FILL=30, OUTSYM=0),       # the core's (label,state) keys straddle the boundary between counter rows 0 and 1
          LTS(3, 3, 0, EMASK=M33_CORE12, FILL=29, OUTSYM=0), LTS(3, 3, 0, EMASK=M33_CORE12, FILL=31, OUTSYM=0)]
# filler states that form a chain (pairwise different): the partition grows one split at a time past 64 / 128 blocks, the
# word boundaries of the per-block bit masks
CHAINED = [LTS(2, 1, 0, FILL=67, FILLCHAIN=None), LTS(2, 2, 0, FILL=66, FILLCHAIN=None, OUTSYM=0), LTS(2, 1, 0, FILL=131, FILLCHAIN=None, OUTSYM=0)]   # (MODE 0 only: the harness does not put filler states into a supplied partition)
# 5 core states W=0 X=1 Y=2 Q=3 P=4 over labels a=0, b=1 around the shape W-a->X-a->Y-a->Q, P-b->X, Q-b->Y (9 candidate edges) plus
# 16 / 22 filler states with a- and b- self loops: a block that is split at run time has incoming transitions under both labels
# and its counters lie in two rows
M52_CORE = emask(5, 2, lambda a, q, r: (a, q, r) in ((0, 0, 1), (0, 1, 2), (0, 2, 3), (1, 4, 1), (1, 3, 2), (0, 3, 3), (1, 0, 1), (0, 4, 2), (1, 1, 2)))
BOTH = [LTS(5, 2, 0, EMASK=M52_CORE, FILL=16, FILLBOTH=None, FILLFIRST=None, OUTSYM=0),      # fillers numbered before the core (the core's counters sit in the later row)
        LTS(5, 2, 0, EMASK=M52_CORE, FILL=22, FILLBOTH=None, FILLFIRST=None, OUTSYM=0), LTS(5, 2, 0, EMASK=M52_CORE, FILL=16, FILLBOTH=None, OUTSYM=0), LTS(5, 2, 0, EMASK=M52_CORE, FILL=33, FILLBOTH=None, FILLFIRST=None, OUTSYM=0)]
# requested output size 16 / 32 (a full row of the result's bit matrix) with more states than that
OUTROW = [LTS(3, 1, 0, FILL=18, OUTFIX=16, OUTSYM=0), LTS(3, 2, 0, EMASK=M33_CORE12 if False else M32['noloop'], FILL=33, OUTFIX=32, OUTSYM=0)]
QUICK = [
  FILLED[0], FILLED[2], CHAINED[0], CHAINED[1], BOTH[0], OUTROW[0],
  # no initial partition: greatest simulation preorder
  LTS(2, 1, 0, MULT=1),                       # 8 edge bits (parallel edges) + 2 output-size bits
  LTS(2, 2, 0, MULT=1),                       # 16 + 2
  LTS(3, 1, 0, MULT=1),                       # 18 + 2
  LTS(4, 1, 0),                               # 16 + 3
  LTS(2, 3, 0),                               # 12 + 2, three labels
  LTS(3, 1, 0, CT=1),                         # number of states determined by the edges (1..3)
  LTS(2, 2, 0, REUSED=None), LTS(3, 1, 0, REUSED=None),      # the object held another system (more labels and states) before and was cleared (fifth round)
  LTS(3, 2, 0, EMASK=M32['src']), LTS(3, 2, 0, EMASK=M32['dst']), LTS(3, 2, 0, EMASK=M32['noloop']), LTS(3, 2, 0, EMASK=M32['a+loop']),
  LTS(3, 3, 0, EMASK=M33_ROT, OUTSYM=0), LTS(5, 1, 0, EMASK=M51_BAND),
  LTS(4, 2, 0, EMASK=M42['ring'], OUTSYM=0), LTS(4, 2, 0, EMASK=M42['updown'], OUTSYM=0), LTS(4, 2, 0, EMASK=M42['fan'], OUTSYM=0),
  # initial partition + preorder on the blocks
  LTS(2, 1, 1, MULT=1, REV=1),                # 8 + 2 + 1 + 1 + 2
  LTS(2, 2, 1, REV=1),                        # 8 + 2 + 1 + 1 + 2
  LTS(3, 1, 1, EMASK=M31['noloop'], REV=1), LTS(3, 1, 1, EMASK=M31['fwd'], OUTSYM=0), LTS(3, 1, 1, EMASK=M31['bwd'], OUTSYM=0),
  LTS(3, 1, 1, REV=1),                        # 9 + 2 + 3 + 1 + 6: every 3-state single-label system with every partition/preorder
  LTS(3, 2, 1, EMASK=M32['src'], OUTSYM=0),   # 12 + 3 + 6
]
THOROUGH = QUICK + [FILLED[1], FILLED[3], FILLED[4], CHAINED[2], BOTH[1], BOTH[2], BOTH[3], OUTROW[1]] + [
  LTS(3, 2, 0, **HEAVY),                                                                 # all 18 edges + 2
  LTS(3, 2, 0, EMASK=M32['loop+b']),
  LTS(2, 2, 1, MULT=1, REV=1),
  LTS(5, 1, 0, EMASK=M51_WIDE, OUTSYM=0),
  LTS(3, 2, 1, EMASK=M32['dst'], OUTSYM=0, **HEAVY), LTS(3, 2, 1, EMASK=M32['noloop'], OUTSYM=0, **HEAVY),
]

CHECKS = {
 'C16': {
  'level': 'model_checking',
  'explanation': 'ExplicitLTS::addTransition/init/computeSimulation executed symbolically on every labelled transition system whose edges are drawn from the edge universe of the configuration (presence bit per edge; with MULT two bits per edge = parallel edges and varied adjacency-list order), with a symbolic output size, and (MODE 1) a symbolic partition of the states into blocks (all set partitions, both block orders) with a symbolic reflexive-transitive relation on the blocks; the returned BinaryRelation is read with get(q,r) for all q,r below the output size and compared with a naive greatest-fixpoint oracle of the simulation definition started from the induced state relation (full relation without partition); size() must equal the output size.',
  'bounds': {'quick': 'LTSs over <=5 states and <=3 labels. Without partition: 2 states x 1..3 labels (1..2 labels with parallel edges), 3 states x 1 label (parallel edges; also with the state count following from the edges; 2 states x 2 labels and 3 states x 1 label also on an object that held a larger system before and was cleared), 4 states x 1 label, four 12-edge sub-universes of 3 states x 2 labels, one 12-edge sub-universe of 3 states x 3 labels, three 11..12-edge sub-universes of 4 states x 2 labels, a 13-edge band of 5 states x 1 label. With initial partition/preorder (all set partitions, both block orders, all preorders on the blocks): 2 states x 1..2 labels, 3 states x 1 label (complete), one 12-edge sub-universe of 3 states x 2 labels. Output size symbolic in 0..|Q| unless the edge set already uses 12 bits (10..21 free bits per query); plus concrete filler states around a symbolic core: 30..33 self-loop fillers (two counter rows), 67 chain-shaped fillers (partition grows past 64 blocks), 16 fillers with self loops on two labels numbered before a 9-edge core of 5 states (a run-time split with counters in two rows), 18 fillers with requested output size 16 (a full row of the result matrix)',
             'thorough': 'as quick plus the complete 3 states x 2 labels universe (18 edge bits), a fifth 12-edge sub-universe of it, 2 states x 2 labels with parallel edges and partition/preorder, an 18-edge sub-universe of 5 states x 1 label, two further 3 states x 2 labels sub-universes with partition/preorder; 131 chain fillers (128 blocks), 22 / 33 two-label fillers, output size 32'},
  'outside': 'systems with more than 5 symbolic states (the filler configurations add 30..33 concrete, disconnected self-loop states only); more than 5 states or 3 labels; systems with >= 3 states and >= 2 labels, and with 5 states, only inside the listed sub-universes; edge multiplicity > 2; output sizes larger than the number of states; partitions with empty blocks and block relations that are not reflexive/transitive (excluded by the documented assertions of the engine); row sizes of the shared counters other than 31 (needs > 4000 states)',
  'assumptions': ['the LTS has at least one state and the output size does not exceed the number of states (preconditions asserted by SimulationEngine)'],
  'harnesses': [
    {'name': 'lts', 'src': 'harness/C16/lts.cc', 'tus': ['explicit_lts_sim', 'util'],
     'configs': {'quick': QUICK, 'thorough': THOROUGH},
     'selftest_config': LTS(2, 2, 1, REV=1), 'selftests': ['VS_SELFTEST_1', 'VS_SELFTEST_2']},
  ],
 },
}
