import sys, os
sys.path.insert(0, os.path.dirname(os.path.dirname(os.path.abspath(__file__))))
from checks import *

# CHAIN restricts the drawn rules (leaf rules always; 1: every child at most one state away from the parent, 2: every child is
# the parent state or the one below) so that automata whose smallest accepted tree has depth 4 / 5 fit into the bit budget
# a ternary symbol: 10 of its 16 rules over 2 states (rules with a repeated child and another child, either order) + both leaf rules
T3 = '0x5dabul'
_QUICK = [U(2, [0, 1]), U(2, [0, 2]), U(3, [0, 1]), U(2, [0, 1, 2]), U(3, [0, 2], CHAIN=2), U(4, [0, 1], CHAIN=1), U(2, [0, 3], RMASK=T3),
          U(2, [0, 0, 1]), U(2, [0, 0, 2]),
          U(2, [0, 1, 2], SAME_SYMNUM=5), U(3, [0, 1], SAME_SYMNUM=5), U(2, [0, 1, 2], SAME_SYMNUM=5, BUILD_REV=None), U(2, [0, 1], BUILD_REV=None)]      # one symbol number used with several arities      # third red-team round: a state with two leaf rules (more kept rules than reached states)
_THOROUGH = _QUICK + [U(2, [0, 3], _time=1500), U(2, [0, 0, 1, 2]), U(3, [0, 0, 1]), U(3, [0, 1, 2], CHAIN=2), U(5, [0, 1], CHAIN=2)]

CHECKS = {
 'C15': {
  'level': 'model_checking',
  'explanation': 'ExplicitTreeAut::GetCandidateTree executed symbolically on every automaton of the rule universe of the configuration (presence bit per rule, finality bit per state). The returned automaton W is decoded by iterating it, independently of the state numbers it uses (at most as many distinct states as A has; numbers assigned to universe states in order of first occurrence); L(W) subseteq L(A) is decided by the independent macro-state inclusion oracle, emptiness of L(W) and L(A) by a naive productivity fixpoint on both (W must be empty exactly when A is); A is re-read after the call and must be unchanged. (That W is a sub-automaton of A under the state numbers of A without rules out of reach of its final states is how the current implementation works, not part of the property: those checks are kept under STRICT_IMPL, which is never defined.)',
  'bounds': {'quick': 'all automata over 2 states x {a/0,f/1}, {a/0,g/2}, {a/0,f/1,g/2}; 3 states x {a/0,f/1}; 3 states x {a/0,g/2} and 4 states x {a/0,f/1} with the rules restricted to neighbouring states, 2 states x {a/0,t/3} with 10 of the 16 ternary rules (repeated children) (deep chains: smallest accepted tree of depth up to 4; leaf-only languages; unproductive final states); 8..18 free bits per query; third red-team round: 2 states x {a/0,b/0,f/1}, {a/0,b/0,g/2} (two leaf rules of one state); one symbol number used with the arities 0, 1, 2 (2 states; rules added in universe order and in reverse order: the tuple objects are ordered by address) and 0, 1 (3 states)',
             'thorough': 'as quick plus all of 2 states x {a/0,t/3} (20 bits), 2 states x {a/0,b/0,f/1,g/2}, 3 states x {a/0,b/0,f/1}, 3 states x {a/0,f/1,g/2} and 5 states x {a/0,f/1} restricted to neighbouring states (depth up to 5; up to 20 bits)'},
  'outside': 'more than 3 states with unrestricted rules / more than 5 states in chains, rank > 3, more than 4 symbols; the command line front end (`vata witness`: parsing and serialisation around the same call); automata sharing storage with other automata (see C11)',
  'harnesses': [
    {'name': 'witness', 'src': 'harness/C15/witness.cc', 'tus': TREE_CORE + ['explicit_tree_candidate', 'explicit_tree_unreach'],
     'configs': {'quick': _QUICK, 'thorough': _THOROUGH},
     'selftest_config': U(2, [0, 1]), 'selftests': ['VS_SELFTEST_1', 'VS_SELFTEST_2']},
  ],
 },
}
