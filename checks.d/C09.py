import sys, os
sys.path.insert(0, os.path.dirname(os.path.dirname(os.path.abspath(__file__))))
from checks import *

FA_CORE = ['explicit_finite_aut', 'explicit_finite_aut_core']
FA_INCL = FA_CORE + ['explicit_finite_incl', 'explicit_finite_union', 'explicit_finite_useless', 'explicit_finite_unreach', 'explicit_finite_reverse', 'incl_param', 'aut_base', 'util', 'convert']

def FAB(na, nb, nsym, **kw):
    d = {'NA': na, 'NB': nb, 'FA_NSYM': nsym}
    d.update(kw); return d

# universes (free bits): shapes restrict edges / start / final bits, see harness/common/fa_universe.h; edge index = (q*FA_NSYM+a)*N+r
UNIV_QUICK = [
  FAB(1, 2, 2),                                                              # 4+12 = 16 bits: A one state, B two states, letters a,b
  FAB(2, 1, 2),                                                              # 12+4 = 16
  FAB(2, 2, 1),                                                              # 8+8  = 16: one letter, everything free
  FAB(1, 1, 3),                                                              # 5+5  = 10: three letters (letters of one operand only)
  FAB(2, 2, 2, A_EDGES='0xcc', A_START=0, A_STARTFIX=1, B_START=0, B_STARTFIX=1),    # A: edges into state 1 only (4), start {0}, finals free; B: all 8 edges, start {0}, finals free: 6+10 = 16
  FAB(2, 2, 2, A_START=0, A_STARTFIX=1, A_FIN=0, A_FINFIX=2, B_START=0, B_STARTFIX=1, B_FIN=0, B_FINFIX=3),  # all 8+8 edges free, A: 0 start, 1 final; B: 0 start, both final
]
UNIV_THOROUGH = UNIV_QUICK + [
  FAB(3, 1, 1, A_START=0, A_STARTFIX=1),                                     # 9+3 + 3 = 15
  FAB(1, 3, 1, B_START=0, B_STARTFIX=1),                                     # 3 + 9+3 = 15
  FAB(2, 2, 2, A_EDGES='0x33', A_START=3, A_FIN=0, A_FINFIX=3, B_START=3, B_FIN=0, B_FINFIX=3),   # A: edges into state 0 only, both may start, all final; B: 8 edges, starts free, all final: 6+10 = 16
  FAB(2, 2, 2, A_START=0, A_STARTFIX=1, A_FIN=0, A_FINFIX=2, B_START=0, B_STARTFIX=3, B_FIN=0, B_FINFIX=2),  # B: two start states, final {1}
  FAB(1, 2, 2, PREP=0), FAB(2, 1, 2, PREP=0), FAB(2, 2, 1, PREP=0),          # direct library call on operands with disjoint numbers (no CLI sanitisation)
]
def c09_configs(univ, sels=(0, 1, 2)):
    return [dict(u, SEL=s) for u in univ for s in sels]

CHECKS = {
 'C09': {
  'level': 'model_checking',
  'explanation': 'x',
  'bounds': {'quick': 'x', 'thorough': 'x'},
  'outside': 'x',
  'harnesses': [
    {'name': 'fa_incl', 'src': 'harness/C09/fa_incl.cc', 'tus': FA_INCL,
     'configs': {'quick': c09_configs(UNIV_QUICK) + [FAB(1, 2, 1, SEL=3), FAB(1, 2, 2, PREP=0, SEL=1)], 'thorough': c09_configs(UNIV_THOROUGH) + [FAB(1, 2, 2, SEL=3), FAB(2, 2, 1, SEL=3)]},
     'selftest_config': FAB(1, 2, 2, SEL=0), 'selftests': ['VS_SELFTEST_1', 'VS_SELFTEST_2']},
  ],
 },
}
