import sys, os
sys.path.insert(0, os.path.dirname(os.path.dirname(os.path.abspath(__file__))))
from checks import *

FA_CORE = ['explicit_finite_aut', 'explicit_finite_aut_core']
FA_INCL = FA_CORE + ['explicit_finite_incl', 'explicit_finite_union', 'explicit_finite_useless', 'explicit_finite_unreach', 'explicit_finite_reverse', 'incl_param', 'aut_base', 'util', 'convert']

def FAB(na, nb, nsym, **kw):
    d = {'NA': na, 'NB': nb, 'FA_NSYM': nsym}
    d.update(kw); return d

def edges(n, nsym, pred):
    """mask of the candidate edges (q,a,r) of an n-state automaton over nsym letters that satisfy pred; index (q*nsym+a)*n+r"""
    m = 0
    for q in range(n):
        for a in range(nsym):
            for r in range(n):
                if pred(q, a, r): m |= 1 << ((q * nsym + a) * n + r)
    return hex(m)

# Universes: NA states of A, NB states of B, FA_NSYM letters; by default every edge (q,a,r), every start bit and every final
# bit of both automata is a free solver variable.  Shapes (harness/common/fa_universe.h) cut 16-bit sub-universes out of the
# larger spaces: X_EDGES = mask of candidate edges; X_START / X_FIN = states whose start / final bit is free;
# X_STARTFIX / X_FINFIX = states that are start / final in every automaton of the universe.
UNIV_QUICK = [
  FAB(1, 2, 2),                                                                      # 4+12 bits: A one state, B two states, letters a,b
  FAB(2, 1, 2),                                                                      # 12+4
  FAB(2, 2, 1),                                                                      # 8+8: one letter, everything free
  FAB(1, 1, 3),                                                                      # 5+5: three letters (letters used by one operand only)
  FAB(2, 2, 2, A_EDGES=edges(2, 2, lambda q, a, r: r == 1), A_START=0, A_STARTFIX=1, B_START=0, B_STARTFIX=1),    # 6+10: A edges into state 1 only, start {0}; B all 8 edges, start {0}; finals free
  FAB(2, 2, 2, A_START=0, A_STARTFIX=1, A_FIN=0, A_FINFIX=2, B_START=0, B_STARTFIX=1, B_FIN=0, B_FINFIX=3),   # 8+8: all 16 edges free; A: 0 start, 1 final; B: 0 start, both final
  FAB(1, 3, 1, B_START=0, B_STARTFIX=1),                                             # 3+12: B three states, one letter, start {0}
  FAB(1, 3, 2, A_START=0, A_STARTFIX=1, A_FIN=0, A_FINFIX=1, B_EDGES=edges(3, 2, lambda q, a, r: r != 0), B_START=0, B_STARTFIX=1, B_FIN=6, B_FINFIX=1),   # 2+14: A = start+final state with free loops a,b; B three states, 12 edges (none into state 0), start {0} which is final, finals of 1,2 free
  FAB(1, 3, 1, B_FIN=0, B_FINFIX=7),                                                 # 3+12: B three states, all final, start bits free (several start states: incomparable macro-states of B for one A-state; third red-team round)
]
UNIV_THOROUGH = UNIV_QUICK + [
  FAB(1, 3, 1),                                                                      # 3+15: everything free
  FAB(3, 1, 1, A_START=0, A_STARTFIX=1),                                             # 12+3
  FAB(2, 2, 2, A_EDGES=edges(2, 2, lambda q, a, r: a == 1), A_START=3, A_FIN=0, A_FINFIX=3, B_START=3, B_FIN=0, B_FINFIX=3),   # 6+10: A uses letter b only, start bits free, all final; B 8 edges, start bits free, all final
  FAB(2, 2, 2, A_START=0, A_STARTFIX=1, A_FIN=0, A_FINFIX=2, B_START=0, B_STARTFIX=3, B_FIN=0, B_FINFIX=2),   # 8+8: B with two start states, final {1}
  FAB(2, 2, 2, A_START=0, A_STARTFIX=3, A_FIN=0, A_FINFIX=3, B_START=0, B_STARTFIX=1, B_FIN=0, B_FINFIX=1),   # 8+8: A both start and final, B: 0 start and final
  FAB(2, 3, 1, A_START=0, A_STARTFIX=1, B_START=0, B_STARTFIX=1, B_FIN=4),           # 6+10: one letter, B three states with start {0}, only state 2 may be final
  FAB(1, 2, 3, A_START=0, A_STARTFIX=1, A_FIN=0, A_FINFIX=1, B_START=0, B_STARTFIX=1, B_FIN=0, B_FINFIX=3),   # 3+12: three letters
  FAB(1, 3, 2, A_START=0, A_STARTFIX=1, A_FIN=0, A_FINFIX=1, B_START=0, B_STARTFIX=1, B_FIN=0, B_FINFIX=7),   # 2+18 = 20 bits: all 18 edges of a three-state B, everything final (heavy)
  FAB(2, 2, 2, A_START=0, A_STARTFIX=1, B_START=0, B_STARTFIX=1, B_FIN=0, B_FINFIX=3),              # 10+8 = 18 bits: all 16 edges, A finals free; starts {0}; B all final
  FAB(2, 2, 2, A_START=0, A_STARTFIX=1, A_FIN=0, A_FINFIX=2, B_START=0, B_STARTFIX=1),              # 8+10 = 18 bits: all 16 edges, B finals free; starts {0}; A final {1}
  FAB(3, 2, 1, A_START=0, A_STARTFIX=1, B_START=0, B_STARTFIX=1),                                   # 12+6 = 18 bits: 3+2 states, one letter, starts {0}, finals free
  FAB(1, 2, 2, PREP=0), FAB(2, 1, 2, PREP=0), FAB(2, 2, 1, PREP=0),                  # direct library call on operands with disjoint numbers (no CLI sanitisation)
]
def c09_configs(univ, sels=(0, 1, 2)):
    return [dict(u, SEL=s) for u in univ for s in sels]

CHECKS = {
 'C09': {
  'level': 'model_checking',
  'explanation': 'ExplicitFiniteAut::CheckInclusion executed symbolically for each implemented algorithm selection without simulation (antichains; congruence depth-first; congruence breadth-first), operands prepared as cli/operations.hh does (two automata numbered from 0, AutBase::SanitizeAutsForInclusion, then the library call which sanitises again and, for congruence, builds the disjoint union), on every pair of NFAs of the universe of the configuration (presence bit per edge, start bit and final bit per state); the verdict is compared with an independent subset-construction oracle (all reachable pairs of an A state and a B macro-state). One query per (universe, selection); since every selection equals the same oracle on the same universes they agree; two queries additionally run all three selections on the same pair and compare them directly.',
  'bounds': {'quick': 'pairs (A,B) of NFAs with |Q_A|+|Q_B| <= 4 states over <= 3 letters: 1+2 and 2+1 states x 2 letters, 2+2 x 1 letter, 1+1 x 3 letters (all edges, start and final bits free, 10..16 bits), two 16-bit sub-universes of 2+2 states x 2 letters, 1+3 states x 1 letter and a 16-bit sub-universe of 1+3 states x 2 letters; 3 selections each; third red-team round: 1+3 states x 1 letter with every state of B final and free start bits (15 bits)',
             'thorough': 'as quick plus 3+1 x 1 letter, three more 16-bit sub-universes of 2+2 x 2 letters (several start states on either side), 2+3 and 3+2 x 1 letter, 1+2 x 3 letters, two 18-bit universes 2+2 x 2 letters (all 16 edges free), a 20-bit universe 1+3 x 2 letters, and the direct library call (no CLI sanitisation, disjoint state numbers) on three universes'},
  'outside': 'more than 3 states per operand or 5 in total, more than 3 letters, the selections that need a simulation relation (ExplicitFiniteAut::ComputeSimulation is not implemented: assert(false)), the equivalence variants (CLI: "Equivalence not implemented"), direct library calls on operands with overlapping state numbers, other heap address orders than the bump allocator\'s (the antichain work list is ordered by macro-state addresses)',
  'assumptions': ['start symbols (the nullary Timbuk rules that make a state a start state) carry no language meaning; every start state is given the same start symbol'],
  'harnesses': [
    {'name': 'fa_incl', 'src': 'harness/C09/fa_incl.cc', 'tus': FA_INCL,
     'configs': {'quick': c09_configs(UNIV_QUICK) + [FAB(1, 2, 2, SEL=3), FAB(1, 2, 2, PREP=0, SEL=1)],
                 'thorough': c09_configs(UNIV_THOROUGH) + [FAB(1, 2, 2, SEL=3), FAB(2, 2, 1, SEL=3)]},
     'selftest_config': FAB(1, 2, 2, SEL=0), 'selftests': ['VS_SELFTEST_1', 'VS_SELFTEST_2']},
  ],
 },
}
