import sys, os
sys.path.insert(0, os.path.dirname(os.path.dirname(os.path.abspath(__file__))))
from checks import *

def X(ns, ranks, extra=(), **kw):
    d = U(ns, ranks, **kw)
    if extra: d.update({'XRANKS': '{%s}' % ','.join(str(r) for r in extra), 'NXR': len(extra)})
    return d

C06_TUS = TREE_CORE + ['explicit_tree_useless', 'explicit_tree_unreach', 'explicit_tree_comp_down']

C06_QUICK = [
  X(2, [0, 1]),                                   # 8 bits
  X(2, [0, 1], extra=[0, 1], REGMODE=1),          # registered-but-unused symbols, reversed numbering
  X(2, [0, 0, 1]),                                # 10 bits, two nullary symbols
  X(3, [0, 0]),                                   # 9 bits, alphabet with nullary symbols only
  X(2, [0, 2]),                                   # 12 bits, binary symbol (choice functions over up to 4 tuples)
  X(2, [0, 2], extra=[1], REGMODE=1, SMAP='{5,2}'),   # sparse, permuted state numbers of the operand
  X(2, [0, 1], GLOBAL_ALPHA=None),                # the library's global alphabet, as `vata cmpl` uses it
  X(1, [0, 0, 1, 1, 2, 2, 2], extra=[1]),         # 8 bits, one state, 7 used + 1 unused symbols
  # third red-team round: the complemented object received A by copy assignment / copy construction / move assignment (VIA 1/2/3);
  # for 1 and 3 the target was associated with another alphabet {x:0,y:0,z:1} before; sparse state numbers {0,2} (gapped)
  X(2, [0, 1], VIA=1), X(2, [0, 0, 1], VIA=3), X(2, [0, 1], VIA=2, extra=[0, 1]), X(2, [0, 1], SMAP='{0,2}'), X(2, [0, 2], SMAP='{3,0}'),
]
C06_THOROUGH = C06_QUICK + [
  # X(2, [0, 1, 2]) (16 bits) is NOT included: > 10 GB of terms, and with 32 GB still undecided after 2800 s (engine cost)
  X(2, [0, 0, 2], REGMODE=1, SMAP='{1,0}'),                 # 14 bits, reversed symbol numbering, swapped state numbers
  X(3, [0, 1], _heavy=1, _mem_gb=20, _time=2500), # 15 bits, 8 macro-states: 8 x 256 profile table
  X(2, [0, 0, 2], extra=[0]),
]

CHECKS = {
 'C06': {
  'level': 'model_checking',
  'explanation': 'ExplicitTreeAut::Complement() executed symbolically on every automaton A whose rules are drawn from the rule universe of the configuration, with an OnTheFlyAlphabet that holds the universe symbols plus extra registered-but-unused symbols (different registration orders / symbol numberings / state numberings per configuration, and the global alphabet as `vata cmpl` uses it). The result is decoded by iterating it; the oracle computes bottom-up ALL reachable pairs (set of A-states accepting t, set of C-states accepting t) over all trees t over the alphabet and requires that exactly one side accepts in every reachable pair (disjointness and universality of the union), that every rule of the result uses an alphabet symbol with its rank, and that the operand is unchanged.',
  'bounds': {'quick': 'A over <=3 states, ranks <=2: 2 x {a/0,f/1}, 2 x {a/0,f/1}+unused{x/0,y/1}, 2 x {a/0,b/0,f/1}, 3 x {a/0,b/0} (nullary only), 2 x {a/0,g/2}, 2 x {a/0,g/2}+unused{x/1} with sparse state numbers, 1 x {a/0,b/0,f/1,h/1,g/2,k/2,m/2}+unused{x/1}; all rule subsets and final sets (8..12 free bits per query); third red-team round: the complemented object is a copy-assigned / copy-constructed / move-assigned copy of A (the assignment targets were associated with another alphabet before), gapped state numbers {0,2} and {3,0}',
             'thorough': 'as quick plus 3 x {a/0,f/1} (15 bits), 2 x {a/0,b/0,g/2} (14 bits; once with an unused nullary symbol, once with reversed symbol numbering and swapped state numbers)'},
  'outside': 'more than 3 states (more than 2 with a binary symbol), a unary AND a binary symbol together on 2 states (16 bits: undecided by the engine within 32 GB / 2800 s), rank > 2, more than 8 symbols, alphabets that are not OnTheFlyAlphabet (NotImplementedException by design), automata that use symbols missing from the alphabet or with a rank other than the registered one (precondition of the statement), builds with assertions enabled (-UNDEBUG)',
  'assumptions': ['the result has at most 2^|Q_A| distinct states, whatever their numbers (decoded through a slot table of the distinct state numbers; checked: CHECK id 2)', 'the oracle fixpoint is cut after ROUNDS rounds; convergence is itself a checked condition (CHECK id 4)'],
  'harnesses': [
    {'name': 'compl', 'src': 'harness/C06/compl.cc', 'tus': C06_TUS,
     'configs': {'quick': C06_QUICK, 'thorough': C06_THOROUGH},
     'selftest_config': X(2, [0, 1]), 'selftests': ['VS_SELFTEST_1', 'VS_SELFTEST_2', 'VS_SELFTEST_3']},
  ],
 },
}
