#include <stdint.h>
#include <stdlib.h>
#include <string.h>
uint8_t vs_nondet_bool(void); uint8_t vs_nondet_u8(void); uint32_t vs_nondet_u32(void);
void vs_assume(int); void vs_check(int, int); void vs_reach(void);
#define BIT() (vs_nondet_bool() != 0)
static unsigned RANGE(unsigned n) { unsigned v = 0; for (unsigned k = 1, b = 0; k < n; k <<= 1, ++b) v |= (unsigned)vs_nondet_bool() << b; vs_assume(v < n); return v; }
