// EXPECT: violation property
#include "common.h"
struct N { int v; struct N* next; };
void harness(void) { unsigned n = RANGE(5); uint8_t x[4]; for (int i = 0; i < 4; ++i) x[i] = RANGE(4);
  struct N* head = 0; for (unsigned i = 0; i < n; ++i) { struct N* e = malloc(sizeof *e); e->v = x[i]; e->next = head; head = e; }
  int sum = 0; for (struct N* p = head; p; p = p->next) sum += p->v; vs_check(sum != 11, 3); }
