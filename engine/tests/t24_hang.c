// EXPECT: violation nontermination
#include "common.h"
/* a scan loop that makes no progress on one input class (the parser hang pattern: the separator is not consumed);
   the loop lives outside the function `harness` (instructions of the harness itself are not counted against the limit) */
static __attribute__((noinline)) unsigned scan(const char* p) { unsigned n = 0;
  while (*p) { if (*p == 'a') ++p; else if (*p == '\r' && n > 1000000000u) ++p; else ++n; } return n; }
void harness(void) { char buf[4]; for (int i = 0; i < 3; ++i) buf[i] = BIT() ? '\r' : 'a'; buf[3] = 0;
  vs_check(scan(buf) < 5, 1); }
