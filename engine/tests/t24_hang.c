// EXPECT: violation nontermination
#include "common.h"
/* a scan loop that makes no progress on one input class (the parser hang pattern: the separator is not consumed) */
void harness(void) { char buf[4]; for (int i = 0; i < 3; ++i) buf[i] = BIT() ? '\r' : 'a'; buf[3] = 0;
  unsigned n = 0; const char* p = buf;
  while (*p) { if (*p == 'a') ++p; else if (*p == '\r' && n > 1000000000u) ++p; else ++n; }
  vs_check(n < 5, 1); }
