// EXPECT: ok
#include "common.h"
void harness(void) { unsigned long nb = 0; if (BIT()) nb = 13; unsigned long h = 100 + RANGE(8); unsigned long idx = 0; if (nb) idx = h % nb; long* t = calloc(13, sizeof(long)); t[idx] = 1; long s = 0; for (int i = 0; i < 13; ++i) s += t[i]; vs_check(s == 1, 1); free(t); }
