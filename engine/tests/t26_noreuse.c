// EXPECT: ok
#include "common.h"
/* the same program without --reuse-addresses: fresh addresses, no stale hit */
static void* volatile memo_key; static volatile int memo_val;
static __attribute__((noinline)) void remember(void* k, int v) { memo_key = k; memo_val = v; }
static __attribute__((noinline)) int lookup(void* k, int* v) { if (memo_key == k) { *v = memo_val; return 1; } return 0; }
static __attribute__((noinline)) int* make(int v, unsigned n) { int* p = malloc(n); *p = v; return p; }
void harness(void) { int* a = make(BIT(), 24); remember(a, *a + 100); free(a);
  int* b = make(5, 20); int v = 0;
  vs_check(!lookup(b, &v), 1); free(b); }
