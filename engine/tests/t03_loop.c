// EXPECT: ok
#include "common.h"
void harness(void) { unsigned n = RANGE(6); unsigned s = 0; for (unsigned i = 0; i < n; ++i) s += i; vs_check(s == n * (n - 1) / 2 || n == 0, 1); vs_check(n != 0 || s == 0, 2); }
