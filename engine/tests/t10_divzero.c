// EXPECT: violation div-by-zero
#include "common.h"
void harness(void) { unsigned a = RANGE(4), b = RANGE(4); vs_assume(a + b != 1); volatile unsigned r = 12 / (a + b - (a + b > 1 ? 2 : 0) + (a == 3)); (void)r; }
