// EXPECT: ok
#include "common.h"
struct P { int a; short b; char c; void* q; };
void harness(void) { struct P x; memset(&x, 0, sizeof x); struct P y = x; if (BIT()) { y.a = 5; y.q = &x; } else { struct P z = {7, 2, 1, 0}; y = z; }
  struct P w; memcpy(&w, &y, sizeof w); vs_check((w.a == 5 && w.q == &x && w.b == 0) || (w.a == 7 && w.b == 2 && w.c == 1 && w.q == 0), 1); }
