// EXPECT: violation use-after-free
#include "common.h"
void harness(void) { int* p = malloc(8); p[0] = 1; if (BIT() && !BIT()) free(p); vs_check(p[0] == 1, 1); }
