// EXPECT: violation signed-overflow
#include "common.h"
void harness(void) { int x = BIT() ? 2147483600 : 5; int y = (int)RANGE(64); volatile int r = x + y; (void)r; }
