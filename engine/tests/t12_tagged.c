// EXPECT: ok
#include "common.h"
void harness(void) { int* a = malloc(8); int* b = malloc(8); *a = 1; *b = 2; uintptr_t t = (uintptr_t)(BIT() ? a : b) | 1; uintptr_t store[2]; store[0] = t; store[1] = t ^ 1;
  int* p = (int*)(store[0] & ~(uintptr_t)1); int* q = (int*)store[1]; vs_check(*p == *q, 1); vs_check((store[0] & 1) == 1, 2); free(a); free(b); }
