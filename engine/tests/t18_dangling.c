// EXPECT: violation dangling
#include "common.h"
static int* __attribute__((noinline)) leak(int v) { int local[2]; local[0] = v; int* volatile p = local; return p; }
void harness(void) { int* p = leak(BIT()); vs_check(*p <= 1, 1); }
