// EXPECT: violation property
#include "common.h"
void harness(void) { int a = BIT(), b = BIT(), c = BIT(); int x = 0; if (a) x += 1; if (b) x += 2; else if (c) x += 4; vs_check(x != 5, 1); }
