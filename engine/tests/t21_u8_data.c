// EXPECT: ok
#include "common.h"
void harness(void) { uint8_t a = vs_nondet_u8(), b = vs_nondet_u8(); unsigned s = (unsigned)a + b; vs_check(s >= a && s <= 510, 1); vs_check(((a ^ b) & 1) == ((a + b) & 1), 2); if (a > b) vs_check(a - b > 0, 3); }
