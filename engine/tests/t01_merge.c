// EXPECT: ok
#include "common.h"
void harness(void) { int a = BIT(), b = BIT(), c = BIT(); int x = 0; if (a) x += 1; if (b) x += 2; else if (c) x += 4; int y = a + 2 * b + ((!b && c) ? 4 : 0); vs_check(x == y, 1); }
