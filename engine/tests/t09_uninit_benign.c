// EXPECT: ok
#include "common.h"
struct S { char c; int i; };   /* padding after c is never written */
void harness(void) { struct S a, b; a.c = BIT(); a.i = 7; memcpy(&b, &a, sizeof a); unsigned long* w = malloc(8);
  unsigned k = RANGE(8); unsigned j = RANGE(8); *w = (*w & ~(1ul << k)) | ((unsigned long)BIT() << k);   /* read-modify-write of an uninitialised word */
  *w = *w | (1ul << j); vs_check(((*w >> j) & 1) == 1, 1); vs_check(b.i == 7 && b.c == a.c, 2); free(w); }
