// EXPECT: ok
#include "common.h"
struct E { long pad; struct E* down; long col; };
void harness(void) { unsigned n = 2 + RANGE(3); struct E** cols = calloc(n, sizeof *cols); struct E** last = calloc(n, sizeof *last);
  /* fake elements: pointer to 8 bytes before the slot so that ->down aliases the slot (as SplittingRelation does) */
  for (unsigned i = 0; i < n; ++i) last[i] = (struct E*)((char*)&cols[i] - 8);
  unsigned j = RANGE(2); struct E* el = malloc(sizeof *el); el->col = j; el->down = 0; last[j]->down = el; last[j] = el;
  vs_check(cols[j] == el, 1); vs_check(cols[1 - j] == 0, 2); free(el); free(cols); free(last); }
