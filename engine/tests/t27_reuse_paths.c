// EXPECT: ok
// FLAGS: --reuse-addresses
#include "common.h"
/* address reuse is per path: a is released on one side of the branch only; after the merge its address must not be
   handed out (it is still live on the other side), so b never aliases a */
static void* volatile memo_key;
static __attribute__((noinline)) int* make(int v, unsigned n) { int* p = malloc(n); *p = v; return p; }
static __attribute__((noinline)) int same(void* k) { return memo_key == k; }
void harness(void) { int* a = make(7, 24); memo_key = a; int c = BIT(); if (c) free(a);
  int* b = make(5, 24);
  if (!c) { vs_check(*a == 7, 1); vs_check(!same(b), 2); free(a); }
  free(b); }
