// EXPECT: violation uninit
#include "common.h"
int g_t[4] = {1, 0, 3, 4};
void harness(void) { int* volatile pv = malloc(8); int* p = pv; if (BIT()) p[0] = 3; vs_check(g_t[p[0] & 3] > 0, 1); free(p); }
