// EXPECT: violation property
#include "common.h"
void harness(void) { uint8_t a = vs_nondet_u8(), b = vs_nondet_u8(); vs_check((uint8_t)(a * 3 + b) != 77 || a < 200, 1); }
