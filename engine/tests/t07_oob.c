// EXPECT: violation out-of-bounds
#include "common.h"
void harness(void) { int* p = malloc(4 * sizeof(int)); for (int i = 0; i < 4; ++i) p[i] = i; unsigned k = RANGE(6); vs_assume(k != 4); vs_check(p[k] >= 0, 1); free(p); }
