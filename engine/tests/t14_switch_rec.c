// EXPECT: ok
#include "common.h"
static unsigned fib(unsigned n) { return n < 2 ? n : fib(n - 1) + fib(n - 2); }
void harness(void) { unsigned n = RANGE(8); unsigned r; switch (n) { case 0: r = 0; break; case 1: case 2: r = 1; break; case 3: r = 2; break; default: r = fib(n); }
  static const unsigned F[8] = {0, 1, 1, 2, 3, 5, 8, 13}; vs_check(r == F[n], 1); }
