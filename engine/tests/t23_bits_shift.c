// EXPECT: ok
#include "common.h"
/* bit container on an uninitialised word: bits 0 and 1 are set, then bit 1 is tested through a shift (std::vector<bool>
   after resize + operator[] as clang -O1 emits it); the branch does not depend on the uninitialised bits */
void harness(void) { unsigned long* w = malloc(8); unsigned long b0 = BIT(), b1 = BIT();
  *w = (*w & ~1ul) | b0; *w = (*w & ~2ul) | (b1 << 1);
  unsigned cnt = 0; for (unsigned i = 0; i < 2; ++i) if ((*w >> i) & 1) ++cnt;
  unsigned long* v = malloc(cnt == 2 ? 24 : 16); v[0] = cnt; vs_check(v[0] == b0 + b1, 1);
  vs_check(((*w << 62) >> 63) == b1, 2); free(v); free(w); }
