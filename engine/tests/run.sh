#!/bin/sh
# engine regression tests: tiny C programs with known verdicts (run by the C20 check before anything else)
here=$(cd "$(dirname "$0")" && pwd); eng="$here/../vsymex/vsymex"; tmp=$(mktemp -d); fail=0; n=0
for f in "$here"/t*.c; do
  n=$((n+1)); b=$(basename "$f" .c); exp=$(sed -n 's,^// EXPECT: ,,p' "$f" | head -1)
  clang-14 -O1 -g -I"$here" -emit-llvm -c "$f" -o "$tmp/$b.bc" 2>"$tmp/$b.err" || { echo "FAIL $b: does not compile"; cat "$tmp/$b.err"; fail=1; continue; }
  flags=$(sed -n 's,^// FLAGS: ,,p' "$f" | head -1)
  out=$("$eng" "$tmp/$b.bc" --time-limit 120 --path-limit 2000000 $flags 2>&1 | grep '^VSYMEX-' | head -1)
  case "$exp" in
    ok) case "$out" in VSYMEX-OK*) ;; *) echo "FAIL $b: expected ok, got: $out"; fail=1;; esac;;
    violation\ *) k=${exp#violation }; case "$out" in VSYMEX-VIOLATION\ kind=$k*) ;; *) echo "FAIL $b: expected violation kind=$k, got: $out"; fail=1;; esac;;
    *) echo "FAIL $b: no EXPECT line"; fail=1;;
  esac
done
rm -rf "$tmp"
[ $fail = 0 ] && echo "engine tests: $n passed"
exit $fail
