// EXPECT: ok
#include "common.h"
void harness(void) { int a = BIT(); vs_assume(a); vs_assume(!a); vs_reach(); }
