// EXPECT: violation double-free
#include "common.h"
char* g_p;
void harness(void) { g_p = malloc(4); char* p = g_p; if (BIT()) free(p); if (BIT()) free(g_p); }
