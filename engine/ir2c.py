#!/usr/bin/env python3
"""Prototype LLVM-14 textual IR -> C translator (typed pointers), for feeding CBMC.
Feasibility probe only."""
import re, sys, hashlib

TOK = re.compile(r'''
   \s+
 | (?P<str>c"(?:[^"\\]|\\[0-9A-Fa-f]{2}|\\\\)*")
 | (?P<id>[%@](?:"(?:[^"\\]|\\.)*"|[-a-zA-Z$._0-9]+))
 | (?P<meta>![-a-zA-Z$._0-9]*)
 | (?P<num>-?[0-9]+\.[0-9]+(?:e[-+]?[0-9]+)?|0x[0-9A-Fa-f]+|-?[0-9]+)
 | (?P<attrgrp>\#[0-9]+)
 | (?P<qstr>"(?:[^"\\]|\\.)*")
 | (?P<dots>\.\.\.)
 | (?P<word>[a-zA-Z_][a-zA-Z_0-9.]*)
 | (?P<p>[(){}\[\]<>,=*:|])
''', re.X)

def tokenize(s):
    out = []
    pos = 0
    n = len(s)
    while pos < n:
        m = TOK.match(s, pos)
        if not m:
            raise SyntaxError("tok @%d: %r" % (pos, s[pos:pos+40]))
        pos = m.end()
        k = m.lastgroup
        if k is None:
            continue
        if k == 'meta':
            # drop trailing metadata: remove preceding comma
            if out and out[-1] == ',':
                out.pop()
            break
        out.append(m.group(k))
    return out

PARAM_ATTRS = {'noundef','nonnull','nocapture','readonly','writeonly','noalias','signext','zeroext',
  'returned','inreg','immarg','nofree','nest','readnone','swiftself','swifterror','nosync'}
PARAM_ATTRS_ARG = {'align','dereferenceable','dereferenceable_or_null'}
PARAM_ATTRS_TY = {'sret','byval','byref','inalloca','preallocated','elementtype'}

class T:  # type constructors as tuples
    pass

class P:
    def __init__(self, toks):
        self.t = toks; self.i = 0
    def peek(self, k=0):
        return self.t[self.i+k] if self.i+k < len(self.t) else None
    def next(self):
        x = self.t[self.i]; self.i += 1; return x
    def eat(self, x):
        if self.peek() == x:
            self.i += 1; return True
        return False
    def expect(self, x):
        y = self.next()
        if y != x:
            raise SyntaxError("expected %r got %r in %r" % (x, y, ' '.join(self.t[max(0,self.i-8):self.i+8])))
    def done(self):
        return self.i >= len(self.t)

    def ty(self):
        t = self.peek()
        if t == 'void': self.next(); base = ('void',)
        elif t in ('float','double'): self.next(); base = (t,)
        elif t == 'opaque': self.next(); base = ('opaque',)
        elif t in ('label','metadata','token'): self.next(); base = (t,)
        elif re.fullmatch(r'i[0-9]+', t or ''): self.next(); base = ('int', int(t[1:]))
        elif t and t[0] == '%': self.next(); base = ('named', t[1:])
        elif t == '{':
            self.next(); elems = []
            if not self.eat('}'):
                while True:
                    elems.append(self.ty())
                    if self.eat('}'): break
                    self.expect(',')
            base = ('lit', False, tuple(elems))
        elif t == '<':
            self.next()
            if self.peek() == '{':
                self.next(); elems = []
                if not self.eat('}'):
                    while True:
                        elems.append(self.ty())
                        if self.eat('}'): break
                        self.expect(',')
                self.expect('>')
                base = ('lit', True, tuple(elems))
            else:
                n = int(self.next()); self.expect('x'); e = self.ty(); self.expect('>')
                base = ('vec', n, e)
        elif t == '[':
            self.next(); n = int(self.next()); self.expect('x'); e = self.ty(); self.expect(']')
            base = ('arr', n, e)
        else:
            raise SyntaxError("type? %r in %r" % (t, ' '.join(self.t[max(0,self.i-5):self.i+8])))
        while True:
            if self.peek() == '*':
                self.next(); base = ('ptr', base)
            elif self.peek() == '(':
                # function type
                self.next(); args = []; va = False
                if not self.eat(')'):
                    while True:
                        if self.peek() == '...':
                            self.next(); va = True
                        else:
                            args.append(self.ty())
                        if self.eat(')'): break
                        self.expect(',')
                base = ('func', base, tuple(args), va)
            elif self.peek() == 'addrspace':
                raise SyntaxError("addrspace")
            else:
                break
        return base

    def skip_param_attrs(self):
        info = {}
        while True:
            t = self.peek()
            if t in PARAM_ATTRS: self.next()
            elif t in PARAM_ATTRS_ARG:
                self.next()
                if self.eat('('):
                    self.next(); self.expect(')')
                else:
                    self.next()
            elif t in PARAM_ATTRS_TY:
                self.next(); self.expect('('); ty = self.ty(); self.expect(')')
                info[t] = ty
            else:
                break
        return info

def is_type_start(tok):
    return tok in ('void','float','double','{','<','[') or (tok and (tok[0]=='%' or re.fullmatch(r'i[0-9]+', tok)))

# ---------------------------------------------------------------------------
class Module:
    def __init__(self):
        self.named = {}      # name -> type tuple ('lit',..) or ('opaque',)
        self.globals = {}    # name -> dict
        self.funcs = {}      # name -> dict(ret, params, blocks or None)
        self.order = []
        self.ctors = []

class Translator:
    def __init__(self, text):
        self.m = Module()
        self.cnames = {}
        self.used_c = set()
        self.typedefs = []       # (kind, cname, payload)
        self.tcache = {}
        self.lit_structs = {}
        self.aliases = {}
        self.parse(text)
        self.collect_addr_taken()

    # ---------------- parsing -----------------
    def parse(self, text):
        lines = text.split('\n')
        i = 0
        cur = None
        while i < len(lines):
            ln = lines[i]; i += 1
            s = ln.strip()
            if not s or s.startswith(';') or s.startswith('source_filename') or s.startswith('target ') \
               or s.startswith('attributes ') or s.startswith('!') or s.startswith('$') or s.startswith('module asm'):
                continue
            if cur is not None:
                if s == '}':
                    cur = None; continue
                m = re.match(r'^([-a-zA-Z$._0-9]+|"[^"]*"):', s)
                if m:
                    lab = m.group(1).strip('"')
                    cur['blocks'].append((lab, []))
                    continue
                if not cur['blocks']:
                    cur['blocks'].append(('%entry_implicit', []))
                cur['blocks'][-1][1].append(tokenize(s))
                continue
            if s[0] == '%':
                toks = tokenize(s)
                name = toks[0][1:]
                p = P(toks); p.next(); p.expect('='); p.expect('type')
                self.m.named[name] = p.ty()
                continue
            if s[0] == '@':
                self.parse_global(s); continue
            if s.startswith('declare'):
                self.parse_fn_header(tokenize(s), False); continue
            if s.startswith('define'):
                cur = self.parse_fn_header(tokenize(s), True); continue
            raise SyntaxError("top-level? " + s[:100])

    LINK = {'private','internal','available_externally','linkonce','weak','common','appending','extern_weak',
            'linkonce_odr','weak_odr','external','dso_local','dso_preemptable','default','hidden','protected',
            'unnamed_addr','local_unnamed_addr','thread_local','externally_initialized','fastcc','ccc','coldcc',
            'noundef','nonnull','noalias','zeroext','signext'}

    def parse_global(self, s):
        toks = tokenize(s)
        p = P(toks)
        name = p.next()[1:]; p.expect('=')
        ext = False
        while p.peek() in self.LINK:
            if p.peek() in ('external','extern_weak'): ext = True
            p.next()
        kind = p.next()
        if kind == 'alias':
            ty = p.ty(); p.expect(','); pty = p.ty(); tgt = self.const(p, pty)
            while tgt[0] == 'cast': tgt = tgt[3]
            assert tgt[0] == 'global', tgt
            self.aliases[name] = tgt[1]
            return
        assert kind in ('global','constant'), s[:80]
        ty = p.ty()
        init = None
        if not ext and not p.done() and p.peek() != ',':
            init = self.const(p, ty)
        self.m.globals[name] = dict(ty=ty, init=init, const=(kind=='constant'), ext=ext)
        self.m.order.append(('g', name))

    def parse_fn_header(self, toks, isdef):
        p = P(toks); p.next()
        while p.peek() in self.LINK: p.next()
        p.skip_param_attrs()
        # return type: parse type but stop before '@'
        ret = self.ty_until_at(p)
        name = p.next(); assert name[0] == '@', toks
        name = name[1:]
        p.expect('(')
        params = []; va = False
        if not p.eat(')'):
            while True:
                if p.peek() == '...':
                    p.next(); va = True
                else:
                    ty = p.ty(); info = p.skip_param_attrs()
                    pn = None
                    if p.peek() and p.peek()[0] == '%': pn = p.next()[1:]
                    params.append((ty, pn, info))
                if p.eat(')'): break
                p.expect(',')
        f = dict(ret=ret, params=params, va=va, blocks=[] if isdef else None, name=name)
        self.m.funcs[name] = f
        self.m.order.append(('f', name))
        return f

    def ty_until_at(self, p):
        # function return types never are function types directly followed by @ in practice
        t = p.peek()
        # parse a type but don't treat '(' specially -> our ty() handles '(' as fn type; header has '@name(' so safe
        return p.ty()

    def collect_addr_taken(self):
        self.addr_global = set(); self.addr_code = set()
        fn = self.m.funcs
        def walk(c):
            if not isinstance(c, tuple): return
            if c and c[0] == 'global' and c[1] in fn: self.addr_global.add(c[1])
            for x in c:
                if isinstance(x, tuple): walk(x)
                elif isinstance(x, list):
                    for y in x: walk(y)
        for g in self.m.globals.values():
            if g['init']: walk(g['init'])
        for f in fn.values():
            if f['blocks'] is None: continue
            for lab, ins in f['blocks']:
                for toks in ins:
                    iscall = 'call' in toks[:4]
                    for k, t in enumerate(toks):
                        if t[0] == '@' and t[1:] in fn:
                            if iscall and k + 1 < len(toks) and toks[k+1] == '(' and not any(x in ('bitcast',) for x in toks[max(0,k-6):k]) and self.is_callee_pos(toks, k):
                                continue
                            self.addr_code.add(t[1:])
    @staticmethod
    def is_callee_pos(toks, k):
        # callee token is the first @name after 'call' that is directly followed by '(' at paren depth 0
        depth = 0
        ci = toks.index('call')
        for j in range(ci + 1, k):
            if toks[j] in '([{': depth += 1
            elif toks[j] in ')]}': depth -= 1
        return depth == 0
    def erase(self, ty):
        if ty[0] == 'ptr': return ('ptr',)
        return ty
    def fn_types(self, f):
        ex = (f['ret'], tuple(t for t, _, _ in f['params']), f['va'])
        er = (self.erase(f['ret']), tuple(self.erase(t) for t, _, _ in f['params']), f['va'])
        return ex, er

    # constants ------------------------------------------------------------
    def const(self, p, ty):
        t = p.peek()
        if t in ('zeroinitializer',): p.next(); return ('zero',)
        if t in ('undef','poison'): p.next(); return ('undef',)
        if t == 'null': p.next(); return ('null',)
        if t == 'true': p.next(); return ('int', 1)
        if t == 'false': p.next(); return ('int', 0)
        if t == 'none': p.next(); return ('zero',)
        if re.fullmatch(r'-?[0-9]+', t):
            p.next(); return ('int', int(t))
        if re.fullmatch(r'-?[0-9]+\.[0-9]+(e[-+]?[0-9]+)?|0x[0-9A-Fa-f]+', t):
            p.next(); return ('fp', t)
        if t[0] == '@': p.next(); return ('global', t[1:])
        if t[0] == '%': p.next(); return ('local', t[1:])
        if t.startswith('c"'):
            p.next(); return ('cstr', self.decode_cstr(t[2:-1]))
        if t in ('{', '[', '<'):
            packed = False
            if t == '<':
                p.next()
                if p.peek() == '{': packed = True; t = '{'
                else: raise SyntaxError("vector const")
            close = {'{':'}', '[':']'}[t]
            p.next(); elems = []
            if not p.eat(close):
                while True:
                    ety = p.ty(); elems.append((ety, self.const(p, ety)))
                    if p.eat(close): break
                    p.expect(',')
            if packed: p.expect('>')
            return ('agg', elems)
        if t == 'getelementptr':
            p.next(); p.eat('inbounds'); p.expect('(')
            bty = p.ty(); p.expect(',')
            pty = p.ty(); base = self.const(p, pty)
            idx = []
            while p.eat(','):
                p.eat('inrange')
                ity = p.ty(); idx.append((ity, self.const(p, ity)))
            p.expect(')')
            return ('gep', bty, pty, base, idx)
        if t in ('bitcast','ptrtoint','inttoptr','trunc','zext','sext','addrspacecast'):
            p.next(); p.expect('(')
            fty = p.ty(); v = self.const(p, fty); p.expect('to'); tty = p.ty(); p.expect(')')
            return ('cast', t, fty, v, tty)
        if t in ('add','sub','mul','and','or','xor','shl','lshr','ashr'):
            p.next()
            while p.peek() in ('nsw','nuw','exact'): p.next()
            p.expect('(')
            t1 = p.ty(); a = self.const(p, t1); p.expect(','); t2 = p.ty(); b = self.const(p, t2); p.expect(')')
            return ('binop', t, t1, a, b)
        if t == 'icmp':
            p.next(); pred = p.next(); p.expect('(')
            t1 = p.ty(); a = self.const(p, t1); p.expect(','); t2 = p.ty(); b = self.const(p, t2); p.expect(')')
            return ('icmpc', pred, t1, a, b)
        if t == 'select':
            p.next(); p.expect('(')
            t0 = p.ty(); c = self.const(p, t0); p.expect(',')
            t1 = p.ty(); a = self.const(p, t1); p.expect(','); t2 = p.ty(); b = self.const(p, t2); p.expect(')')
            return ('selectc', c, t1, a, b)
        raise SyntaxError("const? %r ctx %r" % (t, ' '.join(p.t[max(0,p.i-6):p.i+6])))

    @staticmethod
    def decode_cstr(s):
        out = bytearray(); i = 0
        while i < len(s):
            if s[i] == '\\':
                if s[i+1] == '\\': out.append(92); i += 2
                else: out.append(int(s[i+1:i+3], 16)); i += 3
            else:
                out.append(ord(s[i])); i += 1
        return bytes(out)

    # ---------------- C names & types -----------------
    LIBC = {'strlen','strcmp','memcmp','bcmp','memchr','strncmp','malloc','free','memcpy','memmove','memset','abort','exit','calloc','realloc'}
    def cname(self, kind, name):
        if kind == 'G':
            while name in self.aliases: name = self.aliases[name]
            if name in self.LIBC: return 'vrt_' + name
        key = (kind, name)
        if key in self.cnames: return self.cnames[key]
        base = re.sub(r'[^A-Za-z0-9_]', '_', name)
        if kind == 'S': base = 'S_' + base
        elif kind == 'L': base = 'v_' + base
        elif kind == 'B': base = 'L_' + base
        elif kind == 'G':
            if not re.fullmatch(r'[A-Za-z_][A-Za-z0-9_]*', name): base = 'g_' + base
        if len(base) > 200:
            base = base[:150] + '_' + hashlib.md5(name.encode()).hexdigest()[:10]
        c = base; k = 1
        while (kind[0] in 'SG' and c in self.used_c):
            k += 1; c = '%s_%d' % (base, k)
        if kind[0] in 'SG': self.used_c.add(c)
        self.cnames[key] = c
        return c

    def resolve(self, ty):
        while ty[0] == 'named' and False:
            ty = self.m.named[ty[1]]
        return ty

    def ctype(self, ty):
        """C type name (simple identifier-like string usable in 'T x;')"""
        if ty in self.tcache: return self.tcache[ty]
        k = ty[0]
        if k == 'void': r = 'void'
        elif k == 'int':
            n = ty[1]
            if n == 1: r = 'u1'
            elif n <= 8: r = 'uint8_t'
            elif n <= 16: r = 'uint16_t'
            elif n <= 32: r = 'uint32_t'
            elif n <= 64: r = 'uint64_t'
            elif n <= 128: r = 'unsigned __int128'
            else: raise NotImplementedError(ty)
        elif k == 'float': r = 'float'
        elif k == 'double': r = 'double'
        elif k == 'named':
            r = 'struct ' + self.cname('S', ty[1])
        elif k == 'lit':
            key = ty
            if key not in self.lit_structs:
                nm = 'Lit%d' % len(self.lit_structs)
                self.lit_structs[key] = nm
            r = 'struct ' + self.lit_structs[key]
        elif k == 'ptr':
            e = ty[1]
            if e[0] == 'func':
                nm = 'FP%d' % len(self.typedefs)
                self.tcache[ty] = nm
                ret = self.ctype(e[1]); args = [self.ctype(a) for a in e[2]]
                if e[3]: args.append('...')
                if not args: args = ['void']
                self.typedefs.append(nm)
                return nm
            if e[0] == 'void' or e[0] == 'opaque': r = 'void*'
            elif e[0] == 'arr':
                r = self.ctype(e) + '*'
            else:
                r = self.ctype(e) + '*'
        elif k == 'arr':
            nm = 'AR%d' % len(self.typedefs)
            self.tcache[ty] = nm
            et = self.ctype(ty[2])
            self.typedefs.append(nm)
            return nm
        elif k == 'func':
            # bare function type: only appears behind pointers
            raise NotImplementedError("bare func type")
        elif k == 'opaque': r = 'void'
        else:
            raise NotImplementedError(ty)
        self.tcache[ty] = r
        return r

    def layout(self, ty):
        """(size, align) under the x86-64 data layout"""
        k = ty[0]
        if k == 'int':
            n = ty[1]; b = 1
            while b * 8 < n: b *= 2
            return b, min(b, 16) if b <= 8 else 16
        if k == 'ptr': return 8, 8
        if k == 'float': return 4, 4
        if k == 'double': return 8, 8
        if k == 'arr':
            s_, a_ = self.layout(ty[2]); return s_ * ty[1], a_
        if k in ('named', 'lit'):
            elems, packed = self.struct_elems(ty)
            if elems is None: raise NotImplementedError('opaque layout')
            off = 0; al = 1
            for e in elems:
                s_, a_ = self.layout(e)
                if packed: a_ = 1
                off = (off + a_ - 1) // a_ * a_
                off += s_; al = max(al, a_)
            off = (off + al - 1) // al * al
            return off, al
        raise NotImplementedError(ty)

    def struct_elems(self, ty):
        if ty[0] == 'named':
            d = self.m.named[ty[1]]
            if d[0] == 'opaque': return None, False
            return d[2], d[1]
        if ty[0] == 'lit': return ty[2], ty[1]
        raise TypeError(ty)

    # ---------------- emission -----------------
    def emit(self):
        out = []
        body = []
        # functions first (collect types lazily), then assemble
        protos = []
        for kind, name in self.m.order:
            if kind == 'f':
                f = self.m.funcs[name]
                if name.startswith('llvm.') or name.startswith('__CPROVER_'): continue
                protos.append(self.fn_sig(f) + ';')
        gdecls = []; gdefs = []
        for kind, name in self.m.order:
            if kind != 'g': continue
            g = self.m.globals[name]
            if name == 'llvm.global_ctors':
                for ety, ev in g['init'][1]:
                    fn = ev[1][1][1]
                    self.m.ctors.append(fn[1])
                continue
            if name.startswith('llvm.'): continue
            cn = self.cname('G', name)
            ct = self.ctype(g['ty'])
            if g['ext']:
                gdecls.append('extern %s %s;' % (ct, cn))
            else:
                gdecls.append('%s%s %s;' % ('static ' if False else '', ct, cn))
                gdefs.append((cn, ct, g))
        fbodies = []
        for kind, name in self.m.order:
            if kind == 'f' and self.m.funcs[name]['blocks'] is not None:
                fbodies.append(self.fn_body(self.m.funcs[name]))
        ginit = []
        for cn, ct, g in gdefs:
            if g['init'] is None or g['init'][0] in ('zero','undef'):
                continue
            ginit.append('%s %s = %s;' % (ct, cn, self.cinit(g['ty'], g['init'])))
        # struct definitions: need all structs reachable; iterate to fixpoint since ctype() may add
        sdefs = self.struct_defs()
        out.append('#include "rt_pre.h"')
        out += sdefs
        out += protos
        out += gdecls
        out += ginit
        out.append('#include "rt_post.h"')
        out.append('void __verif_global_init(void) {')
        for c in self.m.ctors:
            out.append('  %s();' % self.cname('G', c))
        out.append('}')
        out += fbodies
        return '\n'.join(out) + '\n'

    def struct_defs(self):
        fwd = []
        for n in self.m.named:
            fwd.append('struct %s;' % self.cname('S', n))
        defs = []
        done = set()
        def need(ty, byval):
            k = ty[0]
            if k == 'ptr':
                e = ty[1]
                if e[0] == 'func':
                    if ty in done: return
                    done.add(ty)
                    for a in list(e[2]) + [e[1]]:
                        need(a, False)
                    nm = self.ctype(ty)
                    ret = self.ctype(e[1]); args = [self.ctype(a) for a in e[2]]
                    if e[3] and args: args.append('...')
                    if not args and not e[3]: args = ['void']
                    defs.append('typedef %s (*%s)(%s);' % (ret, nm, ', '.join(args)))
                elif e[0] == 'arr':
                    need(e, True)
                else:
                    need(e, False)
                return
            if k == 'arr':
                if ty in done: return
                done.add(ty)
                need(ty[2], True)
                nm = self.ctype(ty)
                defs.append('typedef %s %s[%d];' % (self.ctype(ty[2]), nm, ty[1]))
                return
            if k in ('named', 'lit'):
                if k == 'lit' and ('fwd', ty) not in done:
                    done.add(('fwd', ty)); defs.append(self.ctype(ty) + ';')
                if not byval:
                    # still make sure members get visited eventually
                    later.append(ty); return
                if ty in done: return
                done.add(ty)
                if k == 'named' and self.m.named[ty[1]][0] == 'opaque': return
                elems, packed = self.struct_elems(ty)
                for e in elems: need(e, True)
                nm = self.ctype(ty)
                fields = ''.join(' %s f%d;' % (self.ctype(e), i) for i, e in enumerate(elems))
                if not elems: fields = ' char empty_;' if False else ''
                defs.append('%s {%s }%s;' % (nm, fields, ' __attribute__((packed))' if packed else ''))
                return
            if k == 'func':
                for a in list(ty[2]) + [ty[1]]: need(a, False)
        later = []
        for t in list(self.tcache.keys()):
            need(t, t[0] in ('named','lit','arr'))
        while later:
            t = later.pop()
            if t not in done: need(t, True)
        return fwd + defs

    def fn_sig(self, f):
        ret = self.ctype(f['ret'])
        ps = []
        for i, (ty, pn, info) in enumerate(f['params']):
            ps.append('%s %s' % (self.ctype(ty), self.cname('L', pn) if pn else 'a%d' % i))
        if f['va'] and ps: ps.append('...')
        if not ps and not f['va']: ps = ['void']
        return '%s %s(%s)' % (ret, self.cname('G', f['name']), ', '.join(ps))

    # constant initialisers --------------------------------------------------
    def cinit(self, ty, c):
        k = c[0]
        if k == 'zero' or k == 'undef':
            if ty[0] in ('int','float','double'): return '0'
            if ty[0] == 'ptr': return '0'
            return '{0}'
        if k == 'agg':
            return '{' + ', '.join(self.cinit(et, ev) for et, ev in c[1]) + '}'
        if k == 'cstr':
            return '{' + ','.join(str(b) for b in c[1]) + '}'
        return self.cexpr_const(ty, c)

    def cexpr_const(self, ty, c):
        k = c[0]
        if k == 'int':
            if ty[0] == 'ptr': return '((%s)%d)' % (self.ctype(ty), c[1])
            n = ty[1]
            v = c[1] & ((1 << n) - 1)
            if n > 64:
                return '(((unsigned __int128)%dULL << 64) | %dULL)' % (v >> 64, v & ((1<<64)-1))
            return '%dU%s' % (v, 'LL' if n > 32 else '')
        if k == 'fp':
            s = c[1]
            if s.startswith('0x'):
                import struct
                d = struct.unpack('>d', bytes.fromhex(s[2:].rjust(16,'0')))[0]
                return repr(d)
            return s
        if k == 'null': return '((%s)0)' % self.ctype(ty)
        if k in ('zero','undef'):
            if ty[0] in ('int','ptr','float','double'): return '((%s)0)' % self.ctype(ty)
            return '(%s){0}' % self.ctype(ty)
        if k == 'global':
            nm = c[1]
            cn = self.cname('G', nm)
            return '(&%s)' % cn if nm in self.m.globals else '(&%s)' % cn if False else ('(%s)' % cn if nm in self.m.funcs else '(&%s)' % cn)
        if k == 'cast':
            _, op, fty, v, tty = c
            return '((%s)%s)' % (self.ctype(tty), self.cexpr_const(fty, v))
        if k == 'gep':
            _, bty, pty, base, idx = c
            return self.gep_expr(bty, self.cexpr_const(pty, base), [(ity, ('c', self.cexpr_const(ity, iv), iv)) for ity, iv in idx])
        if k == 'binop':
            _, op, t1, a, b = c
            cop = {'add':'+','sub':'-','mul':'*','and':'&','or':'|','xor':'^','shl':'<<','lshr':'>>'}[op]
            return '((%s)(%s %s %s))' % (self.ctype(t1), self.cexpr_const(t1, a), cop, self.cexpr_const(t1, b))
        if k == 'agg':
            return '(%s)%s' % (self.ctype(ty), self.cinit(ty, c))
        if k == 'icmpc':
            _, pred, t1, a, b = c
            return self.icmp_expr(pred, t1, self.cexpr_const(t1, a), self.cexpr_const(t1, b))
        raise NotImplementedError(c)

    def gep_expr(self, bty, base, idx):
        """idx: list of (type, ('c', cexpr, constval) or ('v', cexpr))"""
        # first index: pointer arithmetic on base
        first = idx[0][1]
        e = base
        cur = bty
        fz = first[0] == 'c' and first[2] == ('int', 0)
        if len(idx) == 1:
            return '(%s + (int64_t)%s)' % (e, first[1]) if not fz else e
        if fz:
            acc = '(*%s)' % e
        else:
            acc = '%s[(int64_t)%s]' % (e, first[1])
        for ity, iv in idx[1:]:
            if cur[0] in ('named','lit'):
                elems, _ = self.struct_elems(cur)
                assert iv[0] == 'c' and iv[2][0] == 'int', "struct index must be const"
                n = iv[2][1]
                acc = '%s.f%d' % (acc, n)
                cur = elems[n]
            elif cur[0] == 'arr':
                acc = '%s[(int64_t)%s]' % (acc, iv[1])
                cur = cur[2]
            else:
                raise NotImplementedError(('gep into', cur))
        return '(&%s)' % acc

    def icmp_expr(self, pred, ty, a, b):
        ops = {'eq':'==','ne':'!=','ugt':'>','uge':'>=','ult':'<','ule':'<=','sgt':'>','sge':'>=','slt':'<','sle':'<='}
        if pred[0] == 's' and ty[0] == 'int':
            st = self.signed_t(ty)
            return '((u1)((%s)%s %s (%s)%s))' % (st, a, ops[pred], st, b)
        if ty[0] == 'ptr' and pred not in ('eq','ne'):
            return '((u1)((uintptr_t)%s %s (uintptr_t)%s))' % (a, ops[pred], b)
        return '((u1)(%s %s %s))' % (a, ops[pred], b)

    def signed_t(self, ty):
        n = ty[1]
        if n == 1: return 'int8_t'
        for w in (8,16,32,64):
            if n <= w:
                assert n == w, "odd signed width %d" % n
                return 'int%d_t' % w
        return '__int128'

    # ---------------- function bodies -----------------
    def fn_body(self, f):
        self.ltypes = {}
        if not hasattr(self, 'ncands'): self.ncands = []
        for ty, pn, info in f['params']:
            if pn: self.ltypes[pn] = ty
        lines = []
        decls = {}
        allocas = []
        blocks = f['blocks']
        # pass 1: result types
        insts = {}
        parsed = []
        for lab, ins in blocks:
            pl = []
            for toks in ins:
                try:
                    pl.append(self.parse_inst(toks))
                except Exception as e:
                    sys.stderr.write("INST FAIL: %s\n" % ' '.join(toks)[:400]); raise
            parsed.append((lab, pl))
        # collect types of defs
        for lab, pl in parsed:
            for I in pl:
                if I.get('dst'):
                    self.ltypes[I['dst']] = I['ty']
        # typed allocation hints: result of operator new / malloc -> first pointer type it is bitcast to
        self.alloc_hint = {}
        for lab, pl in parsed:
            for I in pl:
                if I['op'] == 'bitcast' and I['cast'][1][0] == 'local' and I['ty'][0] == 'ptr' and I['ty'][1][0] in ('named', 'lit', 'ptr', 'int') and I['ty'][1] != ('int', 8):
                    self.alloc_hint.setdefault(I['cast'][1][1], I['ty'][1])
        # phi map
        phis = {}
        for lab, pl in parsed:
            phis[lab] = [I for I in pl if I['op'] == 'phi']
        out = [self.fn_sig(f) + ' {']
        for name, ty in self.ltypes.items():
            if any(name == pn for _, pn, _ in f['params']): continue
            if ty[0] == 'void': continue
            out.append('  %s %s;' % (self.ctype(ty), self.cname('L', name)))
        for lab, pl in parsed:
            for I in pl:
                if I['op'] == 'alloca':
                    pp = I['p']; 
                    if ',' in pp.t and any(t.startswith('i64') or t.startswith('i32') for t in pp.t[pp.t.index(',')+1:pp.t.index(',')+2]):
                        raise NotImplementedError('dynamic alloca ' + ' '.join(pp.t))
                    out.append('  %s %s_st;' % (self.ctype(I['ty'][1]), self.cname('L', I['dst'])))
        for ty, pn, info in f['params']:
            if 'byval' in info:
                bt = self.ctype(info['byval'])
                out.append('  %s byval_%s = *%s; %s = &byval_%s;' % (bt, self.cname('L', pn), self.cname('L', pn), self.cname('L', pn), self.cname('L', pn)))
        self.curphis = phis
        for lab, pl in parsed:
            out.append(' %s: ;' % self.cname('B', lab))
            for I in pl:
                if I['op'] == 'phi': continue
                self.curlab = lab
                out += ['  ' + s for s in self.emit_inst(I, f)]
        out.append('}')
        return '\n'.join(out)

    def val(self, p, ty):
        """parse an operand of given type, return C expr"""
        c = self.m_const(p, ty)
        return c

    def m_const(self, p, ty):
        c = self.const(p, ty)
        return self.cval(ty, c)

    def cval(self, ty, c):
        if c[0] == 'local':
            return self.cname('L', c[1])
        return self.cexpr_const(ty, c)

    def parse_inst(self, toks):
        p = P(toks)
        I = {}
        if p.peek(1) == '=':
            I['dst'] = p.next()[1:]; p.next()
        op = p.next()
        while op in ('tail','musttail','notail'):
            op = p.next()
        I['op'] = op; I['p'] = p
        # determine result type cheaply
        save = p.i
        ty = ('void',)
        if op in ('add','sub','mul','udiv','sdiv','urem','srem','shl','lshr','ashr','and','or','xor','fadd','fsub','fmul','fdiv','frem'):
            while p.peek() in ('nsw','nuw','exact','fast','nnan','ninf','nsz','arcp','contract','afn','reassoc'): p.next()
            I['flags_end'] = p.i
            ty = p.ty()
        elif op in ('icmp','fcmp'):
            ty = ('int', 1)
        elif op == 'alloca':
            p.eat('inalloca'); aty = p.ty(); ty = ('ptr', aty)
        elif op == 'load':
            p.eat('atomic'); p.eat('volatile'); ty = p.ty()
        elif op == 'getelementptr':
            p.eat('inbounds'); bty = p.ty(); p.expect(',')
            pty = p.ty()
            # compute result type by walking
            # parse indices
            base = self.const(p, pty)
            idx = []
            while p.eat(','):
                ity = p.ty(); idx.append((ity, self.const(p, ity)))
            cur = bty
            for ity, iv in idx[1:]:
                if cur[0] in ('named','lit'):
                    elems, _ = self.struct_elems(cur); cur = elems[iv[1]]
                elif cur[0] == 'arr': cur = cur[2]
                else: raise NotImplementedError(cur)
            ty = ('ptr', cur)
            I['gep'] = (bty, pty, base, idx)
        elif op in ('bitcast','ptrtoint','inttoptr','trunc','zext','sext','fptoui','fptosi','uitofp','sitofp','fpext','fptrunc'):
            fty = p.ty(); v = self.const(p, fty); p.expect('to'); ty = p.ty()
            I['cast'] = (fty, v)
        elif op == 'select':
            cty = p.ty(); c = self.const(p, cty); p.expect(',')
            ty = p.ty(); a = self.const(p, ty); p.expect(','); t2 = p.ty(); b = self.const(p, t2)
            I['sel'] = (c, a, b)
        elif op == 'phi':
            ty = p.ty(); inc = []
            while True:
                p.expect('['); v = self.const(p, ty); p.expect(','); lab = p.next()[1:]; p.expect(']')
                inc.append((v, lab))
                if not p.eat(','): break
            I['inc'] = inc
        elif op == 'call':
            while p.peek() in self.LINK: p.next()
            p.skip_param_attrs()
            rty = p.ty()
            if rty[0] == 'ptr' and rty[1][0] == 'func' and False:
                pass
            fnty = None
            if rty[0] == 'func':
                fnty = rty; rty = rty[1]
            if p.peek() in ('bitcast', 'inttoptr'):
                callee = ('constexpr', self.const(p, ('ptr', ('void',))))
            else:
                callee = p.next()
            if isinstance(callee, str) and re.match(r'@llvm\.(experimental\.noalias|dbg\.)', callee):
                I['op'] = 'nop'; I['ty'] = ('void',); I['rest'] = save; return I
            p.expect('(')
            args = []
            if not p.eat(')'):
                while True:
                    aty = p.ty(); p.skip_param_attrs()
                    av = self.const(p, aty)
                    args.append((aty, av))
                    if p.eat(')'): break
                    p.expect(',')
            ty = rty
            I['call'] = (callee, args, fnty)
        elif op == 'extractvalue':
            aty = p.ty(); v = self.const(p, aty); idx = []
            while p.eat(','): idx.append(int(p.next()))
            cur = aty
            for n in idx:
                if cur[0] in ('named','lit'): cur = self.struct_elems(cur)[0][n]
                else: cur = cur[2]
            ty = cur; I['ev'] = (aty, v, idx)
        elif op == 'insertvalue':
            aty = p.ty(); v = self.const(p, aty); p.expect(','); ety = p.ty(); ev = self.const(p, ety); idx = []
            while p.eat(','): idx.append(int(p.next()))
            ty = aty; I['iv'] = (aty, v, ety, ev, idx)
        elif op == 'freeze':
            ty = p.ty(); I['fr'] = self.const(p, ty)
        elif op == 'fneg':
            ty = p.ty(); I['fr'] = self.const(p, ty)
        I['ty'] = ty
        I['rest'] = save
        return I

    def edge(self, frm, to):
        ph = self.curphis.get(to, [])
        s = []
        if ph:
            s.append('{')
            for k, I in enumerate(ph):
                v = [v for v, lab in I['inc'] if lab == frm]
                assert v, (frm, to)
                s.append(' %s pt%d = %s;' % (self.ctype(I['ty']), k, self.cval(I['ty'], v[0])))
            for k, I in enumerate(ph):
                s.append(' %s = pt%d;' % (self.cname('L', I['dst']), k))
            s.append(' goto %s; }' % self.cname('B', to))
        else:
            s.append('goto %s;' % self.cname('B', to))
        return ''.join(s)

    def emit_inst(self, I, f):
        op = I['op']; p = I['p']; p.i = I['rest']
        dst = self.cname('L', I['dst']) if I.get('dst') else None
        ty = I['ty']
        ct = self.ctype(ty) if ty[0] != 'void' else None
        if op in ('add','sub','mul','udiv','sdiv','urem','srem','shl','lshr','ashr','and','or','xor'):
            p.i = I['flags_end']
            t = p.ty(); a = self.m_const(p, t); p.expect(','); b = self.m_const(p, t)
            n = t[1]
            if op in ('sdiv','srem','ashr'):
                st = self.signed_t(t)
                cop = {'sdiv':'/','srem':'%','ashr':'>>'}[op]
                return ['%s = (%s)((%s)%s %s (%s)%s);' % (dst, ct, st, a, cop, st, b)]
            cop = {'add':'+','sub':'-','mul':'*','udiv':'/','urem':'%','shl':'<<','lshr':'>>','and':'&','or':'|','xor':'^'}[op]
            r = '(%s)(%s %s %s)' % (ct, a, cop, b)
            if n == 1: r = '(%s) & 1' % r
            return ['%s = %s;' % (dst, r)]
        if op in ('fadd','fsub','fmul','fdiv'):
            p.i = I['flags_end']
            t = p.ty(); a = self.m_const(p, t); p.expect(','); b = self.m_const(p, t)
            cop = {'fadd':'+','fsub':'-','fmul':'*','fdiv':'/'}[op]
            return ['%s = %s %s %s;' % (dst, a, cop, b)]
        if op == 'icmp':
            pred = p.next(); t = p.ty(); a = self.m_const(p, t); p.expect(','); b = self.m_const(p, t)
            return ['%s = %s;' % (dst, self.icmp_expr(pred, t, a, b))]
        if op == 'fcmp':
            while p.peek() in ('fast','nnan','ninf','nsz','arcp','contract','afn','reassoc'): p.next()
            pred = p.next(); t = p.ty(); a = self.m_const(p, t); p.expect(','); b = self.m_const(p, t)
            cop = {'oeq':'==','one':'!=','ogt':'>','oge':'>=','olt':'<','ole':'<=','ueq':'==','une':'!=','ugt':'>','uge':'>=','ult':'<','ule':'<='}[pred]
            return ['%s = (u1)(%s %s %s);' % (dst, a, cop, b)]
        if op == 'alloca':
            aty = ty[1]
            assert p.done() or True
            return ['%s = &%s_st;' % (dst, dst)]
        if op == 'load':
            p.eat('atomic'); p.eat('volatile'); t = p.ty(); p.expect(','); pt = p.ty(); a = self.m_const(p, pt)
            return ['%s = *%s;' % (dst, a)]
        if op == 'store':
            p.eat('atomic'); p.eat('volatile'); t = p.ty(); v = self.m_const(p, t); p.expect(','); pt = p.ty(); a = self.m_const(p, pt)
            return ['*%s = %s;' % (a, v)]
        if op == 'getelementptr':
            bty, pty, base, idx = I['gep']
            e = self.gep_expr(bty, self.cval(pty, base),
                [(ity, ('c', self.cval(ity, iv), iv) if iv[0] != 'local' else ('v', self.cval(ity, iv))) for ity, iv in idx])
            return ['%s = %s;' % (dst, e)]
        if op in ('bitcast','inttoptr','ptrtoint','trunc','zext'):
            fty, v = I['cast']
            e = self.cval(fty, v)
            if op == 'trunc' and ty[1] == 1: return ['%s = (u1)(%s & 1);' % (dst, e)]
            if op == 'ptrtoint': return ['%s = (%s)(uintptr_t)%s;' % (dst, ct, e)]
            if op == 'inttoptr': return ['%s = (%s)(uintptr_t)%s;' % (dst, ct, e)]
            if op == 'bitcast' and fty[0] != 'ptr':
                return ['{ %s tmpb = %s; memcpy(&%s, &tmpb, sizeof(%s)); }' % (self.ctype(fty), e, dst, dst)]
            return ['%s = (%s)%s;' % (dst, ct, e)]
        if op == 'sext':
            fty, v = I['cast']; e = self.cval(fty, v)
            if fty[1] == 1: return ['%s = (%s)(%s ? -1 : 0);' % (dst, ct, e)]
            return ['%s = (%s)(%s)(%s)%s;' % (dst, ct, self.signed_t(ty), self.signed_t(fty), e)]
        if op in ('uitofp','fpext','fptrunc','fptoui'):
            fty, v = I['cast']; return ['%s = (%s)%s;' % (dst, ct, self.cval(fty, v))]
        if op in ('sitofp',):
            fty, v = I['cast']; return ['%s = (%s)(%s)%s;' % (dst, ct, self.signed_t(fty), self.cval(fty, v))]
        if op == 'fptosi':
            fty, v = I['cast']; return ['%s = (%s)(%s)%s;' % (dst, ct, self.signed_t(ty), self.cval(fty, v))]
        if op == 'select':
            c, a, b = I['sel']
            return ['%s = %s ? %s : %s;' % (dst, self.cval(('int',1), c), self.cval(ty, a), self.cval(ty, b))]
        if op in ('freeze',):
            return ['%s = %s;' % (dst, self.cval(ty, I['fr']))]
        if op == 'fneg':
            return ['%s = -%s;' % (dst, self.cval(ty, I['fr']))]
        if op == 'br':
            if p.peek() == 'label':
                p.next(); to = p.next()[1:]
                return [self.edge(self.curlab, to)]
            t = p.ty(); c = self.m_const(p, t); p.expect(','); p.expect('label'); a = p.next()[1:]; p.expect(','); p.expect('label'); b = p.next()[1:]
            return ['if (%s) %s else %s' % (c, self.edge(self.curlab, a), self.edge(self.curlab, b))]
        if op == 'ret':
            t = p.ty()
            if t[0] == 'void': return ['return;']
            return ['return %s;' % self.m_const(p, t)]
        if op == 'unreachable':
            return ['__verif_unreachable();']
        if op == 'extractvalue':
            aty, v, idx = I['ev']
            return ['%s = %s%s;' % (dst, self.cval(aty, v), self.agg_path(aty, idx))]
        if op == 'insertvalue':
            aty, v, ety, ev, idx = I['iv']
            s = []
            if v[0] != 'undef':
                s.append('%s = %s;' % (dst, self.cval(aty, v)))
            s.append('%s%s = %s;' % (dst, self.agg_path(aty, idx), self.cval(ety, ev)))
            return s
        if op == 'call':
            callee, args, fnty = I['call']
            return self.emit_call(I, dst, ty, callee, args, fnty)
        if op in ('fence', 'nop'):
            return []
        raise NotImplementedError(op + ' :: ' + ' '.join(p.t))

    def agg_path(self, aty, idx):
        s = ''; cur = aty
        for n in idx:
            if cur[0] in ('named','lit'):
                s += '.f%d' % n; cur = self.struct_elems(cur)[0][n]
            else:
                s += '[%d]' % n; cur = cur[2]
        return s

    def emit_call(self, I, dst, ty, callee, args, fnty):
        a = [self.cval(t, v) for t, v in args]
        if callee[0] == 'constexpr':
            fpt = ('ptr', fnty if fnty else ('func', ty, tuple(t for t, v in args), False))
            c = callee[1]
            while c[0] == 'cast': c = c[3]
            call = '((%s)%s)(%s)' % (self.ctype(fpt), self.cexpr_const(('ptr', ('void',)), c), ', '.join(a))
        elif callee[0] == '@':
            name = callee[1:]
            if name.startswith('llvm.'):
                if re.match(r'llvm\.(lifetime|dbg|assume|experimental\.noalias|invariant|prefetch|donothing|stackprotector)', name): return []
                if name.startswith('llvm.memcpy'): return ['memcpy(%s, %s, %s);' % (a[0], a[1], a[2])]
                if name.startswith('llvm.memmove'): return ['memmove(%s, %s, %s);' % (a[0], a[1], a[2])]
                if name.startswith('llvm.memset'): return ['memset(%s, %s, %s);' % (a[0], a[1], a[2])]
                if name == 'llvm.trap': return ['__verif_trap();']
                if name.startswith('llvm.expect'): return ['%s = %s;' % (dst, a[0])]
                m = re.match(r'llvm\.(umax|umin|smax|smin)\.i(\d+)', name)
                if m:
                    o = m.group(1); t = args[0][0]
                    if o[0] == 's':
                        st = self.signed_t(t)
                        return ['%s = ((%s)%s %s (%s)%s) ? %s : %s;' % (dst, st, a[0], '>' if o == 'smax' else '<', st, a[1], a[0], a[1])]
                    return ['%s = (%s %s %s) ? %s : %s;' % (dst, a[0], '>' if o == 'umax' else '<', a[1], a[0], a[1])]
                m = re.match(r'llvm\.(umul|uadd|usub)\.with\.overflow\.i(\d+)', name)
                if m:
                    bi = {'umul':'mul','uadd':'add','usub':'sub'}[m.group(1)]
                    return ['{ %s r_; %s.f1 = (u1)__builtin_%s_overflow(%s, %s, &r_); %s.f0 = r_; }' % (self.ctype(args[0][0]), dst, bi, a[0], a[1], dst)]
                m = re.match(r'llvm\.(ctlz|cttz|ctpop)\.i(\d+)', name)
                if m:
                    return ['%s = __verif_%s%s(%s);' % (dst, m.group(1), m.group(2), a[0])]
                m = re.match(r'llvm\.(ceil|floor|sqrt|fabs|log|log2|exp)\.f(\d+)', name)
                if m:
                    return ['%s = __builtin_%s%s(%s);' % (dst, m.group(1), 'f' if m.group(2) == '32' else '', a[0])]
                m = re.match(r'llvm\.(bswap)\.i(\d+)', name)
                if m: return ['%s = __builtin_bswap%s(%s);' % (dst, m.group(2), a[0])]
                raise NotImplementedError(name)
            fn = self.cname('G', name)
            f = self.m.funcs.get(name)
            if name in ('_Znwm', '_Znam', 'malloc') and I.get('dst') in self.alloc_hint and args[0][1][0] == 'int':
                et = self.alloc_hint[I['dst']]
                try:
                    sz, _ = self.layout(et)
                    n = args[0][1][1]
                    if sz > 0 and n % sz == 0 and n >= sz:
                        self.ntyped = getattr(self, 'ntyped', 0) + 1
                        return ['%s = (uint8_t*)__verif_new(sizeof(%s) * %dULL); /* typed alloc, %d bytes */' % (dst, self.ctype(et), n // sz, n)]
                except NotImplementedError:
                    pass
            # cast args to declared param types where mismatch (bitcasted callee not handled here)
            call = '%s(%s)' % (fn, ', '.join(a))
        else:
            # indirect via local function pointer: explicit dispatch over candidate functions
            fp = self.cname('L', callee[1:])
            fpty = self.ltypes[callee[1:]]
            assert fpty[0] == 'ptr' and fpty[1][0] == 'func', fpty
            ex = (fpty[1][1], tuple(fpty[1][2]), fpty[1][3])
            er = (self.erase(ex[0]), tuple(self.erase(t) for t in ex[1]), ex[2])
            cands = []
            for name in sorted(self.addr_code | self.addr_global):
                f2 = self.m.funcs[name]
                ex2, er2 = self.fn_types(f2)
                if ex2 == ex:
                    cands.append((name, f2))
            def has_vptr(t, d=0):
                if d > 8 or t[0] not in ('named', 'lit'): return False
                el, _ = self.struct_elems(t)
                if not el: return False
                e0 = el[0]
                if e0[0] == 'ptr' and e0[1][0] == 'ptr' and e0[1][1][0] == 'func' and e0[1][1][3]: return True
                return has_vptr(e0, d + 1)
            virt = bool(ex[1]) and ex[1][0][0] == 'ptr' and has_vptr(ex[1][0][1])
            if not cands and virt:
              for name in sorted(self.addr_global):
                f2 = self.m.funcs[name]
                ex2, er2 = self.fn_types(f2)
                if er2 == er:
                    cands.append((name, f2))
            out = []
            for name, f2 in cands:
                cargs = []
                for (t, v), av, (pt, _, _) in zip(args, a, f2['params']):
                    cargs.append('(%s)%s' % (self.ctype(pt), av) if pt != t else av)
                c = '%s(%s)' % (self.cname('G', name), ', '.join(cargs))
                if dst and ty[0] != 'void':
                    c = '%s = %s%s' % (dst, '(%s)' % self.ctype(ty) if f2['ret'] != ty and ty[0] == 'ptr' else '', c)
                out.append('%sif ((void*)%s == (void*)%s) { %s; }' % ('else ' if out else '', fp, self.cname('G', name), c))
            out.append('%s{ __verif_bad_indirect(); }' % ('else ' if out else ''))
            self.ncands.append(len(cands))
            return out
        if dst and ty[0] != 'void':
            return ['%s = %s;' % (dst, call)]
        return [call + ';']

def main():
    src = open(sys.argv[1]).read()
    tr = Translator(src)
    c = tr.emit()
    open(sys.argv[2], 'w').write(c)
    ext = [n for n, f in tr.m.funcs.items() if f['blocks'] is None and not n.startswith('llvm.')]
    sys.stderr.write("externals: %d; indirect call sites: %d, candidates per site: %s\n" % (len(ext), len(tr.ncands), sorted(tr.ncands)))
    sys.stderr.write("typed allocations: %d\n" % getattr(tr, 'ntyped', 0))

if __name__ == '__main__':
    main()
