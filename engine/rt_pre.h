#include <stdint.h>
#include <stddef.h>
#include <string.h>
#include <stdlib.h>
typedef _Bool u1;
void __verif_unreachable(void);
void __verif_trap(void);
void __verif_stop(void);   /* path ends (exception thrown) */
#ifndef __CPROVER__
void __CPROVER_assume(uint32_t c);
#endif
void __verif_bad_indirect(void);
#ifdef __CPROVER__
#define __verif_new(sz) __verif_nonnull(malloc(sz))
static inline void* __verif_nonnull(void* p) { __CPROVER_assume(p != 0); return p; }
#else
#define __verif_new(sz) malloc(sz)
#endif
