/* models of externals; names must match generated ones */
#ifdef __CPROVER__
void __verif_stop(void) { __CPROVER_assume(0); }
void __verif_unreachable(void) { __CPROVER_assert(0, "reached LLVM unreachable"); __CPROVER_assume(0); }
void __verif_trap(void) { __CPROVER_assert(0, "llvm.trap"); __CPROVER_assume(0); }
void __verif_fail(void) { __CPROVER_assert(0, "PROPERTY"); }
#else
#include <stdio.h>
#include <setjmp.h>
extern jmp_buf __verif_jb; extern int __verif_failed;
void __verif_stop(void) { longjmp(__verif_jb, 1); }
void __verif_unreachable(void) { fprintf(stderr, "UNREACHABLE reached\n"); abort(); }
void __verif_trap(void) { fprintf(stderr, "TRAP\n"); abort(); }
void __verif_fail(void) { __verif_failed = 1; }
void __CPROVER_assume(uint32_t c) { if (!c) longjmp(__verif_jb, 2); }
#endif
uint64_t vrt_strlen(uint8_t* s) { return strlen((const char*)s); }
uint32_t vrt_strcmp(uint8_t* a, uint8_t* b) { return (uint32_t)strcmp((const char*)a, (const char*)b); }
uint32_t vrt_memcmp(uint8_t* a, uint8_t* b, uint64_t n) { return (uint32_t)memcmp(a, b, n); }
uint32_t vrt_bcmp(uint8_t* a, uint8_t* b, uint64_t n) { return (uint32_t)memcmp(a, b, n); }
uint8_t* vrt_malloc(uint64_t n) { return malloc(n); }
void vrt_free(uint8_t* p) { free(p); }
void __verif_global_init(void); void harness(void);
void __verif_entry(void) { __verif_global_init(); harness(); }
#ifdef __CPROVER__
void __verif_bound_exceeded(void) { __CPROVER_assert(0, "BOUND: operational-model capacity exceeded"); __CPROVER_assume(0); }
#else
void __verif_bound_exceeded(void) { fprintf(stderr, "BOUND exceeded\n"); longjmp(__verif_jb, 3); }
#endif
#ifdef __CPROVER__
void __verif_bad_indirect(void) { __CPROVER_assert(0, "indirect call target outside candidate set"); __CPROVER_assume(0); }
#else
void __verif_bad_indirect(void) { fprintf(stderr, "bad indirect call\n"); abort(); }
#endif
