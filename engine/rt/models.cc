// Models of the few libstdc++.so / libc functions that have no IR (everything else is the real header code).
#include <map>
#include <list>
#include <unordered_map>
#include <cstdlib>
#include <cstring>
#include <new>

namespace std {
typedef _Rb_tree_node_base* BP;
_Rb_tree_node_base* _Rb_tree_increment(_Rb_tree_node_base* x) throw () {
  if (x->_M_right != 0) { x = x->_M_right; while (x->_M_left != 0) x = x->_M_left; }
  else { BP y = x->_M_parent; while (x == y->_M_right) { x = y; y = y->_M_parent; } if (x->_M_right != y) x = y; }
  return x;
}
const _Rb_tree_node_base* _Rb_tree_increment(const _Rb_tree_node_base* x) throw () { return _Rb_tree_increment(const_cast<BP>(x)); }
_Rb_tree_node_base* _Rb_tree_decrement(_Rb_tree_node_base* x) throw () {
  if (x->_M_color == _S_red && x->_M_parent->_M_parent == x) x = x->_M_right;
  else if (x->_M_left != 0) { BP y = x->_M_left; while (y->_M_right != 0) y = y->_M_right; x = y; }
  else { BP y = x->_M_parent; while (x == y->_M_left) { x = y; y = y->_M_parent; } x = y; }
  return x;
}
const _Rb_tree_node_base* _Rb_tree_decrement(const _Rb_tree_node_base* x) throw () { return _Rb_tree_decrement(const_cast<BP>(x)); }
// NOTE: no rebalancing: a plain (valid) binary search tree; observable behaviour (ordered iteration, lookup) is that of
// std::set/std::map; only the complexity guarantee is not modelled.  The root is kept black so that header detection in
// _Rb_tree_decrement works.
void _Rb_tree_insert_and_rebalance(const bool insert_left, BP x, BP p, _Rb_tree_node_base& header) throw () {
  x->_M_parent = p; x->_M_left = 0; x->_M_right = 0; x->_M_color = _S_red;
  if (insert_left) { p->_M_left = x; if (p == &header) { header._M_parent = x; header._M_right = x; } else if (p == header._M_left) header._M_left = x; }
  else { p->_M_right = x; if (p == header._M_right) header._M_right = x; }
  header._M_parent->_M_color = _S_black;
}
_Rb_tree_node_base* _Rb_tree_rebalance_for_erase(BP const z, _Rb_tree_node_base& header) throw () {
  BP& root = header._M_parent; BP& leftmost = header._M_left; BP& rightmost = header._M_right;
  BP y = z; BP x = 0;
  if (y->_M_left == 0) x = y->_M_right;
  else if (y->_M_right == 0) x = y->_M_left;
  else { y = y->_M_right; while (y->_M_left != 0) y = y->_M_left; x = y->_M_right; }
  if (y != z) {
    z->_M_left->_M_parent = y; y->_M_left = z->_M_left;
    if (y != z->_M_right) { if (x) x->_M_parent = y->_M_parent; y->_M_parent->_M_left = x; y->_M_right = z->_M_right; z->_M_right->_M_parent = y; }
    if (root == z) root = y; else if (z->_M_parent->_M_left == z) z->_M_parent->_M_left = y; else z->_M_parent->_M_right = y;
    y->_M_parent = z->_M_parent; y = z;
  } else {
    if (x) x->_M_parent = y->_M_parent;
    if (root == z) root = x; else if (z->_M_parent->_M_left == z) z->_M_parent->_M_left = x; else z->_M_parent->_M_right = x;
    if (leftmost == z) { if (z->_M_right == 0) leftmost = z->_M_parent; else { BP m = x; while (m->_M_left) m = m->_M_left; leftmost = m; } }
    if (rightmost == z) { if (z->_M_left == 0) rightmost = z->_M_parent; else { BP m = x; while (m->_M_right) m = m->_M_right; rightmost = m; } }
  }
  if (root) root->_M_color = _S_black;
  return y;
}
namespace __detail {
// libstdc++'s policy: smallest prime from its table >= requested size; growth factor 2, max load factor 1.
// The table prefix below is the one libstdc++ uses (hashtable-aux.cc); the tail is irrelevant at our bounds.
static const unsigned long vs_primes[] = { 2ul, 3ul, 5ul, 7ul, 11ul, 13ul, 17ul, 19ul, 23ul, 29ul, 31ul, 37ul, 41ul, 43ul, 47ul, 53ul, 59ul, 61ul, 67ul, 71ul, 73ul, 79ul, 83ul, 89ul, 97ul, 103ul, 109ul, 113ul, 127ul, 137ul, 139ul, 149ul, 157ul, 167ul, 179ul, 193ul, 199ul, 211ul, 227ul, 241ul, 257ul, 277ul, 293ul, 313ul, 337ul, 359ul, 383ul, 409ul, 439ul, 467ul, 503ul, 541ul, 577ul, 619ul, 661ul, 709ul, 761ul, 823ul, 887ul, 953ul, 1031ul, 1109ul, 1193ul, 1289ul, 1381ul, 1493ul, 1613ul, 1741ul, 1879ul, 2029ul, 2179ul, 2357ul, 2549ul, 2753ul, 2971ul, 3209ul, 3469ul, 3739ul, 4027ul, 4349ul, 4703ul, 5087ul, 5503ul, 5953ul, 6427ul, 6949ul, 7517ul, 8123ul, 8783ul, 9497ul, 10273ul, 11113ul, 12011ul, 12983ul, 14033ul, 15173ul, 16411ul, 17749ul, 19183ul, 20753ul, 22447ul, 24281ul, 26267ul, 28411ul, 30727ul, 33223ul, 35933ul, 38873ul, 42043ul, 45481ul, 49201ul, 53201ul, 57557ul, 62233ul, 67307ul, 72817ul, 78779ul, 85229ul, 92203ul, 99733ul };
// Integer-only formulation, exact for max_load_factor == 1 (libvata never changes it; anything else stops the path
// as unsupported): floor(x * 1.0) == x.
extern "C" void vs_unsupported_load_factor(void);
std::size_t _Prime_rehash_policy::_M_next_bkt(std::size_t n) const {
  static const unsigned char fast_bkt[] = { 2, 2, 2, 3, 5, 5, 7, 7, 11, 11, 11, 11, 13, 13 };
  if (_M_max_load_factor != 1.0f) vs_unsupported_load_factor();
  if (n < sizeof(fast_bkt)) {
    if (n == 0) return 1;
    _M_next_resize = fast_bkt[n];
    return fast_bkt[n];
  }
  const unsigned long* p = vs_primes + 6; const unsigned long* e = vs_primes + sizeof(vs_primes) / sizeof(vs_primes[0]) - 1;
  while (p != e && *p < n) ++p;
  _M_next_resize = *p;
  return *p;
}
std::pair<bool, std::size_t> _Prime_rehash_policy::_M_need_rehash(std::size_t n_bkt, std::size_t n_elt, std::size_t n_ins) const {
  if (_M_max_load_factor != 1.0f) vs_unsupported_load_factor();
  if (n_elt + n_ins > _M_next_resize) {
    std::size_t min_bkts = std::max<std::size_t>(n_elt + n_ins, _M_next_resize ? 0 : 11);
    if (min_bkts >= n_bkt)
      return std::make_pair(true, _M_next_bkt(std::max<std::size_t>(min_bkts + 1, n_bkt * 2)));
    _M_next_resize = n_bkt;
    return std::make_pair(false, (std::size_t)0);
  }
  return std::make_pair(false, (std::size_t)0);
}
void _List_node_base::_M_hook(_List_node_base* const position) noexcept { this->_M_next = position; this->_M_prev = position->_M_prev; position->_M_prev->_M_next = this; position->_M_prev = this; }
void _List_node_base::_M_unhook() noexcept { _List_node_base* const next_node = this->_M_next; _List_node_base* const prev_node = this->_M_prev; prev_node->_M_next = next_node; next_node->_M_prev = prev_node; }
void _List_node_base::_M_transfer(_List_node_base* const first, _List_node_base* const last) noexcept {
  if (this != last) { last->_M_prev->_M_next = this; first->_M_prev->_M_next = last; this->_M_prev->_M_next = first;
    _List_node_base* const tmp = this->_M_prev; this->_M_prev = last->_M_prev; last->_M_prev = first->_M_prev; first->_M_prev = tmp; }
}
void _List_node_base::swap(_List_node_base& x, _List_node_base& y) noexcept {
  if (x._M_next != &x) { if (y._M_next != &y) { std::swap(x._M_next, y._M_next); std::swap(x._M_prev, y._M_prev); x._M_next->_M_prev = x._M_prev->_M_next = &x; y._M_next->_M_prev = y._M_prev->_M_next = &y; }
    else { y._M_next = x._M_next; y._M_prev = x._M_prev; y._M_next->_M_prev = y._M_prev->_M_next = &y; x._M_next = x._M_prev = &x; } }
  else if (y._M_next != &y) { x._M_next = y._M_next; x._M_prev = y._M_prev; x._M_next->_M_prev = x._M_prev->_M_next = &x; y._M_next = y._M_prev = &y; }
}
void _List_node_base::_M_reverse() noexcept { _List_node_base* tmp = this; do { std::swap(tmp->_M_next, tmp->_M_prev); tmp = tmp->_M_prev; } while (tmp != this); }
}
}
extern "C" {
int __cxa_guard_acquire(long long* g) { return *(char*)g == 0; }
void __cxa_guard_release(long long* g) { *(char*)g = 1; }
void __cxa_guard_abort(long long*) {}
char __libc_single_threaded = 1;
}

// ---- libsupc++: dynamic_cast for classes with single, non-virtual, public inheritance at offset 0 (all libvata needs).
// The dynamic type is found through the object's vtable (type_info pointer at vptr[-1]); the base chain is walked
// through __si_class_type_info::__base_type.  Anything else (multiple / virtual inheritance) stops the path as unsupported.
extern "C" {
extern char _ZTVN10__cxxabiv120__si_class_type_infoE[];
extern char _ZTVN10__cxxabiv117__class_type_infoE[];
void vs_unsupported_dynamic_cast(void);
void* __dynamic_cast(const void* src, const void* src_type, const void* dst_type, long src2dst) {
  (void)src_type; (void)src2dst;
  const void* const* vptr = *(const void* const* const*)src;
  long offset_to_top = ((const long*)vptr)[-2];
  const char* most_derived = (const char*)src + offset_to_top;
  const char* ti = (const char*)vptr[-1];
  for (;;) {
    if (ti == (const char*)dst_type) return (void*)most_derived;
    const char* tivt = *(const char* const*)ti;
    if (tivt == _ZTVN10__cxxabiv120__si_class_type_infoE + 16) { ti = *(const char* const*)(ti + 16); continue; }
    if (tivt == _ZTVN10__cxxabiv117__class_type_infoE + 16) return 0;
    vs_unsupported_dynamic_cast(); return 0;
  }
}
}
