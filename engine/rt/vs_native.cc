// Native twin runtime: the same harness.cc, built with g++ against the real /repo sources and the real libstdc++,
// driven by a replay file (one decimal value per vs_nondet_* call).  Used (a) to validate the symbolic engine (same
// observations in concrete mode) and (b) to replay solver counterexamples before anything is reported.
#include "vs.h"
#include <cstdio>
#include <cstdlib>
#include <vector>
#include <exception>
static std::vector<unsigned long long> inputs; static size_t pos; static int allowThrow; static int failedId = -1;
static unsigned long long next() { unsigned long long v = pos < inputs.size() ? inputs[pos] : 0; ++pos; return v; }
extern "C" {
uint8_t vs_nondet_bool(void) { return next() & 1; }
uint8_t vs_nondet_u8(void) { return (uint8_t)next(); }
uint32_t vs_nondet_u32(void) { return (uint32_t)next(); }
void vs_assume(int c) { if (!c) { printf("ASSUME-FALSE\n"); fflush(stdout); _Exit(0); } }
void vs_check(int c, int id) { printf("CHECK %d %s\n", id, c ? "ok" : "FAIL"); if (!c) { fflush(stdout); _Exit(10); } }
void vs_observe(uint64_t v) { printf("OBS %llu\n", (unsigned long long)v); }
void vs_allow_throw(int on) { allowThrow = on; }
void vs_reach(void) { printf("REACH\n"); fflush(stdout); _Exit(12); }
void harness(void);
}
int main(int argc, char** argv) {
  if (argc > 1) { FILE* f = fopen(argv[1], "r"); if (!f) { perror(argv[1]); return 3; } unsigned long long v; while (fscanf(f, "%llu", &v) == 1) inputs.push_back(v); fclose(f); }
  try { harness(); }
  catch (std::exception& e) { printf("THROW\n"); fflush(stdout); if (!allowThrow) { fprintf(stderr, "exception: %s\n", e.what()); _Exit(11); } _Exit(0); }
  catch (...) { printf("THROW\n"); fflush(stdout); _Exit(allowThrow ? 0 : 11); }
  fflush(stdout);
  _Exit(0);   // skip static destructors on purpose: the engine does not run them either
}
