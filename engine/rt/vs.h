// harness vocabulary shared by the symbolic engine (vsymex) and the native twin
#pragma once
#include <stdint.h>
#ifdef __cplusplus
extern "C" {
#endif
uint8_t  vs_nondet_bool(void);    // fresh boolean input, returns 0 or 1 (solver variable / replay value)
uint8_t  vs_nondet_u8(void);      // fresh 8-bit input
uint32_t vs_nondet_u32(void);
void vs_assume(int cond);         // restrict the inputs
void vs_check(int cond, int id);  // the property (or an oracle-side sanity condition)
void vs_observe(uint64_t v);      // value compared between engine (concrete mode) and native twin
void vs_allow_throw(int on);      // on: a C++ exception silently ends the path; off (default): it is a violation
void vs_reach(void);              // vacuity witness: reported as violation kind=reach iff reachable
#ifdef __cplusplus
}
static inline bool vs_bit() { return vs_nondet_bool() != 0; }
// value in [0, n): built from ceil(log2 n) boolean inputs, so that every derived term stays a decision diagram
static inline unsigned vs_range(unsigned n) { unsigned v = 0; for (unsigned k = 1, b = 0; k < n; k <<= 1, ++b) v |= (unsigned)vs_nondet_bool() << b; vs_assume(v < n); return v; }
#endif
// CHECK(condition, id); wrap conditions containing top-level commas (template arguments) in parentheses
#ifdef VS_NO_PROPERTY   /* C20 runs: only the engine's memory-safety / UB obligations are checked */
#define CHECK(c, id) ((void)(c))
#else
#define CHECK(c, id) vs_check((c) ? 1 : 0, id)
#endif
