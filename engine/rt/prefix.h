// forced include for the IR build: make libstdc++ instantiate its templates in the TU (so that the engine sees
// their bodies instead of calls into libstdc++.so)
#include <bits/c++config.h>
#undef _GLIBCXX_EXTERN_TEMPLATE
#define _GLIBCXX_EXTERN_TEMPLATE 0
