// Stubs of iostream formatting for the engine build only (the native twin uses the real code): libvata converts numbers
// to and from text with  std::ostringstream oss; oss << n;  /  std::istringstream iss(s); iss >> result;  inside
// VATA::Util::Convert::ToString / FromString.  The stream classes end in libstdc++.so's locale machinery, which has no
// IR.  These explicit specialisations (strong definitions, they replace the implicit linkonce_odr instantiations at link
// time) give the same results for the "C" locale: decimal digits, bool as 1/0, operator>> semantics of num_get for int
// (leading blanks skipped, optional sign, at least one digit, trailing characters ignored, overflow = failure).
#include <string>
#include <stdexcept>
#include <vata/util/convert.hh>
namespace VATA { namespace Util {
static std::string vs_udec(unsigned long v, bool neg) {
  char buf[24]; int i = 23; buf[i] = 0;
  do { buf[--i] = (char)('0' + v % 10); v /= 10; } while (v);
  if (neg) buf[--i] = '-';
  return std::string(buf + i);
}
template <> std::string Convert::ToString<unsigned long>(const unsigned long& n) { return vs_udec(n, false); }
template <> std::string Convert::ToString<unsigned int>(const unsigned int& n) { return vs_udec(n, false); }
template <> std::string Convert::ToString<long>(const long& n) { return n < 0 ? vs_udec(0ul - (unsigned long)n, true) : vs_udec((unsigned long)n, false); }
template <> std::string Convert::ToString<int>(const int& n) { long l = n; return l < 0 ? vs_udec((unsigned long)(-l), true) : vs_udec((unsigned long)l, false); }
template <> std::string Convert::ToString<bool>(const bool& b) { return std::string(b ? "1" : "0"); }
template <> std::string Convert::ToString<std::string>(const std::string& s) { return s; }
static bool vs_parse_long(const std::string& s, long lo, long hi, long& out) {
  size_t i = 0, n = s.size();
  while (i < n && (s[i] == ' ' || (s[i] >= '\t' && s[i] <= '\r'))) ++i;
  bool neg = false;
  if (i < n && (s[i] == '+' || s[i] == '-')) { neg = s[i] == '-'; ++i; }
  if (i >= n || s[i] < '0' || s[i] > '9') return false;
  unsigned long v = 0; bool ovf = false;
  while (i < n && s[i] >= '0' && s[i] <= '9') { unsigned d = (unsigned)(s[i] - '0'); if (v > (0x7ffffffffffffffful - d) / 10) ovf = true; else v = v * 10 + d; ++i; }
  if (ovf) return false;
  long r = neg ? -(long)v : (long)v;
  if (r < lo || r > hi) return false;
  out = r; return true;
}
template <> int Convert::FromString<int>(const std::string& str) {
  long r; if (!vs_parse_long(str, -2147483647L - 1, 2147483647L, r)) throw std::invalid_argument(std::string("FromString: invalid argument")); return (int)r;
}
template <> unsigned Convert::FromString<unsigned>(const std::string& str) {
  long r; if (!vs_parse_long(str, -4294967295L, 4294967295L, r)) throw std::invalid_argument(std::string("FromString: invalid argument")); return (unsigned)r;
}
}}
