/* libc functions used by the code under test, as plain loops (compiled with -fno-builtin so they are not turned back into calls) */
#include <stddef.h>
size_t strlen(const char* s) { size_t n = 0; while (s[n]) ++n; return n; }
int memcmp(const void* a, const void* b, size_t n) { const unsigned char* x = (const unsigned char*)a; const unsigned char* y = (const unsigned char*)b; for (size_t i = 0; i < n; ++i) if (x[i] != y[i]) return x[i] < y[i] ? -1 : 1; return 0; }
int bcmp(const void* a, const void* b, size_t n) { return memcmp(a, b, n); }
int strcmp(const char* a, const char* b) { for (;; ++a, ++b) { unsigned char x = *a, y = *b; if (x != y) return x < y ? -1 : 1; if (!x) return 0; } }
void* memchr(const void* s, int c, size_t n) { const unsigned char* p = (const unsigned char*)s; for (size_t i = 0; i < n; ++i) if (p[i] == (unsigned char)c) return (void*)(p + i); return 0; }
/* <ctype.h> for the "C" locale */
int isspace(int c) { return c == ' ' || (c >= '\t' && c <= '\r'); }
int isblank(int c) { return c == ' ' || c == '\t'; }
int isdigit(int c) { return c >= '0' && c <= '9'; }
int isalpha(int c) { return (c >= 'a' && c <= 'z') || (c >= 'A' && c <= 'Z'); }
int isalnum(int c) { return isdigit(c) || isalpha(c); }
int isupper(int c) { return c >= 'A' && c <= 'Z'; }
int islower(int c) { return c >= 'a' && c <= 'z'; }
int ispunct(int c) { return c > ' ' && c < 127 && !isalnum(c); }
int isprint(int c) { return c >= ' ' && c < 127; }
int isxdigit(int c) { return isdigit(c) || (c >= 'a' && c <= 'f') || (c >= 'A' && c <= 'F'); }
int toupper(int c) { return (c >= 'a' && c <= 'z') ? c - 32 : c; }
int tolower(int c) { return (c >= 'A' && c <= 'Z') ? c + 32 : c; }
void* memmove(void* d, const void* s, size_t n);
