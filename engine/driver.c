#include <stdio.h>
#include <stdlib.h>
#include <setjmp.h>
#include <stdint.h>
jmp_buf __verif_jb; int __verif_failed;
void harness(void); void __verif_global_init(void);
static unsigned rs = 12345;
static int calls;
#ifndef NR
#define NR 3
#endif
uint8_t nondet_u8(void) { calls++; rs = rs * 1103515245u + 12345u; unsigned v = (rs >> 16); return calls <= 4*NR ? (v >> 4) % 3 : (v >> 4) % 2; }
int main(int argc, char** argv) {
  int n = argc > 1 ? atoi(argv[1]) : 1000; int ran = 0, fails = 0;
  __verif_global_init();
  for (int i = 0; i < n; ++i) {
    int r = setjmp(__verif_jb);
    if (r == 0) { __verif_failed = 0; calls = 0; harness(); ran++; if (__verif_failed) fails++; }
  }
  printf("ran=%d fails=%d of %d\n", ran, fails, n);
  return fails != 0;
}
