// Operational model shared by unordered_map / unordered_set: fixed-capacity slot array, linear search with key_equal,
// stable element addresses, insertion-slot iteration order.  The hash functor is never called.
#pragma once
#include "om_config.h"
#include <bits/stl_function.h>
#include <bits/stl_pair.h>
#include <bits/allocator.h>
#include <bits/functional_hash.h>
#include <bits/stl_iterator_base_types.h>
#include <bits/range_access.h>
#include <initializer_list>
#include <new>
namespace std {
template <class V> struct __om_slot { bool used; union U { V val; U() {} ~U() {} } u; V* v() { return &u.val; } const V* v() const { return &u.val; } };
template <class V, bool Const> struct __om_hiter {
  typedef V value_type; typedef typename conditional<Const, const V&, V&>::type reference; typedef typename conditional<Const, const V*, V*>::type pointer;
  typedef ptrdiff_t difference_type; typedef forward_iterator_tag iterator_category;
  __om_slot<V>* p; __om_slot<V>* e;
  __om_hiter() : p(0), e(0) {}
  __om_hiter(__om_slot<V>* p_, __om_slot<V>* e_) : p(p_), e(e_) { skip(); }
  __om_hiter(const __om_hiter<V, false>& o) : p(o.p), e(o.e) {}
  void skip() { while (p != e && !p->used) ++p; }
  reference operator*() const { return *p->v(); } pointer operator->() const { return p->v(); }
  __om_hiter& operator++() { ++p; skip(); return *this; } __om_hiter operator++(int) { __om_hiter t(*this); ++*this; return t; }
};
template <class V, bool A, bool B> bool operator==(const __om_hiter<V, A>& a, const __om_hiter<V, B>& b) { return a.p == b.p; }
template <class V, bool A, bool B> bool operator!=(const __om_hiter<V, A>& a, const __om_hiter<V, B>& b) { return a.p != b.p; }
template <class K, class V, class KeyOf, class E>
class __om_table {
public:
  typedef __om_slot<V> slot; typedef __om_hiter<V, false> iterator; typedef __om_hiter<V, true> const_iterator;
  slot* s_; size_t n_; E eq_;
  __om_table() : s_(0), n_(0), eq_() {}
  void need() { if (!s_) { s_ = static_cast<slot*>(::operator new(OM_CAP * sizeof(slot))); for (size_t i = 0; i < OM_CAP; ++i) s_[i].used = false; } }
  __om_table(const __om_table& o) : s_(0), n_(0), eq_(o.eq_) { copy_from(o); }
  __om_table(__om_table&& o) : s_(o.s_), n_(o.n_), eq_(o.eq_) { o.s_ = 0; o.n_ = 0; }
  void copy_from(const __om_table& o) { if (o.n_) { need(); for (size_t i = 0; i < OM_CAP; ++i) if (o.s_[i].used) { ::new (static_cast<void*>(s_[i].v())) V(*o.s_[i].v()); s_[i].used = true; } n_ = o.n_; } }
  ~__om_table() { clear(); if (s_) ::operator delete(s_); }
  __om_table& operator=(const __om_table& o) { if (this != &o) { clear(); copy_from(o); } return *this; }
  __om_table& operator=(__om_table&& o) { if (this != &o) { clear(); if (s_) ::operator delete(s_); s_ = o.s_; n_ = o.n_; o.s_ = 0; o.n_ = 0; } return *this; }
  void clear() { if (s_) for (size_t i = 0; i < OM_CAP; ++i) if (s_[i].used) { s_[i].v()->~V(); s_[i].used = false; } n_ = 0; }
  slot* endp() const { return s_ ? s_ + OM_CAP : 0; }
  iterator begin() { return iterator(s_, endp()); } iterator end() { return iterator(endp(), endp()); }
  const_iterator begin() const { return const_iterator(s_, endp()); } const_iterator end() const { return const_iterator(endp(), endp()); }
  slot* lookup(const K& k) const { if (s_) for (size_t i = 0; i < OM_CAP; ++i) if (s_[i].used && eq_(KeyOf()(*s_[i].v()), k)) return s_ + i; return 0; }
  iterator find(const K& k) { slot* p = lookup(k); return p ? iterator(p, endp()) : end(); }
  const_iterator find(const K& k) const { slot* p = lookup(k); return p ? const_iterator(p, endp()) : end(); }
  template <class... Args> std::pair<iterator, bool> emplace_key(const K& k, Args&&... a) {
    slot* p = lookup(k); if (p) return std::pair<iterator, bool>(iterator(p, endp()), false);
    need(); size_t i = 0; while (i < OM_CAP && s_[i].used) ++i; OM_BOUND(i < OM_CAP);
    ::new (static_cast<void*>(s_[i].v())) V(std::forward<Args>(a)...); s_[i].used = true; ++n_;
    return std::pair<iterator, bool>(iterator(s_ + i, endp()), true); }
  iterator erase(const_iterator it) { slot* p = it.p; p->v()->~V(); p->used = false; --n_; return iterator(p + 1, endp()); }
  size_t erase(const K& k) { slot* p = lookup(k); if (!p) return 0; p->v()->~V(); p->used = false; --n_; return 1; }
  void swap(__om_table& o) { slot* s = s_; s_ = o.s_; o.s_ = s; size_t n = n_; n_ = o.n_; o.n_ = n; }
};
}
