#pragma once
#include <cstddef>
#include <cstdlib>
#ifndef OM_CAP
#define OM_CAP 6
#endif
extern "C" void __verif_bound_exceeded(void);   // capacity of an operational model exceeded: inconclusive, not a violation
#define OM_BOUND(c) do { if (!(c)) __verif_bound_exceeded(); } while (0)
