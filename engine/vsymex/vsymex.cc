// vsymex: bounded symbolic executor for LLVM-14 IR with state merging at post-dominators and z3 as the
// deciding back end.  Built for /verif (libvata).  Every feasibility decision of a symbolic branch and every
// check (property assertion, memory safety, UB) that does not constant-fold is discharged by a solver query.
#include "term.h"
#include "solver.h"
#include "mem.h"

#include <llvm/IR/LLVMContext.h>
#include <llvm/IR/Module.h>
#include <llvm/IR/Function.h>
#include <llvm/IR/Instructions.h>
#include <llvm/IR/IntrinsicInst.h>
#include <llvm/IR/Constants.h>
#include <llvm/IR/DataLayout.h>
#include <llvm/IR/Dominators.h>
#include <llvm/IR/GetElementPtrTypeIterator.h>
#include <llvm/IR/CFG.h>
#include <llvm/IR/DebugInfoMetadata.h>
#include <llvm/IR/Operator.h>
#include <llvm/IRReader/IRReader.h>
#include <llvm/Support/SourceMgr.h>
#include <llvm/Support/raw_ostream.h>
#include <llvm/ADT/DenseMap.h>

#include <cxxabi.h>
#include <cmath>
#include <cstring>
#include <fstream>
#include <iostream>
#include <map>
#include <set>
#include <sstream>
#include <sys/resource.h>
#include <pthread.h>
#include <unistd.h>

using namespace llvm;
using namespace vs;

// ------------------------------------------------------------------------------------------------ options / stats
struct Options {
  std::string file, entry = "harness", inputsFile, outJson, replayOut;
  bool concrete = false;           // inputs from file, no symbolic values
  double timeLimit = 0;            // seconds
  uint64_t maxInstr = 0;
  unsigned maxDepth = 200000;
  unsigned maxAlts = 2048;
  unsigned maxEnum = 64;
  uint64_t pathLimit = 100000000;  // instructions (outside the harness sources) along one path before the path is reported as (probably) not terminating
  bool verbose = false;
  bool checkNsw = true;
  bool noMerge = false;
  bool traceCalls = false;
  std::map<size_t, uint64_t> fixed; size_t fixedSeen = 0; std::map<uint64_t, uint64_t> fixedVals;
  std::string shadowFile, traceOut, shadowInputs;
  bool noGC = false;
  bool reuse = false;              // --reuse-addresses: freed heap addresses are handed out again (LIFO per size class, like glibc tcache)
  double slow = 1e9; unsigned solverTimeoutMs = 20000;
} opt;

struct Stats {
  uint64_t reusedAddrs = 0, maxPath = 0, instrs = 0, forks = 0, merges = 0, deadPaths = 0, checksConst = 0, checksSolver = 0, calls = 0, maxDepth = 0;
  uint64_t feasPure = 0; uint64_t allocs = 0, objMerges = 0, taintChecks = 0, loads = 0, stores = 0, infeasiblePruned = 0, midForks = 0;
  std::set<std::string> functions;
  std::map<std::string, uint64_t> checkKinds;
} stats;

static std::chrono::steady_clock::time_point t_start;
static double elapsed() { return std::chrono::duration<double>(std::chrono::steady_clock::now() - t_start).count(); }

static std::string demangle(const std::string& s) {
  int st = 0; char* d = abi::__cxa_demangle(s.c_str(), nullptr, nullptr, &st);
  if (st == 0 && d) { std::string r(d); free(d); return r; } return s;
}

// ------------------------------------------------------------------------------------------------ engine state
struct FuncInfo {
  Function* F;
  DenseMap<const llvm::Value*, unsigned> index;    // args + instructions with results
  unsigned nvals = 0;
  DenseMap<const BasicBlock*, const BasicBlock*> ipdom;   // on the CFG restricted to blocks that can reach a return
  DenseMap<const BasicBlock*, bool> canReturn;
  std::unique_ptr<DominatorTree> DT;
  DenseMap<const BasicBlock*, std::vector<unsigned>> liveAt; // regs defined in blocks dominating the key block
  std::vector<const BasicBlock*> defBlock;         // per reg index (nullptr for args)
  bool countSteps = true;                          // false for code defined in the harness sources (oracles with long constant loops)
};

// every live State / Frame is linked into a global list: these are the roots of the garbage collector
template <class T> struct Registered {
  T* prevR; T* nextR; static T*& head() { static T* h = nullptr; return h; }
  void link() { prevR = nullptr; nextR = head(); if (nextR) nextR->prevR = static_cast<T*>(this); head() = static_cast<T*>(this); }
  void unlink() { if (prevR) prevR->nextR = nextR; else head() = nextR; if (nextR) nextR->prevR = prevR; }
  Registered() { link(); } Registered(const Registered&) { link(); } Registered(Registered&&) { link(); }
  Registered& operator=(const Registered&) { return *this; } Registered& operator=(Registered&&) { return *this; }
  ~Registered() { unlink(); }
};
// free lists of the heap model with address reuse: persistent LIFO lists per size class (shared tails between states)
struct FLNode { uint64_t addr; std::shared_ptr<const FLNode> next; };
typedef std::map<uint64_t, std::shared_ptr<const FLNode>> FreeLists;
struct State : Registered<State> {
  Node* pc = nullptr; PMap mem; bool allowThrow = false; uint64_t steps = 0;   // steps: instructions executed along the longest path this state stands for
  std::shared_ptr<const FreeLists> fl;   // only with --reuse-addresses
};
struct Frame : Registered<Frame> {
  FuncInfo* fi = nullptr; std::vector<vs::Value> regs; std::vector<uint32_t> allocas;
  const BasicBlock* cur = nullptr; const BasicBlock* pred = nullptr; BasicBlock::const_iterator ip;
  vs::Value ret; bool returned = false;
};

struct Abort { int code; std::string msg; };       // inconclusive / engine error
struct Violation { std::string kind, msg, where; ModelP model; };

static Terms tm;
static Solver* slv;
static std::unique_ptr<Module> M;
static const DataLayout* DL;
static DenseMap<const Function*, FuncInfo*> finfo;
static DenseMap<const GlobalValue*, uint32_t> globalObj;
static std::map<uint64_t, std::vector<uint32_t>> addrMap;   // base address -> object ids that were placed there (one, unless --reuse-addresses)
static const State* g_curState = nullptr;          // state of the instruction being executed (to pick the live object at a reused address)
static std::vector<uint64_t> objBase, objSize;     // by id (for address resolution even after erase)
static uint32_t nextObj = 1; static uint64_t nextAddr = 0x100000;
static std::vector<uint64_t> inputs; static size_t inputPos = 0;
static std::vector<std::pair<std::string, Node*>> inputVars;
static std::vector<std::string> observations;
static std::vector<std::string> callStack;
static std::unordered_map<std::string, const PtrVal*> ptrIntern;
static std::string curLoc;
static const Instruction* curInst = nullptr;

[[noreturn]] static void inconclusive(const std::string& m) { throw Abort{2, m}; }

static std::string locOf(const Instruction* I) {
  std::string s;
  if (I) {
    if (const DebugLoc& dl = I->getDebugLoc()) { s = (dl->getFilename() + ":" + std::to_string(dl.getLine())).str(); }
    s += " in " + demangle(I->getFunction()->getName().str());
  }
  return s;
}

// ------------------------------------------------------------------------------------------------ tracked heap values
static std::vector<PtrVal*> allPtrVals; static std::vector<AggVal*> allAggVals;
static PtrVal* newPtrVal() { PtrVal* p = new PtrVal; p->mark = false; allPtrVals.push_back(p); return p; }
static AggVal* newAggVal() { AggVal* a = new AggVal; a->mark = false; allAggVals.push_back(a); return a; }
static AggVal* newAggVal(const AggVal& o) { AggVal* a = new AggVal(o); a->mark = false; allAggVals.push_back(a); return a; }
// ------------------------------------------------------------------------------------------------ pointer helpers
static const PtrVal* mkPtr1(Node* g, uint32_t obj, Node* off) {
  if (Terms::isTrue(g) && Terms::isC(off)) {
    std::string key((const char*)&obj, 4); key.append((const char*)&off->c, 8);
    auto it = ptrIntern.find(key); if (it != ptrIntern.end()) return it->second;
    PtrVal* p = newPtrVal(); p->alts.push_back(PtrAlt{g, obj, off}); ptrIntern[key] = p; return p;
  }
  PtrVal* p = newPtrVal(); p->alts.push_back(PtrAlt{g, obj, off}); return p;
}
static const PtrVal* nullPtr() { return mkPtr1(tm.T, 0, tm.mkConst(64, 0)); }
static void addAlt(std::vector<PtrAlt>& v, Node* g, uint32_t obj, Node* off) {
  if (Terms::isFalse(g)) return;
  for (auto& a : v) if (a.obj == obj && a.off == off) { a.g = tm.mkOr(a.g, g); return; }
  v.push_back(PtrAlt{g, obj, off});
}
static const PtrVal* mkPtrV(std::vector<PtrAlt>& v) {
  if (v.empty()) return nullPtr();      // unreachable value
  if (v.size() == 1) return mkPtr1(v[0].g, v[0].obj, v[0].off);
  if (v.size() > opt.maxAlts) inconclusive("pointer alternative set exceeds --max-alts");
  PtrVal* p = newPtrVal(); p->alts = v; return p;
}
static const PtrVal* ptrAdd(const PtrVal* p, Node* d) {
  if (Terms::isC(d) && d->c == 0) return p;
  std::vector<PtrAlt> v; for (auto& a : p->alts) addAlt(v, a.g, a.obj, tm.mkBin(ADD, a.off, d)); return mkPtrV(v);
}
static const PtrVal* mergePtr(Node* c, const PtrVal* a, const PtrVal* b) {
  if (a == b) return a;
  std::vector<PtrAlt> v; Node* nc = tm.mkNot(c);
  for (auto& x : a->alts) addAlt(v, tm.mkAnd(c, x.g), x.obj, x.off);
  for (auto& x : b->alts) addAlt(v, tm.mkAnd(nc, x.g), x.obj, x.off);
  return mkPtrV(v);
}
static Node* altAddr(const PtrAlt& a) { return a.obj == 0 ? a.off : tm.mkBin(ADD, tm.mkConst(64, objBase[a.obj]), a.off); }
static Node* ptrToInt(const PtrVal* p) {
  Node* acc = altAddr(p->alts.back());
  for (int i = (int)p->alts.size() - 2; i >= 0; --i) acc = tm.mkIte(p->alts[i].g, altAddr(p->alts[i]), acc);
  return acc;
}
static bool liveIn(const State* s, uint32_t id);
static void resolveAddr(uint64_t addr, uint32_t& obj, uint64_t& off) {
  obj = 0; off = addr;
  auto it = addrMap.upper_bound(addr); if (it == addrMap.begin()) return; --it;
  const std::vector<uint32_t>& ids = it->second; uint32_t id = ids.back();
  if (ids.size() > 1 && getenv("VS_DBG_REUSE")) std::cerr << "DBG resolveAddr multi base=" << it->first << " n=" << ids.size() << " at " << locOf(curInst) << "\n";
  if (ids.size() > 1 && g_curState) { for (size_t i = ids.size(); i-- > 0;) if (liveIn(g_curState, ids[i])) { id = ids[i]; break; } }   // the newest object at this address that is live in the current state
  if (addr <= it->first + objSize[id]) { obj = id; off = addr - it->first; }
}
static void addAlt(std::vector<PtrAlt>& v, Node* g, uint32_t obj, Node* off);
// alternatives for an integer address under guard g.  With reused addresses several objects were placed at the same base:
// the occupant is the newest one that was allocated on the path (born) and has not been released there.
static void resolveAddrAlts(const State* s, Node* g, uint64_t addr, std::vector<PtrAlt>& v) {
  auto it = addrMap.upper_bound(addr);
  if (it != addrMap.begin() && s) { --it; const std::vector<uint32_t>& ids = it->second;
    if (ids.size() > 1) { Node* rest = g;
      for (size_t i = ids.size(); i-- > 0 && !Terms::isFalse(rest);) { const Obj* ob = s->mem.get(ids[i]); if (!ob || addr > it->first + objSize[ids[i]]) continue;
        Node* live = tm.mkAnd(ob->born ? ob->born : tm.T, tm.mkNot(ob->freed)); Node* gi = tm.mkAnd(rest, live);
        if (!Terms::isFalse(gi)) addAlt(v, gi, ids[i], tm.mkConst(64, addr - it->first));
        rest = tm.mkAnd(rest, tm.mkNot(live)); }
      if (!Terms::isFalse(rest)) { uint32_t o; uint64_t off; resolveAddr(addr, o, off); addAlt(v, rest, o, tm.mkConst(64, off)); }   // no live occupant: a dangling address
      return; } }
  uint32_t o; uint64_t off; resolveAddr(addr, o, off); addAlt(v, g, o, tm.mkConst(64, off));
}
static void collectLeaves(Node* n, Node* g, std::vector<std::pair<Node*, uint64_t>>& out) {
  std::vector<uint64_t> vals; tm.leaves(n, vals);
  for (uint64_t v : vals) { Node* e = tm.mkAnd(g, tm.mkEq(n, tm.mkConst(n->w, v))); if (!Terms::isFalse(e)) out.push_back({e, v}); }
}
static std::vector<std::pair<Node*, uint64_t>> enumerateValues(State& st, Node* n);
static const PtrVal* intToPtr(State& st, Node* n) {
  if (n->w < 64) n = tm.mkZext(n, 64);
  if (!n->cleaf) n = tm.simplifyUnder(n, st.pc);
  std::vector<std::pair<Node*, uint64_t>> leaves;
  if (n->cleaf) collectLeaves(n, tm.T, leaves); else leaves = enumerateValues(st, n);
  std::vector<PtrAlt> v;
  for (auto& l : leaves) { uint32_t o; uint64_t off; resolveAddr(l.second, o, off);
    if (opt.verbose && o == 0 && l.second != 0) { auto it = addrMap.upper_bound(l.second); if (it != addrMap.begin()) { --it; std::cerr << "note: inttoptr of " << l.second << " resolves to no object; nearest below: obj " << it->second.back() << " base " << it->first << " size " << objSize[it->second.back()] << " at " << locOf(curInst) << "\n"; } }
    if (opt.reuse) resolveAddrAlts(&st, l.first, l.second, v); else addAlt(v, l.first, o, tm.mkConst(64, off)); }
  return mkPtrV(v);
}
static Node* ptrCmpEq(const PtrVal* a, const PtrVal* b) {
  if (a == b) return tm.T;
  Node* r = tm.F;
  for (auto& x : a->alts) for (auto& y : b->alts) {
    Node* e;
    if (x.obj == y.obj) e = tm.mkEq(x.off, y.off);
    else if (x.obj == 0 || y.obj == 0) e = tm.mkEq(altAddr(x), altAddr(y));   // compare with null/int: by address
    else if (opt.reuse && objBase[x.obj] != 0 && objBase[x.obj] == objBase[y.obj]) e = tm.mkEq(x.off, y.off);   // a released object and its successor at the same address
    else e = tm.F;                                                              // distinct objects (one-past aliasing ignored)
    r = tm.mkOr(r, tm.mkAnd(tm.mkAnd(x.g, y.g), e));
  }
  return r;
}

// ------------------------------------------------------------------------------------------------ value helpers
static vs::Value mergeValue(Node* c, const vs::Value& a, const vs::Value& b);
static Node* asInt(const vs::Value& v, unsigned w) {
  if (v.k == vs::Value::INT) { if (v.n->w == w) return v.n; if (v.n->w > w) return tm.mkTrunc(v.n, w); return tm.mkZext(v.n, w); }
  if (v.k == vs::Value::PTR) { Node* n = ptrToInt(v.p); return w == 64 ? n : tm.mkTrunc(n, w); }
  inconclusive("asInt on aggregate/none");
}
static const PtrVal* asPtr(State& st, const vs::Value& v) {
  if (v.k == vs::Value::PTR) return v.p;
  if (v.k == vs::Value::INT) return intToPtr(st, v.n);
  inconclusive("asPtr on aggregate/none");
}
static vs::Value mergeValue(Node* c, const vs::Value& a, const vs::Value& b) {
  if (a.same(b)) return a;
  if (a.k == vs::Value::NONE) return b; if (b.k == vs::Value::NONE) return a;
  if (a.k == vs::Value::INT && b.k == vs::Value::INT) {
    if (a.n->w != b.n->w) inconclusive("merge of ints of different width");
    return vs::Value::I(tm.mkIte(c, a.n, b.n));
  }
  if (a.k == vs::Value::PTR && b.k == vs::Value::PTR) return vs::Value::P(mergePtr(c, a.p, b.p));
  if (a.k == vs::Value::AGG && b.k == vs::Value::AGG) {
    if (a.a->el.size() != b.a->el.size()) inconclusive("merge of aggregates of different size");
    AggVal* r = newAggVal(); for (size_t i = 0; i < a.a->el.size(); ++i) r->el.push_back(mergeValue(c, a.a->el[i], b.a->el[i])); return vs::Value::A(r);
  }
  if ((a.k == vs::Value::PTR && b.k == vs::Value::INT) || (a.k == vs::Value::INT && b.k == vs::Value::PTR)) {
    // keep pointer provenance whenever the integer side is a constant-leaf diagram (typically 0 from zero-filling)
    const vs::Value& iv = a.k == vs::Value::INT ? a : b;
    if (iv.n->w == 64 && iv.n->cleaf) {
      std::vector<std::pair<Node*, uint64_t>> leaves; collectLeaves(iv.n, tm.T, leaves); std::vector<PtrAlt> alts;
      for (auto& l : leaves) { if (opt.reuse) { resolveAddrAlts(g_curState, l.first, l.second, alts); continue; } uint32_t o; uint64_t off; resolveAddr(l.second, o, off); addAlt(alts, l.first, o, tm.mkConst(64, off)); }
      const PtrVal* ip = mkPtrV(alts);
      return vs::Value::P(a.k == vs::Value::INT ? mergePtr(c, ip, b.p) : mergePtr(c, a.p, ip));
    }
    if (iv.n->w == 64 && iv.n->op == VAR && iv.n->taint)   // uninitialised 8 bytes: an indeterminate pointer
      return vs::Value::P(a.k == vs::Value::INT ? mergePtr(c, mkPtr1(tm.T, 0, iv.n), b.p) : mergePtr(c, a.p, mkPtr1(tm.T, 0, iv.n)));
    return vs::Value::I(tm.mkIte(c, asInt(a, 64), asInt(b, 64)));
  }
  inconclusive("merge of incompatible values");
}

// ------------------------------------------------------------------------------------------------ solver helpers
// is pc /\ c satisfiable?  (model stored in slv->lastModel when sat)
static bool feasible(State& st, Node* c, bool wantModel) {
  Node* q = tm.mkAnd(st.pc, c);
  if (Terms::isFalse(q)) return false;
  if (q->pure && !wantModel) { ++stats.feasPure; return true; }
  int r = slv->check({q}, wantModel);
  if (r < 0) inconclusive("solver returned unknown (timeout?)");
  if (r == 1 && wantModel && !tm.eval(q, slv->lastModel->v, slv->lastModel->id)) inconclusive("internal: solver model does not satisfy the query under the engine's own evaluation");
  return r == 1;
}

[[noreturn]] static void reportViolation(const std::string& kind, const std::string& msg, ModelP m) {
  throw Violation{kind, msg, curLoc.empty() ? locOf(curInst) : curLoc, m};
}
// the current state has definitely failed (it is feasible by construction: every fork is checked)
[[noreturn]] static void failPath(State& st, const std::string& kind, const std::string& msg) {
  if (feasible(st, tm.T, true)) reportViolation(kind, msg, slv->lastModel);
  inconclusive("internal: an infeasible state reached a definite failure (" + kind + ": " + msg + ")");
}
// check that `cond` holds on every path represented by st; otherwise violation with a model
static void checkCond(State& st, Node* cond, const char* kind, const std::string& msg) {
  if (Terms::isTrue(cond)) { ++stats.checksConst; return; }
  Node* bad = tm.mkNot(cond);
  if (Terms::isFalse(tm.mkAnd(st.pc, bad))) { ++stats.checksConst; return; }
  ++stats.checksSolver; ++stats.checkKinds[kind];
  if (feasible(st, bad, true)) reportViolation(kind, msg, slv->lastModel);
}

static std::vector<std::pair<Node*, uint64_t>> enumerateValues(State& st, Node* n) {
  std::vector<std::pair<Node*, uint64_t>> out;
  if (n->cleaf) { collectLeaves(n, tm.T, out); return out; }
  Node* excl = tm.T;
  for (;;) {
    if (!feasible(st, excl, true)) break;
    uint64_t v = tm.eval(n, slv->lastModel->v, slv->lastModel->id);
    Node* eq = tm.mkEq(n, tm.mkConst(n->w, v));
    out.push_back({eq, v}); excl = tm.mkAnd(excl, tm.mkNot(eq));
    if (out.size() > opt.maxEnum) inconclusive("value enumeration exceeds --max-enum for " + tm.str(n));
  }
  return out;
}

// ------------------------------------------------------------------------------------------------ uninitialised-value check
static std::unordered_map<Node*, Node*> taintCopyVar;
static Node* substTaint(Node* n, std::unordered_map<Node*, Node*>& memo) {
  if (!n->taint) return n;
  auto it = memo.find(n); if (it != memo.end()) return it->second;
  Node* r;
  if (n->op == VAR) {
    auto jt = taintCopyVar.find(n);
    if (jt == taintCopyVar.end()) { Node* c = tm.mkVar(n->w, tm.vars[n->c].name + "'", false); jt = taintCopyVar.emplace(n, c).first; }
    r = jt->second;
  } else {
    Node* x = n->x ? substTaint(n->x, memo) : nullptr; Node* y = n->y ? substTaint(n->y, memo) : nullptr; Node* z = n->z ? substTaint(n->z, memo) : nullptr;
    switch (n->op) {
      case NOT: r = tm.mkNot(x); break;
      case ZEXT: r = tm.mkZext(x, n->w); break; case SEXT: r = tm.mkSext(x, n->w); break;
      case EXTRACT: r = tm.mkExtract(x, n->c, n->w); break; case CONCAT: r = tm.mkConcat(x, y); break;
      case ITE: case SEL: r = tm.mkIte(x, y, z); break;
      case EQ: case ULT: case ULE: case SLT: case SLE: r = tm.mkCmp(n->op, x, y); break;
      default: r = tm.mkBin(n->op, x, y);
    }
  }
  memo[n] = r; return r;
}
static std::unordered_map<Node*, bool> taintOk;
// a value that syntactically depends on uninitialised memory decides control flow / an address: is the dependence real?
static void checkUninitUse(State& st, Node* v, const char* what) {
  if (!v->taint) return;
  v = tm.simplifyUnder(v, st.pc);
  if (!v->taint) return;
  auto it = taintOk.find(v); if (it != taintOk.end()) return;
  ++stats.taintChecks;
  if (opt.verbose) {   // debugging aid: a candidate input under which an uninitialised variable is selected
    std::function<Node*(Node*, Node*)> find = [&](Node* n, Node* g) -> Node* {
      if (!n->taint || Terms::isFalse(g)) return nullptr;
      if (n->op == VAR) return g;
      if (n->op == SEL) { if (Node* r = find(n->y, tm.mkAnd(g, n->x))) return r; return find(n->z, tm.mkAnd(g, tm.mkNot(n->x))); }
      for (Node* c : {n->x, n->y, n->z}) if (c) if (Node* r = find(c, g)) return r;
      return nullptr; };
    if (Node* g = find(v, st.pc)) { if (slv->check({g}, true) == 1) { std::cerr << "note: candidate uninitialised use (" << what << ") at " << locOf(curInst) << " under inputs:"; for (auto& iv : inputVars) std::cerr << " " << (iv.second->c < slv->lastModel->v.size() ? slv->lastModel->v[iv.second->c] : 0); std::cerr << "  value " << tm.str(v, 4) << "\n"; } }
  }
  std::unordered_map<Node*, Node*> memo;
  Node* v2 = substTaint(v, memo); Node* pc2 = substTaint(st.pc, memo);
  Node* differ = tm.mkNot(tm.mkEq(v, v2));
  int r = slv->check({st.pc, pc2, differ}, true);
  if (r < 0) inconclusive("solver unknown in uninitialised-use check");
  if (r == 1) reportViolation("uninit", std::string("value read from uninitialised memory decides ") + what, slv->lastModel);
  taintOk[v] = true;
}

// ------------------------------------------------------------------------------------------------ memory
static std::map<uint32_t, std::string> objWhere;
static uint64_t sizeClass(uint64_t size) { uint64_t c = (size + 8 + 15) & ~15ULL; return c < 32 ? 32 : c; }   // glibc chunk size of a request
static bool liveIn(const State* s, uint32_t id) { const Obj* o = s->mem.get(id); return o && Terms::isFalse(o->freed); }
static uint32_t newObject(State& st, uint64_t size, ObjKind kind, const char* name) {
  if (nextObj >= PMap::MAXID) inconclusive("object id space exhausted");
  uint32_t id = nextObj++;
  auto o = std::make_shared<Obj>(); o->id = id; o->size = size; o->kind = kind; o->readonly = false; o->freed = tm.F; o->born = st.pc ? st.pc : tm.T; o->fn = nullptr; o->name = name; o->allocSite = 9;
  bool reused = false;
  if (opt.reuse && kind == OK_HEAP && st.fl) {     // LIFO reuse of an address released on this path (same size class)
    auto it = st.fl->find(sizeClass(size));
    if (it != st.fl->end() && it->second) { o->base = it->second->addr; auto nl = std::make_shared<FreeLists>(*st.fl); (*nl)[it->first] = it->second->next; st.fl = nl; reused = true; ++stats.reusedAddrs; }
  }
  if (!reused) { nextAddr = (nextAddr + 15) & ~15ULL; o->base = nextAddr; nextAddr += (opt.reuse && kind == OK_HEAP ? sizeClass(size) : (size ? size : 1)) + 16; }
  if (objBase.size() <= id) { objBase.resize(id + 1024, 0); objSize.resize(id + 1024, 0); }
  objBase[id] = o->base; objSize[id] = size; addrMap[o->base].push_back(id);
  st.mem.set(id, o); ++stats.allocs;
  if (opt.verbose && kind == OK_HEAP) { std::string w = locOf(curInst); for (size_t i = callStack.size(); i-- > 0 && i + 4 > callStack.size();) w += " < " + demangle(callStack[i]).substr(0, 60); objWhere[id] = w; }
  return id;
}
static Node* cellAsInt(const Cell& c) { return c.v.k == vs::Value::PTR ? ptrToInt(c.v.p) : c.v.n; }
static unsigned uninitCounter = 0;
static Node* freshUninit(unsigned w, const Obj& o, uint32_t off) {
  if (opt.verbose) std::cerr << "note: uninit" << uninitCounter << " = read/merge of uninitialised bytes of " << (o.name ? o.name : "obj") << o.id << "+" << off << " size " << o.size << " allocated at " << objWhere[o.id] << " ; now at " << locOf(curInst) << "\n";
  return tm.mkVar(w, "uninit" + std::to_string(uninitCounter++) + "@" + (o.name ? o.name : "obj") + std::to_string(o.id) + "+" + std::to_string(off), true);
}
// remove everything overlapping [off, off+size), keeping the non-overlapping remainders of partially covered cells
static void watchNote(const Obj& o, uint32_t off, uint32_t size, const char* what);
static uint32_t g_watchObjFwd();
static void clearRange(Obj& o, uint32_t off, uint32_t size) {
  if (g_watchObjFwd()) watchNote(o, off, size, "clear");
  uint32_t end = off + size; int i = o.findCell(off);
  std::vector<Cell> add;
  int j = i;
  while (j < (int)o.cells.size() && o.cells[j].off < end) {
    Cell& c = o.cells[j]; uint32_t cend = c.off + c.size;
    if (c.off < off) { uint32_t n = off - c.off; Node* ci = cellAsInt(c); add.push_back(Cell{c.off, n, vs::Value::I(tm.mkExtract(ci, 0, n * 8))}); }
    if (cend > end) { uint32_t n = cend - end; Node* ci = cellAsInt(c); add.push_back(Cell{end, n, vs::Value::I(tm.mkExtract(ci, (end - c.off) * 8, n * 8))}); }
    ++j;
  }
  o.cells.erase(o.cells.begin() + i, o.cells.begin() + j);
  for (auto& c : add) { int k = o.findCell(c.off); o.cells.insert(o.cells.begin() + k, c); }
}
static uint32_t g_watchObj = 0, g_watchOff = 0; static Node* g_curPc = nullptr; static std::vector<uint64_t> g_refModelDbg;
static uint32_t g_watchObjFwd() { return g_watchObj; }
static void watchNote(const Obj& o, uint32_t off, uint32_t size, const char* what) {
  if (o.id == g_watchObj && off <= g_watchOff && g_watchOff < off + size) { static uint32_t tag = 3000000000u; std::cerr << "WATCH obj" << o.id << "+" << off << " size " << size << ": " << what << " active=" << (g_curPc && !g_refModelDbg.empty() ? (int)tm.eval(g_curPc, g_refModelDbg, ++tag) : -1) << " at " << locOf(curInst) << "\n"; }
}
static void storeCell(Obj& o, uint32_t off, uint32_t size, const vs::Value& v) {
  if (g_watchObj) watchNote(o, off, size, "store");
  int i = o.findCell(off);
  if (i < (int)o.cells.size() && o.cells[i].off == off && o.cells[i].size == size) { o.cells[i].v = v; return; }
  clearRange(o, off, size);
  i = o.findCell(off); o.cells.insert(o.cells.begin() + i, Cell{off, size, v});
}
// read [off, off+size) as integer of width size*8 (or pointer when wantPtr and the cell holds one)
static vs::Value loadCell(State& st, uint32_t objId, uint32_t off, uint32_t size, bool wantPtr) {
  const Obj* o = st.mem.get(objId);
  int i = o->findCell(off);
  if (i < (int)o->cells.size()) {
    const Cell& c = o->cells[i];
    if (c.off == off && c.size == size) {
      if (c.v.k == vs::Value::PTR && !wantPtr) return vs::Value::I(ptrToInt(c.v.p));
      return c.v;
    }
  }
  if (size > 8) inconclusive("load wider than 8 bytes");
  // assemble from pieces
  Node* acc = nullptr; unsigned accBits = 0; uint32_t pos = off, end = off + size;
  while (pos < end) {
    const Obj* oo = st.mem.get(objId);
    int k = oo->findCell(pos); Node* piece; uint32_t n;
    if (k < (int)oo->cells.size() && oo->cells[k].off <= pos) {
      const Cell& c = oo->cells[k]; n = std::min(end, c.off + c.size) - pos;
      piece = tm.mkExtract(cellAsInt(c), (pos - c.off) * 8, n * 8);
    } else {
      uint32_t gapEnd = (k < (int)oo->cells.size()) ? std::min<uint64_t>(end, oo->cells[k].off) : end; n = gapEnd - pos;
      piece = freshUninit(n * 8, *oo, pos);
      if (!oo->readonly) { Obj* m = st.mem.getMut(objId); storeCell(*m, pos, n, vs::Value::I(piece)); }
    }
    acc = acc ? tm.mkConcat(piece, acc) : piece; accBits += n * 8; pos += n;
  }
  return vs::Value::I(acc);
}

struct Access { Node* g; uint32_t obj; uint32_t off; };
// resolve a pointer into concrete (object, offset) alternatives valid for an access of `size` bytes; performs the
// memory-safety checks (null / dangling / freed / out of bounds) with the solver where they do not fold
static std::vector<Access> resolveAccess(State& st, const PtrVal* p, uint64_t size, const char* what, bool isWrite) {
  std::vector<Access> out;
  if (getenv("VSYMEX_DEBUG_ALTS") && p->alts.size() > 1 && !g_refModelDbg.empty()) {
    static uint32_t tag = 2000000000u; int ntrue = 0;
    if (tm.eval(st.pc, g_refModelDbg, ++tag)) { for (auto& a : p->alts) if (tm.eval(a.g, g_refModelDbg, ++tag)) ++ntrue;
      if (ntrue != 1) { std::cerr << "ALTS: " << ntrue << " alternatives true under reference model at " << locOf(curInst) << ":"; for (auto& a : p->alts) std::cerr << " [obj " << a.obj << " size " << (a.obj ? objSize[a.obj] : 0) << " off " << tm.str(a.off, 2) << " g=" << tm.eval(a.g, g_refModelDbg, ++tag) << "]"; std::cerr << "\n"; } }
  }
  for (auto& a : p->alts) {
    if (Terms::isFalse(tm.mkAnd(st.pc, a.g))) continue;
    if (a.obj == 0) { checkCond(st, tm.mkNot(a.g), a.off->taint ? "uninit-pointer" : "null-deref", std::string(what) + (a.off->taint ? " through a pointer read from uninitialised memory: " : " through null/invalid pointer: ") + tm.str(a.off, 3) + " guard " + tm.str(a.g, 4)); continue; }
    const Obj* o = st.mem.get(a.obj);
    if (!o) { checkCond(st, tm.mkNot(a.g), "dangling", std::string(what) + " of an object whose lifetime has ended (stack)"); continue; }
    if (!Terms::isFalse(o->freed)) checkCond(st, tm.mkNot(tm.mkAnd(a.g, o->freed)), "use-after-free", std::string(what) + " of freed heap object");
    if (o->kind == OK_FUNC) { checkCond(st, tm.mkNot(a.g), "bad-access", std::string(what) + " of a function object"); continue; }
    if (isWrite && o->readonly) { checkCond(st, tm.mkNot(a.g), "write-const", "store to constant global"); continue; }
    if (Terms::isC(a.off)) {
      if (a.off->c + size > o->size || a.off->c > o->size) {
        checkCond(st, tm.mkNot(a.g), "out-of-bounds", std::string(what) + " at offset " + std::to_string((int64_t)a.off->c) + " size " + std::to_string(size) + " of object of size " + std::to_string(o->size) + " (" + (o->name ? o->name : "") + ")");
        continue;
      }
      out.push_back(Access{a.g, a.obj, (uint32_t)a.off->c});
    } else {
      Node* aoff = tm.simplifyUnder(a.off, tm.mkAnd(st.pc, a.g));      // drop merge junk that cannot matter here
      if (Terms::isC(aoff)) {
        if (aoff->c + size > o->size || aoff->c > o->size) { checkCond(st, tm.mkNot(a.g), "out-of-bounds", std::string(what) + " at offset " + std::to_string((int64_t)aoff->c) + " size " + std::to_string(size) + " of object of size " + std::to_string(o->size)); continue; }
        out.push_back(Access{a.g, a.obj, (uint32_t)aoff->c}); continue;
      }
      PtrAlt a2 = a; a2.off = aoff; const PtrAlt& a = a2;
      checkUninitUse(st, a.off, "a memory address");
      Node* inb = tm.mkCmp(ULE, a.off, tm.mkConst(64, o->size >= size ? o->size - size : 0));
      if (o->size < size) inb = tm.F;
      checkCond(st, tm.mkOr(tm.mkNot(a.g), inb), "out-of-bounds", std::string(what) + " with symbolic offset outside object of size " + std::to_string(o->size));
      std::vector<std::pair<Node*, uint64_t>> vals;
      if (a.off->cleaf) collectLeaves(a.off, tm.T, vals);
      else { State tmp = st; tmp.pc = tm.mkAnd(st.pc, a.g); vals = enumerateValues(tmp, a.off); }
      for (auto& v : vals) { if (v.second + size > o->size) continue; Node* g = tm.mkAnd(a.g, v.first); if (Terms::isFalse(tm.mkAnd(st.pc, g))) continue; out.push_back(Access{g, a.obj, (uint32_t)v.second}); }
    }
  }
  if (out.size() > opt.maxAlts) inconclusive("access alternatives exceed --max-alts");
  return out;
}

// simplify a value under assumption A (drops alternatives / sub-terms that cannot matter when A holds)
static vs::Value simplifyValue(const vs::Value& v, Node* A) {
  if (Terms::isTrue(A)) return v;
  if (v.k == vs::Value::INT) return vs::Value::I(tm.simplifyUnder(v.n, A));
  if (v.k == vs::Value::PTR) {
    bool change = false; std::vector<PtrAlt> out;
    for (auto& a : v.p->alts) {
      Node* ga = tm.mkAnd(A, a.g); if (Terms::isFalse(ga)) { change = true; continue; }
      Node* g2 = tm.ddRestrict(a.g, A); Node* o2 = tm.simplifyUnder(a.off, ga);
      if (g2 != a.g || o2 != a.off) change = true;
      addAlt(out, g2, a.obj, o2);
    }
    if (!change) return v;
    if (out.size() == 1) out[0].g = tm.T;
    return vs::Value::P(mkPtrV(out));
  }
  return v;
}
static vs::Value loadScalar(State& st, const PtrVal* p, uint32_t size, bool wantPtr) {
  ++stats.loads;
  std::vector<Access> acc = resolveAccess(st, p, size, "load", false);
  if (acc.empty()) { return wantPtr ? vs::Value::P(nullPtr()) : vs::Value::I(tm.mkConst(size * 8, 0)); }  // no feasible target: path is dead anyway
  vs::Value r = simplifyValue(loadCell(st, acc.back().obj, acc.back().off, size, wantPtr), tm.mkAnd(st.pc, acc.back().g));
  for (int i = (int)acc.size() - 2; i >= 0; --i) {
    vs::Value v = simplifyValue(loadCell(st, acc[i].obj, acc[i].off, size, wantPtr), tm.mkAnd(st.pc, acc[i].g));
    r = mergeValue(acc[i].g, v, r);
  }
  if (wantPtr && r.k == vs::Value::INT) r = vs::Value::P(intToPtr(st, r.n));
  return r;
}
static void storeScalar(State& st, const PtrVal* p, uint32_t size, vs::Value v) {
  ++stats.stores;
  std::vector<Access> acc = resolveAccess(st, p, size, "store", true);
  if (v.k == vs::Value::INT && v.n->w != size * 8) v = vs::Value::I(tm.mkZext(v.n, size * 8));
  bool single = acc.size() == 1 && (Terms::isTrue(acc[0].g) || Terms::isTrue(tm.mkOr(tm.mkNot(st.pc), acc[0].g)));
  for (auto& a : acc) {
    vs::Value nv = v;
    if (!single) { vs::Value old = loadCell(st, a.obj, a.off, size, v.k == vs::Value::PTR); nv = mergeValue(a.g, v, old); }
    Obj* o = st.mem.getMut(a.obj); storeCell(*o, a.off, size, nv);
  }
}

// ------------------------------------------------------------------------------------------------ FuncInfo
static FuncInfo* getInfo(const Function* Fc) {
  auto it = finfo.find(Fc); if (it != finfo.end()) return it->second;
  Function* F = const_cast<Function*>(Fc);
  FuncInfo* fi = new FuncInfo(); fi->F = F;
  if (auto* SP = F->getSubprogram()) { std::string fn = SP->getFilename().str(); if (fn.find("harness/") != std::string::npos || F->getName() == "harness") fi->countSteps = false; }
  for (auto& a : F->args()) { fi->index[&a] = fi->nvals++; fi->defBlock.push_back(nullptr); }
  for (auto& bb : *F) for (auto& I : bb) if (!I.getType()->isVoidTy()) { fi->index[&I] = fi->nvals++; fi->defBlock.push_back(&bb); }
  // blocks that can reach a return
  std::vector<const BasicBlock*> blocks; DenseMap<const BasicBlock*, unsigned> num;
  for (auto& bb : *F) { num[&bb] = blocks.size(); blocks.push_back(&bb); }
  size_t n = blocks.size(); std::vector<char> canRet(n, 0);
  bool changed = true;
  for (size_t i = 0; i < n; ++i) if (isa<ReturnInst>(blocks[i]->getTerminator())) canRet[i] = 1;
  while (changed) { changed = false; for (size_t i = 0; i < n; ++i) if (!canRet[i]) for (const BasicBlock* s : successors(blocks[i])) if (canRet[num[s]]) { canRet[i] = 1; changed = true; break; } }
  for (size_t i = 0; i < n; ++i) fi->canReturn[blocks[i]] = canRet[i];
  // post-dominator sets on restricted CFG (+ virtual exit = index n)
  size_t W = (n + 1 + 63) / 64; std::vector<std::vector<uint64_t>> pd(n + 1, std::vector<uint64_t>(W, ~0ULL));
  auto setOnly = [&](std::vector<uint64_t>& s, size_t b) { std::fill(s.begin(), s.end(), 0); s[b / 64] |= 1ULL << (b % 64); };
  setOnly(pd[n], n);
  changed = true;
  while (changed) {
    changed = false;
    for (size_t ii = n; ii-- > 0;) {
      if (!canRet[ii]) continue;
      std::vector<uint64_t> s(W, ~0ULL); bool any = false;
      if (isa<ReturnInst>(blocks[ii]->getTerminator())) { for (size_t k = 0; k < W; ++k) s[k] &= pd[n][k]; any = true; }
      for (const BasicBlock* sb : successors(blocks[ii])) { size_t j = num[sb]; if (!canRet[j]) continue; for (size_t k = 0; k < W; ++k) s[k] &= pd[j][k]; any = true; }
      if (!any) continue;
      s[ii / 64] |= 1ULL << (ii % 64);
      if (s != pd[ii]) { pd[ii] = s; changed = true; }
    }
  }
  auto count = [&](const std::vector<uint64_t>& s) { size_t c = 0; for (uint64_t x : s) c += __builtin_popcountll(x); return c; };
  for (size_t i = 0; i < n; ++i) {
    if (!canRet[i]) { fi->ipdom[blocks[i]] = nullptr; continue; }
    size_t ci = count(pd[i]); const BasicBlock* best = nullptr;
    for (size_t j = 0; j < n; ++j) if (j != i && (pd[i][j / 64] >> (j % 64) & 1) && count(pd[j]) == ci - 1) { best = blocks[j]; break; }
    fi->ipdom[blocks[i]] = best;      // nullptr == virtual exit
  }
  fi->DT.reset(new DominatorTree(*F));
  finfo[Fc] = fi; return fi;
}
static const std::vector<unsigned>& liveAt(FuncInfo* fi, const BasicBlock* b) {
  auto it = fi->liveAt.find(b); if (it != fi->liveAt.end()) return it->second;
  std::vector<unsigned> v;
  for (unsigned i = 0; i < fi->nvals; ++i) { const BasicBlock* d = fi->defBlock[i]; if (!d || fi->DT->dominates(d, b)) v.push_back(i); }
  return fi->liveAt[b] = v;
}

// ------------------------------------------------------------------------------------------------ constants
static vs::Value evalConst(State& st, const Constant* C);
static Node* gepOffsetConst(State& st, const GEPOperator* G, std::function<vs::Value(const llvm::Value*)> ev) {
  Node* off = tm.mkConst(64, 0);
  for (gep_type_iterator gi = gep_type_begin(G), ge = gep_type_end(G); gi != ge; ++gi) {
    const llvm::Value* idx = gi.getOperand();
    if (StructType* sty = gi.getStructTypeOrNull()) {
      unsigned f = cast<ConstantInt>(idx)->getZExtValue();
      off = tm.mkBin(ADD, off, tm.mkConst(64, DL->getStructLayout(sty)->getElementOffset(f)));
    } else {
      uint64_t sz = DL->getTypeAllocSize(gi.getIndexedType());
      vs::Value iv = ev(idx); Node* i = asInt(iv, iv.k == vs::Value::INT ? iv.n->w : 64);
      if (i->w < 64) i = tm.mkSext(i, 64);
      off = tm.mkBin(ADD, off, tm.mkBin(MUL, i, tm.mkConst(64, sz)));
    }
  }
  return off;
}
static vs::Value undefOf(Type* ty, const char* why) {
  if (ty->isIntegerTy()) { unsigned w = ty->getIntegerBitWidth(); if (w > 64) inconclusive("integer wider than 64 bits"); return vs::Value::I(tm.mkVar(w, std::string("undef") + std::to_string(uninitCounter++), true)); }
  if (ty->isPointerTy()) return vs::Value::P(nullPtr());
  if (ty->isFloatTy()) return vs::Value::I(tm.mkConst(32, 0)); if (ty->isDoubleTy()) return vs::Value::I(tm.mkConst(64, 0));
  if (auto* sty = dyn_cast<StructType>(ty)) { AggVal* a = newAggVal(); for (unsigned i = 0; i < sty->getNumElements(); ++i) a->el.push_back(undefOf(sty->getElementType(i), why)); return vs::Value::A(a); }
  if (auto* aty = dyn_cast<ArrayType>(ty)) { AggVal* a = newAggVal(); for (unsigned i = 0; i < aty->getNumElements(); ++i) a->el.push_back(undefOf(aty->getElementType(), why)); return vs::Value::A(a); }
  inconclusive(std::string("undef of unsupported type: ") + why);
}
static vs::Value zeroOf(Type* ty) {
  if (ty->isIntegerTy()) return vs::Value::I(tm.mkConst(ty->getIntegerBitWidth(), 0));
  if (ty->isPointerTy()) return vs::Value::P(nullPtr());
  if (ty->isFloatTy()) return vs::Value::I(tm.mkConst(32, 0)); if (ty->isDoubleTy()) return vs::Value::I(tm.mkConst(64, 0));
  if (auto* sty = dyn_cast<StructType>(ty)) { AggVal* a = newAggVal(); for (unsigned i = 0; i < sty->getNumElements(); ++i) a->el.push_back(zeroOf(sty->getElementType(i))); return vs::Value::A(a); }
  if (auto* aty = dyn_cast<ArrayType>(ty)) { AggVal* a = newAggVal(); for (unsigned i = 0; i < aty->getNumElements(); ++i) a->el.push_back(zeroOf(aty->getElementType())); return vs::Value::A(a); }
  inconclusive("zero of unsupported type");
}
static vs::Value doCast(State& st, unsigned opc, const vs::Value& v, Type* from, Type* to);
static vs::Value doBinop(State& st, unsigned opc, const vs::Value& a, const vs::Value& b, const Instruction* I);
static vs::Value doICmp(State& st, CmpInst::Predicate p, const vs::Value& a, const vs::Value& b);

static vs::Value evalConst(State& st, const Constant* C) {
  if (auto* ci = dyn_cast<ConstantInt>(C)) { if (ci->getBitWidth() > 64) inconclusive("constant wider than 64 bits"); return vs::Value::I(tm.mkConst(ci->getBitWidth(), ci->getZExtValue())); }
  if (isa<ConstantPointerNull>(C)) return vs::Value::P(nullPtr());
  if (auto* gv = dyn_cast<GlobalValue>(C)) {
    if (auto* ga = dyn_cast<GlobalAlias>(gv)) return evalConst(st, ga->getAliasee());
    auto it = globalObj.find(gv); if (it == globalObj.end()) inconclusive("unknown global " + gv->getName().str());
    return vs::Value::P(mkPtr1(tm.T, it->second, tm.mkConst(64, 0)));
  }
  if (auto* cf = dyn_cast<ConstantFP>(C)) {
    if (C->getType()->isFloatTy()) { float f = cf->getValueAPF().convertToFloat(); uint32_t b; memcpy(&b, &f, 4); return vs::Value::I(tm.mkConst(32, b)); }
    if (C->getType()->isDoubleTy()) { double f = cf->getValueAPF().convertToDouble(); uint64_t b; memcpy(&b, &f, 8); return vs::Value::I(tm.mkConst(64, b)); }
    inconclusive("unsupported FP constant");
  }
  if (isa<UndefValue>(C)) return undefOf(C->getType(), "constant");
  if (isa<ConstantAggregateZero>(C)) return zeroOf(C->getType());
  if (auto* ca = dyn_cast<ConstantAggregate>(C)) { AggVal* a = newAggVal(); for (unsigned i = 0; i < ca->getNumOperands(); ++i) a->el.push_back(evalConst(st, ca->getOperand(i))); return vs::Value::A(a); }
  if (auto* cd = dyn_cast<ConstantDataSequential>(C)) { AggVal* a = newAggVal(); for (unsigned i = 0; i < cd->getNumElements(); ++i) a->el.push_back(evalConst(st, cd->getElementAsConstant(i))); return vs::Value::A(a); }
  if (auto* ce = dyn_cast<ConstantExpr>(C)) {
    auto ev = [&](const llvm::Value* v) { return evalConst(st, cast<Constant>(v)); };
    switch (ce->getOpcode()) {
      case Instruction::GetElementPtr: { auto* G = cast<GEPOperator>(ce); vs::Value b = ev(G->getPointerOperand()); return vs::Value::P(ptrAdd(asPtr(st, b), gepOffsetConst(st, G, ev))); }
      case Instruction::BitCast: case Instruction::AddrSpaceCast: return ev(ce->getOperand(0));
      case Instruction::PtrToInt: case Instruction::IntToPtr: case Instruction::Trunc: case Instruction::ZExt: case Instruction::SExt:
        return doCast(st, ce->getOpcode(), ev(ce->getOperand(0)), ce->getOperand(0)->getType(), ce->getType());
      case Instruction::ICmp: return doICmp(st, (CmpInst::Predicate)ce->getPredicate(), ev(ce->getOperand(0)), ev(ce->getOperand(1)));
      case Instruction::Select: { vs::Value c = ev(ce->getOperand(0)); return mergeValue(c.n, ev(ce->getOperand(1)), ev(ce->getOperand(2))); }
      default:
        if (Instruction::isBinaryOp(ce->getOpcode())) return doBinop(st, ce->getOpcode(), ev(ce->getOperand(0)), ev(ce->getOperand(1)), nullptr);
        inconclusive(std::string("unsupported constant expression: ") + ce->getOpcodeName());
    }
  }
  if (isa<BlockAddress>(C)) inconclusive("blockaddress");
  inconclusive("unsupported constant");
}

// write a constant initializer into an object
static void writeConst(State& st, Obj& o, uint64_t off, const Constant* C) {
  Type* ty = C->getType();
  if (isa<UndefValue>(C)) return;
  if (isa<ConstantAggregateZero>(C) || (isa<ConstantInt>(C) && false)) {
    uint64_t sz = DL->getTypeAllocSize(ty); uint64_t p = 0;
    // zero fill with 8-byte cells
    while (p < sz) { uint32_t n = (uint32_t)std::min<uint64_t>(8, sz - p); if (n != 8) n = 1; if ((off + p) % 8 && n == 8) n = 1; storeCell(o, off + p, n, vs::Value::I(tm.mkConst(n * 8, 0))); p += n; }
    return;
  }
  if (auto* cs = dyn_cast<ConstantStruct>(C)) { const StructLayout* sl = DL->getStructLayout(cs->getType()); for (unsigned i = 0; i < cs->getNumOperands(); ++i) writeConst(st, o, off + sl->getElementOffset(i), cs->getOperand(i)); return; }
  if (auto* ca = dyn_cast<ConstantArray>(C)) { uint64_t es = DL->getTypeAllocSize(ca->getType()->getElementType()); for (unsigned i = 0; i < ca->getNumOperands(); ++i) writeConst(st, o, off + i * es, ca->getOperand(i)); return; }
  if (auto* cd = dyn_cast<ConstantDataSequential>(C)) { uint64_t es = DL->getTypeAllocSize(cd->getElementType()); for (unsigned i = 0; i < cd->getNumElements(); ++i) writeConst(st, o, off + i * es, cd->getElementAsConstant(i)); return; }
  if (isa<ConstantVector>(C)) inconclusive("vector constant");
  vs::Value v = evalConst(st, C);
  uint32_t sz = (uint32_t)DL->getTypeStoreSize(ty);
  if (v.k == vs::Value::INT && v.n->w != sz * 8) v = vs::Value::I(tm.mkZext(v.n, sz * 8));
  storeCell(o, off, sz, v);
}

// ------------------------------------------------------------------------------------------------ scalar ops
static uint64_t g_liftKey = 0;
static double bitsToDouble(uint64_t c, unsigned w) { if (w == 32) { float f; uint32_t b = (uint32_t)c; memcpy(&f, &b, 4); return f; } double d; memcpy(&d, &c, 8); return d; }
static uint64_t doubleToBits(double d, unsigned w) { if (w == 32) { float f = (float)d; uint32_t b; memcpy(&b, &f, 4); return b; } uint64_t b; memcpy(&b, &d, 8); return b; }
// apply a leaf-wise function to a constant-leaf diagram (floating point values are carried as bit patterns)
static Node* liftLeaves(Node* a, unsigned outW, const std::function<uint64_t(uint64_t)>& f) {
  if (!a->cleaf) inconclusive("symbolic floating point / unsupported symbolic operand");
  return tm.ddApply1((0xE0ULL << 48) | (++g_liftKey), a, [&](Node* l) { return tm.mkConst(outW, f(l->c)); });
}
static double asDouble(Node* n) { if (!Terms::isC(n)) inconclusive("symbolic floating point"); if (n->w == 32) { float f; uint32_t b = n->c; memcpy(&f, &b, 4); return f; } double d; memcpy(&d, &n->c, 8); return d; }
static vs::Value fromDouble(double d, Type* ty) { if (ty->isFloatTy()) { float f = (float)d; uint32_t b; memcpy(&b, &f, 4); return vs::Value::I(tm.mkConst(32, b)); } uint64_t b; memcpy(&b, &d, 8); return vs::Value::I(tm.mkConst(64, b)); }

static vs::Value doCast(State& st, unsigned opc, const vs::Value& v, Type* from, Type* to) {
  switch (opc) {
    case Instruction::BitCast: case Instruction::AddrSpaceCast:
      if (from->isPointerTy() != to->isPointerTy()) inconclusive("bitcast between pointer and non-pointer");
      if (to->isVectorTy() || from->isVectorTy()) inconclusive("vector bitcast");
      return v;
    case Instruction::PtrToInt: { Node* n = asInt(v, 64); unsigned w = to->getIntegerBitWidth(); return vs::Value::I(w == 64 ? n : tm.mkTrunc(n, w)); }
    case Instruction::IntToPtr: { if (v.k == vs::Value::PTR) return v; return vs::Value::P(intToPtr(st, v.n)); }
    case Instruction::Trunc: return vs::Value::I(tm.mkTrunc(asInt(v, from->getIntegerBitWidth()), to->getIntegerBitWidth()));
    case Instruction::ZExt: return vs::Value::I(tm.mkZext(asInt(v, from->getIntegerBitWidth()), to->getIntegerBitWidth()));
    case Instruction::SExt: return vs::Value::I(tm.mkSext(asInt(v, from->getIntegerBitWidth()), to->getIntegerBitWidth()));
    case Instruction::FPExt: case Instruction::FPTrunc: { unsigned fw = from->isFloatTy() ? 32 : 64, tw = to->isFloatTy() ? 32 : 64; return vs::Value::I(liftLeaves(v.n, tw, [=](uint64_t c) { return doubleToBits(bitsToDouble(c, fw), tw); })); }
    case Instruction::UIToFP: { unsigned tw = to->isFloatTy() ? 32 : 64; return vs::Value::I(liftLeaves(v.n, tw, [=](uint64_t c) { return doubleToBits((double)c, tw); })); }
    case Instruction::SIToFP: { unsigned tw = to->isFloatTy() ? 32 : 64; unsigned fw = v.n->w; return vs::Value::I(liftLeaves(v.n, tw, [=](uint64_t c) { return doubleToBits((double)sextw(c, fw), tw); })); }
    case Instruction::FPToUI: { unsigned fw = from->isFloatTy() ? 32 : 64; unsigned tw = to->getIntegerBitWidth(); return vs::Value::I(liftLeaves(v.n, tw, [=](uint64_t c) { return (uint64_t)bitsToDouble(c, fw); })); }
    case Instruction::FPToSI: { unsigned fw = from->isFloatTy() ? 32 : 64; unsigned tw = to->getIntegerBitWidth(); return vs::Value::I(liftLeaves(v.n, tw, [=](uint64_t c) { return (uint64_t)(int64_t)bitsToDouble(c, fw); })); }
  }
  inconclusive("unsupported cast");
}

static vs::Value doBinop(State& st, unsigned opc, const vs::Value& a, const vs::Value& b, const Instruction* I) {
  Type* ty = I ? I->getType() : nullptr;
  if (ty && ty->isFloatingPointTy() && !(Terms::isC(a.n) && Terms::isC(b.n))) {
    unsigned w = ty->isFloatTy() ? 32 : 64;
    auto f = [=](double x, double y) -> double { switch (opc) { case Instruction::FAdd: return x + y; case Instruction::FSub: return x - y; case Instruction::FMul: return x * y; case Instruction::FDiv: return x / y; default: return fmod(x, y); } };
    if (Terms::isC(b.n)) { double y = bitsToDouble(b.n->c, w); return vs::Value::I(liftLeaves(a.n, w, [=](uint64_t c) { return doubleToBits(f(bitsToDouble(c, w), y), w); })); }
    if (Terms::isC(a.n)) { double x = bitsToDouble(a.n->c, w); return vs::Value::I(liftLeaves(b.n, w, [=](uint64_t c) { return doubleToBits(f(x, bitsToDouble(c, w)), w); })); }
    inconclusive("floating point operation on two symbolic operands");
  }
  if (ty && ty->isFloatingPointTy()) {
    double x = asDouble(a.n), y = asDouble(b.n), r;
    switch (opc) { case Instruction::FAdd: r = x + y; break; case Instruction::FSub: r = x - y; break; case Instruction::FMul: r = x * y; break; case Instruction::FDiv: r = x / y; break; case Instruction::FRem: r = fmod(x, y); break; default: inconclusive("fp op"); }
    return fromDouble(r, ty);
  }
  unsigned w = a.k == vs::Value::INT ? a.n->w : (b.k == vs::Value::INT ? b.n->w : 64);
  // pointer-preserving arithmetic on ptrtoint'ed values held as pointers (tagged pointers): fall back to integers
  Node* x = asInt(a, w); Node* y = asInt(b, w);
  Op op;
  switch (opc) {
    case Instruction::Add: op = ADD; break; case Instruction::Sub: op = SUB; break; case Instruction::Mul: op = MUL; break;
    case Instruction::UDiv: op = UDIV; break; case Instruction::SDiv: op = SDIV; break; case Instruction::URem: op = UREM; break; case Instruction::SRem: op = SREM; break;
    case Instruction::And: op = AND; break; case Instruction::Or: op = OR; break; case Instruction::Xor: op = XOR; break;
    case Instruction::Shl: op = SHL; break; case Instruction::LShr: op = LSHR; break; case Instruction::AShr: op = ASHR; break;
    default: inconclusive("unsupported binary op");
  }
  if (op == UDIV || op == SDIV || op == UREM || op == SREM) {
    checkCond(st, tm.mkNot(tm.mkEq(y, tm.mkConst(w, 0))), "div-by-zero", "division by zero");
    // the divisor is non-zero on every path of this state: make its diagram total (a zero leaf left over from a merge
    // is infeasible here) so that the leaf-wise operation is defined and the result stays a diagram
    if (y->cleaf && !Terms::isC(y)) y = tm.mkIte(tm.mkEq(y, tm.mkConst(w, 0)), tm.mkConst(w, 1), y);
    if (op == SDIV && y->cleaf && x->cleaf) { Node* m1 = tm.mkConst(w, maskw(w)); Node* mn = tm.mkConst(w, 1ULL << (w - 1)); Node* bad = tm.mkAnd(tm.mkEq(y, m1), tm.mkEq(x, mn)); if (!Terms::isFalse(bad)) { checkCond(st, tm.mkNot(bad), "signed-overflow", "INT_MIN / -1"); y = tm.mkIte(bad, tm.mkConst(w, 1), y); } }
  }
  if ((op == SHL || op == LSHR || op == ASHR) && !(Terms::isC(y) && y->c < w))
    checkCond(st, tm.mkCmp(ULT, y, tm.mkConst(w, w)), "shift", "shift amount >= width");
  if (I && opt.checkNsw && w > 1 && w < 64 + 1) {
    if (auto* obo = dyn_cast<OverflowingBinaryOperator>(I)) if (obo->hasNoSignedWrap() && (op == ADD || op == SUB || op == MUL) && w <= 32) {
      // signed overflow of source-level arithmetic (clang marks it nsw): check in 64-bit
      Node* xs = tm.mkSext(x, 64); Node* ys = tm.mkSext(y, 64); Node* r64 = tm.mkBin(op, xs, ys);
      Node* ok = tm.mkEq(r64, tm.mkSext(tm.mkBin(op, x, y), 64));
      checkCond(st, ok, "signed-overflow", "signed integer overflow (nsw)");
    } else if (obo->hasNoSignedWrap() && (op == ADD || op == SUB) && w == 64) {
      Node* r = tm.mkBin(op, x, y); Node* z = tm.mkConst(64, 0);
      Node* sx = tm.mkCmp(SLT, x, z), *sy = tm.mkCmp(SLT, y, z), *sr = tm.mkCmp(SLT, r, z);
      Node* ovf = op == ADD ? tm.mkAnd(tm.mkEq(sx, sy), tm.mkNot(tm.mkEq(sx, sr))) : tm.mkAnd(tm.mkNot(tm.mkEq(sx, sy)), tm.mkNot(tm.mkEq(sx, sr)));
      checkCond(st, tm.mkNot(ovf), "signed-overflow", "signed integer overflow (nsw, 64-bit)");
    }
  }
  return vs::Value::I(tm.mkBin(op, x, y));
}

static vs::Value doICmp(State& st, CmpInst::Predicate p, const vs::Value& a, const vs::Value& b) {
  if (a.k == vs::Value::PTR && b.k == vs::Value::PTR && (p == CmpInst::ICMP_EQ || p == CmpInst::ICMP_NE)) {
    Node* e = ptrCmpEq(a.p, b.p); return vs::Value::I(p == CmpInst::ICMP_EQ ? e : tm.mkNot(e));
  }
  unsigned w = a.k == vs::Value::INT ? a.n->w : (b.k == vs::Value::INT ? b.n->w : 64);
  Node* x = asInt(a, w); Node* y = asInt(b, w);
  switch (p) {
    case CmpInst::ICMP_EQ: return vs::Value::I(tm.mkCmp(EQ, x, y));
    case CmpInst::ICMP_NE: return vs::Value::I(tm.mkNot(tm.mkCmp(EQ, x, y)));
    case CmpInst::ICMP_ULT: return vs::Value::I(tm.mkCmp(ULT, x, y));
    case CmpInst::ICMP_ULE: return vs::Value::I(tm.mkCmp(ULE, x, y));
    case CmpInst::ICMP_UGT: return vs::Value::I(tm.mkCmp(ULT, y, x));
    case CmpInst::ICMP_UGE: return vs::Value::I(tm.mkCmp(ULE, y, x));
    case CmpInst::ICMP_SLT: return vs::Value::I(tm.mkCmp(SLT, x, y));
    case CmpInst::ICMP_SLE: return vs::Value::I(tm.mkCmp(SLE, x, y));
    case CmpInst::ICMP_SGT: return vs::Value::I(tm.mkCmp(SLT, y, x));
    case CmpInst::ICMP_SGE: return vs::Value::I(tm.mkCmp(SLE, y, x));
    default: inconclusive("icmp predicate");
  }
}

#include "exec.inc"
#include "main.inc"
