// vsymex: z3 back end (incremental, proxy literals per conjunct)
#pragma once
#include "term.h"
#include <z3++.h>
#include <chrono>
#include <map>
#include <unordered_set>
#include <memory>

namespace vs {

struct Model { uint32_t id; std::vector<uint64_t> v; };
typedef std::shared_ptr<const Model> ModelP;

class Solver {
public:
  Terms& tm;
  z3::context ctx;
  z3::solver slv;
  std::vector<Z3_ast> tr;            // node id -> translated ast (bool sort for w==1, bv otherwise)
  std::vector<Z3_ast> proxy;         // node id -> proxy literal
  uint64_t nQueries = 0, nSat = 0, nUnsat = 0, nUnknown = 0, nCacheHit = 0;
  double solverTime = 0;
  unsigned timeoutMs = 0; double slowThreshold = 1e9;
  uint32_t modelCounter = 1;
  std::map<std::pair<Node*, Node*>, int> cache;  // (a,b) -> 0 unsat / 1 sat (models not cached)

  Solver(Terms& t) : tm(t), slv(ctx) { }

  void setTimeout(unsigned ms) { timeoutMs = ms; z3::params p(ctx); p.set("timeout", ms); slv.set(p); }

  z3::expr toBV(Node* n) { z3::expr e = trans(n); if (n->w == 1 && e.is_bool()) return z3::ite(e, ctx.bv_val(1, 1), ctx.bv_val(0, 1)); return e; }
  z3::expr toBool(Node* n) { z3::expr e = trans(n); assert(n->w == 1); if (e.is_bool()) return e; return e == ctx.bv_val(1, 1); }

  z3::expr trans(Node* root) {
    // iterative post-order to avoid deep recursion
    std::vector<Node*> st; st.push_back(root);
    if (tr.size() < tm.nodes.size()) tr.resize(tm.nodes.size(), nullptr);
    while (!st.empty()) {
      Node* n = st.back();
      if (tr[n->id]) { st.pop_back(); continue; }
      bool ready = true;
      Node* ch[3] = {n->x, n->y, n->z};
      for (Node* c : ch) if (c && !tr[c->id]) { st.push_back(c); ready = false; }
      if (!ready) continue;
      st.pop_back();
      z3::expr e = build(n);
      Z3_inc_ref(ctx, e); tr[n->id] = e;
    }
    return z3::expr(ctx, tr[root->id]);
  }

  ModelP lastModel;

  // is the conjunction of the given boolean nodes satisfiable?  1 sat, 0 unsat, -1 unknown
  int check(const std::vector<Node*>& conj, bool wantModel) {
    std::vector<Node*> cs;
    for (Node* n : conj) { if (Terms::isFalse(n)) return 0; if (!Terms::isTrue(n)) cs.push_back(n); }
    std::pair<Node*, Node*> key(nullptr, nullptr);
    if (cs.size() <= 2 && !wantModel) {
      key = std::make_pair(cs.size() > 0 ? cs[0] : nullptr, cs.size() > 1 ? cs[1] : nullptr);
      auto it = cache.find(key); if (it != cache.end()) { ++nCacheHit; return it->second; }
    }
    slv.push();
    for (Node* n : cs) slv.add(toBool(n));
    auto t0 = std::chrono::steady_clock::now();
    z3::check_result r = slv.check();
    double dt = std::chrono::duration<double>(std::chrono::steady_clock::now() - t0).count();
    solverTime += dt;
    ++nQueries;
    if (dt > slowThreshold) { fprintf(stderr, "slow query %.2fs (#%llu):", dt, (unsigned long long)nQueries); for (Node* n : cs) fprintf(stderr, "\n   %s", tm.str(n, 8).c_str()); fprintf(stderr, "\n");
      std::unordered_set<Node*> seen; std::vector<Node*> st(cs.begin(), cs.end()); int shown = 0;
      while (!st.empty()) { Node* x = st.back(); st.pop_back(); if (!seen.insert(x).second) continue; if (x->op == ITE) { if (!x->x->pure && seen.insert(x->x).second && shown++ < 8) fprintf(stderr, "   atom: %s\n", tm.str(x->x, 7).c_str()); st.push_back(x->y); st.push_back(x->z); } else if (Terms::isAtom(x) && !x->pure && shown++ < 8) fprintf(stderr, "   atom: %s\n", tm.str(x, 7).c_str()); } }
    int res;
    if (r == z3::sat) {
      ++nSat; res = 1;
      if (wantModel) {
        z3::model m = slv.get_model();
        auto mp = std::make_shared<Model>(); mp->id = ++modelCounter; mp->v.resize(tm.vars.size(), 0);
        for (size_t i = 0; i < tm.vars.size(); ++i) {
          Node* vn = tm.vars[i].node; if (vn->id >= tr.size() || !tr[vn->id]) continue;
          z3::expr ve(ctx, tr[vn->id]);
          z3::expr val = m.eval(ve, true);
          uint64_t x = 0;
          if (val.is_bool()) x = val.is_true(); else if (val.is_numeral()) x = val.get_numeral_uint64();
          mp->v[i] = x;
        }
        lastModel = mp;
      }
    } else if (r == z3::unsat) { ++nUnsat; res = 0; }
    else { ++nUnknown; res = -1; }
    slv.pop();
    if (key.first || cs.empty()) { if (res >= 0 && !wantModel) cache[key] = res; }
    return res;
  }

private:
  z3::expr getProxy(Node* n) {
    if (proxy.size() < tm.nodes.size()) proxy.resize(tm.nodes.size(), nullptr);
    if (!proxy[n->id]) {
      z3::expr p = ctx.bool_const(("p" + std::to_string(n->id)).c_str());
      slv.add(z3::implies(p, toBool(n)));
      Z3_inc_ref(ctx, p); proxy[n->id] = p;
    }
    return z3::expr(ctx, proxy[n->id]);
  }
  z3::expr E(Node* n) { return z3::expr(ctx, tr[n->id]); }
  z3::expr bv(Node* n) { z3::expr e = E(n); if (e.is_bool()) return z3::ite(e, ctx.bv_val(1, 1), ctx.bv_val(0, 1)); return e; }
  z3::expr bl(Node* n) { z3::expr e = E(n); if (e.is_bool()) return e; return e == ctx.bv_val(1, 1); }
  z3::expr build(Node* n) {
    unsigned w = n->w;
    switch (n->op) {
      case CONST: if (w == 1) return ctx.bool_val(n->c != 0); return ctx.bv_val((uint64_t)n->c, w);
      case VAR: return ctx.bv_const(("v" + std::to_string(n->c) + "_" + tm.vars[n->c].name).c_str(), w);
      case NOT: if (w == 1) return !bl(n->x); return ~bv(n->x);
      case AND: if (w == 1) return bl(n->x) && bl(n->y); return bv(n->x) & bv(n->y);
      case OR: if (w == 1) return bl(n->x) || bl(n->y); return bv(n->x) | bv(n->y);
      case XOR: if (w == 1) return bl(n->x) != bl(n->y); return bv(n->x) ^ bv(n->y);
      case ADD: return bv(n->x) + bv(n->y);
      case SUB: return bv(n->x) - bv(n->y);
      case MUL: return bv(n->x) * bv(n->y);
      case UDIV: return z3::udiv(bv(n->x), bv(n->y));
      case SDIV: return bv(n->x) / bv(n->y);
      case UREM: return z3::urem(bv(n->x), bv(n->y));
      case SREM: return z3::srem(bv(n->x), bv(n->y));
      case SHL: return z3::shl(bv(n->x), bv(n->y));
      case LSHR: return z3::lshr(bv(n->x), bv(n->y));
      case ASHR: return z3::ashr(bv(n->x), bv(n->y));
      case EQ: return bv(n->x) == bv(n->y);
      case ULT: return z3::ult(bv(n->x), bv(n->y));
      case ULE: return z3::ule(bv(n->x), bv(n->y));
      case SLT: return bv(n->x) < bv(n->y);
      case SLE: return bv(n->x) <= bv(n->y);
      case ZEXT: return z3::zext(bv(n->x), w - n->x->w);
      case SEXT: return z3::sext(bv(n->x), w - n->x->w);
      case EXTRACT: { z3::expr e = bv(n->x).extract(n->c + w - 1, n->c); if (w == 1) return e == ctx.bv_val(1, 1); return e; }
      case CONCAT: return z3::concat(bv(n->x), bv(n->y));
      case ITE: case SEL: if (w == 1) return z3::ite(bl(n->x), bl(n->y), bl(n->z)); return z3::ite(bl(n->x), bv(n->y), bv(n->z));
    }
    abort();
  }
};

} // namespace vs
