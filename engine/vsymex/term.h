// vsymex: term DAG.  Hash-consed bit-vector / boolean terms with eager simplification.
//
// Every boolean term (width 1) and every bit-vector term whose leaves are constants is kept as a *reduced ordered
// decision diagram* over "atoms" (boolean input variables and opaque theory predicates such as `ult x y` on genuinely
// symbolic bit-vectors): op ITE with x = atom, y = then-branch, z = else-branch, atoms ordered by `level`.  This makes
// propositional structure canonical (equal functions over the atoms are the same node), so guards do not grow when
// paths are forked and merged.  Anything else (arithmetic on symbolic bit-vectors) is an ordinary term; SEL is the
// generic if-then-else over such terms.  The decision diagrams are a term normal form; satisfiability of anything
// that involves theory atoms, and every reported verdict, is decided by the SMT solver (solver.h).
#pragma once
#include <cstdint>
#include <cstdio>
#include <cstdlib>
#include <cassert>
#include <unistd.h>
#include <vector>
#include <string>
#include <unordered_map>
#include <unordered_set>
#include <functional>

namespace vs {

enum Op : uint8_t {
  CONST, VAR,
  ADD, SUB, MUL, UDIV, SDIV, UREM, SREM,
  AND, OR, XOR, NOT, SHL, LSHR, ASHR,
  EQ, ULT, ULE, SLT, SLE,
  ZEXT, SEXT, EXTRACT, CONCAT,
  ITE,      // decision-diagram node: x = atom, y/z = diagrams (constant leaves)
  SEL       // generic if-then-else: x = any boolean, y/z = arbitrary terms
};

struct Node {
  Op op; uint8_t w;        // width in bits (1..64); width 1 == boolean
  bool taint;              // depends (syntactically) on an uninitialised-memory variable
  bool cleaf;              // decision diagram with constant leaves (CONST, atom, or ITE)
  bool cond;               // contains conditional structure (ITE / SEL / atoms) that simplifyUnder() may reduce
  bool mark;               // garbage collection
  bool pure;               // cleaf and all atoms are free boolean input variables (satisfiable iff not the constant false)
  uint32_t level;          // atoms: order index; ITE: level of x; otherwise ~0u
  uint32_t id;
  uint64_t c;              // CONST: value; VAR: var index; EXTRACT: lo bit
  Node *x, *y, *z;
};

struct VarInfo { std::string name; uint8_t w; bool uninit; Node* node; };

inline uint64_t maskw(unsigned w) { return w >= 64 ? ~0ULL : ((1ULL << w) - 1); }
inline int64_t sextw(uint64_t v, unsigned w) { if (w >= 64) return (int64_t)v; uint64_t m = 1ULL << (w - 1); v &= maskw(w); return (int64_t)((v ^ m) - m); }

class Terms {
public:
  std::vector<Node*> nodes;
  std::vector<VarInfo> vars;
  std::vector<Node*> atoms;    // by level
  Node *T, *F;
  static const uint32_t NOLEVEL = ~0u;

  Terms() { initCache(22); tab.assign(1 << 16, nullptr); T = mkConst(1, 1); F = mkConst(1, 0); }

  Node* mkConst(unsigned w, uint64_t v) { return intern(CONST, w, v & maskw(w), nullptr, nullptr, nullptr); }
  Node* mkBool(bool b) { return b ? T : F; }
  Node* mkVar(unsigned w, const std::string& name, bool uninit) {
    Node* n = raw(VAR, w, vars.size(), nullptr, nullptr, nullptr); n->taint = uninit;
    vars.push_back(VarInfo{name, (uint8_t)w, uninit, n});
    if (w == 1) { makeAtom(n); n->pure = !uninit; }
    return n;
  }
  static bool isC(Node* n) { return n->op == CONST; }
  static bool isTrue(Node* n) { return n->op == CONST && n->w == 1 && n->c == 1; }
  static bool isFalse(Node* n) { return n->op == CONST && n->w == 1 && n->c == 0; }
  static bool isAtom(Node* n) { return n->w == 1 && n->op != CONST && n->op != ITE; }

  // ---- decision diagrams
  static uint32_t topLevel(Node* n) { return n->op == CONST ? NOLEVEL : n->level; }
  Node* hiOf(Node* n, uint32_t lv) { if (topLevel(n) != lv) return n; return n->op == ITE ? n->y : T; }
  Node* loOf(Node* n, uint32_t lv) { if (topLevel(n) != lv) return n; return n->op == ITE ? n->z : F; }
  Node* mkDD(Node* atom, Node* hi, Node* lo) {
    if (hi == lo) return hi;
    if (isTrue(hi) && isFalse(lo)) return atom;
    return intern(ITE, hi->w, 0, atom, hi, lo);
  }
  struct K3 { uint64_t a, b, c; bool operator==(const K3& o) const { return a == o.a && b == o.b && c == o.c; } };
  struct K3H { size_t operator()(const K3& k) const { uint64_t h = k.a * 0x9E3779B97F4A7C15ULL; h ^= k.b + 0x7F4A7C15ULL + (h << 6) + (h >> 2); h ^= k.c + 0x9E3779B9ULL + (h << 6) + (h >> 2); return h; } };
  // lossy direct-mapped computed cache (as in BDD packages); losing an entry only costs recomputation
  struct CE { uint64_t a, b, c; Node* r; };
  std::vector<CE> cache; size_t cacheMask = 0;
  static Node* NONE() { return reinterpret_cast<Node*>(1); }     // cached "no result"
  void initCache(unsigned bits) { cache.assign((size_t)1 << bits, CE{0, 0, 0, nullptr}); cacheMask = ((size_t)1 << bits) - 1; }
  bool cacheGet(const K3& k, Node*& r) { CE& e = cache[K3H()(k) & cacheMask]; if (e.a == k.a && e.b == k.b && e.c == k.c && e.r) { r = e.r == NONE() ? nullptr : e.r; return true; } return false; }
  void cachePut(const K3& k, Node* r) { CE& e = cache[K3H()(k) & cacheMask]; e.a = k.a; e.b = k.b; e.c = k.c; e.r = r ? r : NONE(); }
  static bool isCmp(Op op) { return op == EQ || op == ULT || op == ULE || op == SLT || op == SLE; }

  // binary operation on two diagrams (leaf operation = fold2); returns nullptr if a leaf operation is undefined
  Node* ddApply2(Op op, Node* a, Node* b) {
    if (a->op == CONST && b->op == CONST) {
      if (op == CONCAT) return mkConst(a->w + b->w, (a->c << b->w) | b->c);
      bool ok; uint64_t v = fold2(op, a->w, a->c, b->c, ok); if (!ok) return nullptr; return mkConst(isCmp(op) ? 1 : a->w, v);
    }
    // boolean short cuts
    if (a->w == 1 && (op == AND || op == OR || op == XOR)) {
      if (op == AND) { if (isFalse(a) || isFalse(b)) return F; if (isTrue(a)) return b; if (isTrue(b)) return a; if (a == b) return a; }
      if (op == OR) { if (isTrue(a) || isTrue(b)) return T; if (isFalse(a)) return b; if (isFalse(b)) return a; if (a == b) return a; }
      if (op == XOR) { if (isFalse(a)) return b; if (isFalse(b)) return a; if (a == b) return F; }
      if (a->id > b->id) std::swap(a, b);
    }
    K3 k{((uint64_t)op << 32) | a->id, b->id, 0};
    Node* r; if (cacheGet(k, r)) return r;
    uint32_t lv = std::min(topLevel(a), topLevel(b));
    Node* h = ddApply2(op, hiOf(a, lv), hiOf(b, lv)); Node* l = h ? ddApply2(op, loOf(a, lv), loOf(b, lv)) : nullptr;
    r = (h && l) ? mkDD(atoms[lv], h, l) : nullptr;
    cachePut(k, r); return r;
  }
  Node* ddIte(Node* c, Node* a, Node* b) {
    if (isTrue(c)) return a; if (isFalse(c)) return b; if (a == b) return a;
    if (a->w == 1) { if (isTrue(a) && isFalse(b)) return c; if (isFalse(a)) { Node* nc = mkNot(c); return isTrue(b) ? nc : ddApply2(AND, nc, b); } if (isFalse(b)) return ddApply2(AND, c, a); if (isTrue(a)) return ddApply2(OR, c, b); if (isTrue(b)) return ddApply2(OR, mkNot(c), a); }
    K3 k{((uint64_t)0xFF << 32) | c->id, a->id, b->id};
    Node* r; if (cacheGet(k, r)) return r;
    uint32_t lv = std::min(topLevel(c), std::min(topLevel(a), topLevel(b)));
    Node* h = ddIte(hiOf(c, lv), hiOf(a, lv), hiOf(b, lv)); Node* l = ddIte(loOf(c, lv), loOf(a, lv), loOf(b, lv));
    r = mkDD(atoms[lv], h, l);
    cachePut(k, r); return r;
  }
  Node* ddApply1(uint64_t opKey, Node* a, const std::function<Node*(Node*)>& leaf) {
    if (a->op == CONST) return leaf(a);
    K3 k{(0xFEULL << 32) | a->id, opKey, 1};
    Node* r; if (cacheGet(k, r)) return r;
    uint32_t lv = topLevel(a);
    r = mkDD(atoms[lv], ddApply1(opKey, hiOf(a, lv), leaf), ddApply1(opKey, loOf(a, lv), leaf));
    cachePut(k, r); return r;
  }
  // generalized cofactor (Coudert/Madre "restrict"): a diagram that agrees with f wherever `care` holds
  Node* ddRestrict(Node* f, Node* care) {
    if (f->op == CONST || isTrue(care) || isFalse(care)) return f;
    K3 k{(0xFDULL << 32) | f->id, care->id, 2};
    Node* r; if (cacheGet(k, r)) return r;
    uint32_t lf = topLevel(f), lc = topLevel(care);
    if (lc < lf) r = ddRestrict(f, ddApply2(OR, hiOf(care, lc), loOf(care, lc)));
    else {
      Node* ch = hiOf(care, lf); Node* cl = loOf(care, lf);
      if (isFalse(ch)) r = ddRestrict(loOf(f, lf), cl);
      else if (isFalse(cl)) r = ddRestrict(hiOf(f, lf), ch);
      else r = mkDD(atoms[lf], ddRestrict(hiOf(f, lf), ch), ddRestrict(loOf(f, lf), cl));
    }
    cachePut(k, r); return r;
  }
  // simplify an arbitrary term under the assumption A (a boolean diagram): the result equals n wherever A holds
  Node* simplifyUnder(Node* n, Node* A) {
    if (!n->cond || isTrue(A) || isFalse(A)) return n;
    if (n->cleaf) return ddRestrict(n, A);
    K3 k{(0xFCULL << 32) | n->id, A->id, 3};
    Node* r; if (cacheGet(k, r)) return r;
    switch (n->op) {
      case SEL: {
        Node* c = n->x; Node* Ac = mkAnd(A, c);
        if (isFalse(Ac)) { r = simplifyUnder(n->z, A); break; }
        Node* An = mkAnd(A, mkNot(c));
        if (isFalse(An)) { r = simplifyUnder(n->y, A); break; }
        r = mkIte(ddRestrict(c, A), simplifyUnder(n->y, Ac), simplifyUnder(n->z, An)); break;
      }
      case NOT: r = mkNot(simplifyUnder(n->x, A)); break;
      case ZEXT: r = mkZext(simplifyUnder(n->x, A), n->w); break;
      case SEXT: r = mkSext(simplifyUnder(n->x, A), n->w); break;
      case EXTRACT: r = mkExtract(simplifyUnder(n->x, A), n->c, n->w); break;
      case CONCAT: r = mkConcat(simplifyUnder(n->x, A), simplifyUnder(n->y, A)); break;
      case EQ: case ULT: case ULE: case SLT: case SLE: r = mkCmp(n->op, simplifyUnder(n->x, A), simplifyUnder(n->y, A)); break;
      case VAR: case CONST: case ITE: r = n; break;
      default: r = mkBin(n->op, simplifyUnder(n->x, A), simplifyUnder(n->y, A));
    }
    cachePut(k, r); return r;
  }
  // distinct leaf constants of a diagram
  void leaves(Node* n, std::vector<uint64_t>& out) { std::unordered_set<Node*> seen; std::unordered_set<uint64_t> vals; leavesRec(n, seen, vals, out); }
  // number of distinct leaf constants, or limit + 1 if there are more (bounded walk)
  size_t leafCountAtMost(Node* n, size_t limit) {
    if (n->op == CONST) return 1;
    std::unordered_set<Node*> seen; std::unordered_set<uint64_t> vals; std::vector<Node*> st{n};
    while (!st.empty()) { Node* x = st.back(); st.pop_back(); if (!seen.insert(x).second) continue;
      if (x->op == CONST) vals.insert(x->c); else if (x->op == ITE) { st.push_back(x->y); st.push_back(x->z); } else { vals.insert(0); vals.insert(1); }
      if (vals.size() > limit || seen.size() > 64 * limit) return limit + 1; }
    return vals.size();
  }
  size_t ddSize(Node* n) { std::unordered_set<Node*> seen; std::vector<Node*> st{n}; while (!st.empty()) { Node* x = st.back(); st.pop_back(); if (!seen.insert(x).second) continue; if (x->op == ITE) { st.push_back(x->y); st.push_back(x->z); } } return seen.size(); }

  // ---- boolean / bitwise
  Node* mkNot(Node* a) {
    if (isC(a)) return mkConst(a->w, ~a->c);
    if (a->w == 1) return ddApply2(XOR, a, T);
    if (a->cleaf) return ddApply1(((uint64_t)NOT << 8), a, [&](Node* l) { return mkConst(l->w, ~l->c); });
    if (a->op == NOT) return a->x;
    return intern(NOT, a->w, 0, a, nullptr, nullptr);
  }
  // opaque (non-diagram) bit-vector operand combined with a diagram: distribute over the diagram's leaves so that the
  // constant-mask rules below can fire per leaf (vector<bool> style read-modify-write on symbolic bit positions)
  Node* distribute(Op op, Node* X, Node* M) {
    if (M->op == CONST) return op == AND ? mkAnd(M, X) : mkOr(M, X);
    std::vector<uint64_t> vals; leaves(M, vals);
    if (vals.size() > 66) return nullptr;
    Node* acc = nullptr;
    for (uint64_t v : vals) { Node* c = mkConst(M->w, v); Node* r = op == AND ? mkAnd(c, X) : mkOr(c, X); acc = acc ? mkIte(mkCmp(EQ, M, c), r, acc) : r; }
    return acc;
  }
  Node* mkAnd(Node* a, Node* b) {
    assert(a->w == b->w);
    if (a->cleaf && b->cleaf) return ddApply2(AND, a, b);
    if (isC(b)) std::swap(a, b);
    if (isC(a)) {
      uint64_t m = a->c;
      if (m == 0) return a; if (m == maskw(a->w)) return b;
      if (b->op == AND && isC(b->x)) return mkAnd(mkConst(a->w, m & b->x->c), b->y);
      if (b->op == OR && isC(b->x)) { uint64_t c2 = b->x->c; return mkOr(mkConst(a->w, m & c2), mkAnd(mkConst(a->w, m & ~c2), b->y)); }
      if (b->op == SEL) return mkIte(b->x, mkAnd(a, b->y), mkAnd(a, b->z));
      if (b->op == ZEXT && (m >> b->x->w) == 0 && b->x->w > 1) return mkZext(mkAnd(mkConst(b->x->w, m), b->x), a->w);
      return intern(AND, a->w, 0, a, b, nullptr);
    }
    if (a == b) return a;
    if (a->cleaf && !b->cleaf) { if (Node* r = distribute(AND, b, a)) return r; }
    if (b->cleaf && !a->cleaf) { if (Node* r = distribute(AND, a, b)) return r; }
    if (a->op == SEL && b->op != SEL) return mkIte(a->x, mkAnd(a->y, b), mkAnd(a->z, b));
    if (b->op == SEL && a->op != SEL) return mkIte(b->x, mkAnd(a, b->y), mkAnd(a, b->z));
    if (a->id > b->id) std::swap(a, b);
    return intern(AND, a->w, 0, a, b, nullptr);
  }
  Node* mkOr(Node* a, Node* b) {
    assert(a->w == b->w);
    if (a->cleaf && b->cleaf) return ddApply2(OR, a, b);
    if (isC(b)) std::swap(a, b);
    if (isC(a)) {
      uint64_t m = a->c;
      if (m == 0) return b; if (m == maskw(a->w)) return a;
      if (b->op == OR && isC(b->x)) return mkOr(mkConst(a->w, m | b->x->c), b->y);
      if (b->op == AND && isC(b->x) && (b->x->c & m)) return mkOr(a, mkAnd(mkConst(a->w, b->x->c & ~m), b->y));
      if (b->op == SEL) return mkIte(b->x, mkOr(a, b->y), mkOr(a, b->z));
      return intern(OR, a->w, 0, a, b, nullptr);
    }
    if (a == b) return a;
    if (a->cleaf && !b->cleaf) { if (Node* r = distribute(OR, b, a)) return r; }
    if (b->cleaf && !a->cleaf) { if (Node* r = distribute(OR, a, b)) return r; }
    if (a->op == SEL && b->op != SEL) return mkIte(a->x, mkOr(a->y, b), mkOr(a->z, b));
    if (b->op == SEL && a->op != SEL) return mkIte(b->x, mkOr(a, b->y), mkOr(a, b->z));
    if (a->id > b->id) std::swap(a, b);
    return intern(OR, a->w, 0, a, b, nullptr);
  }
  Node* mkXor(Node* a, Node* b) {
    assert(a->w == b->w);
    if (a->cleaf && b->cleaf) return ddApply2(XOR, a, b);
    if (isC(b)) std::swap(a, b);
    if (isC(a)) { if (a->c == 0) return b; if (a->c == maskw(a->w)) return mkNot(b); }
    if (a == b) return mkConst(a->w, 0);
    if (a->id > b->id) std::swap(a, b);
    return intern(XOR, a->w, 0, a, b, nullptr);
  }
  Node* mkImplies(Node* a, Node* b) { return mkOr(mkNot(a), b); }

  // ---- ite
  Node* mkIte(Node* c, Node* a, Node* b) {
    assert(c->w == 1 && a->w == b->w);
    if (isC(c)) return c->c ? a : b;
    if (a == b) return a;
    if (a->cleaf && b->cleaf) return ddIte(c, a, b);
    if (a->op == SEL && a->x == c) a = a->y;
    if (b->op == SEL && b->x == c) b = b->z;
    if (a == b) return a;
    return intern(SEL, a->w, 0, c, a, b);
  }

  // ---- arithmetic
  static uint64_t fold2(Op op, unsigned w, uint64_t a, uint64_t b, bool& ok) {
    ok = true; uint64_t m = maskw(w);
    switch (op) {
      case ADD: return (a + b) & m; case SUB: return (a - b) & m; case MUL: return (a * b) & m;
      case UDIV: if (!b) { ok = false; return 0; } return (a / b) & m;
      case UREM: if (!b) { ok = false; return 0; } return (a % b) & m;
      case SDIV: { int64_t x = sextw(a, w), y = sextw(b, w); if (!y || (y == -1 && x == sextw(1ULL << (w - 1), w))) { ok = false; return 0; } return (uint64_t)(x / y) & m; }
      case SREM: { int64_t x = sextw(a, w), y = sextw(b, w); if (!y) { ok = false; return 0; } if (y == -1) return 0; return (uint64_t)(x % y) & m; }
      case AND: return a & b; case OR: return a | b; case XOR: return a ^ b;
      case SHL: return b >= w ? 0 : (a << b) & m;
      case LSHR: return b >= w ? 0 : (a >> b) & m;
      case ASHR: { int64_t x = sextw(a, w); if (b >= w) b = w - 1; return (uint64_t)(x >> b) & m; }
      case EQ: return a == b; case ULT: return a < b; case ULE: return a <= b;
      case SLT: return sextw(a, w) < sextw(b, w); case SLE: return sextw(a, w) <= sextw(b, w);
      default: ok = false; return 0;
    }
  }
  Node* mkBin(Op op, Node* a, Node* b) {
    assert(a->w == b->w);
    unsigned w = a->w;
    if (op == AND) return mkAnd(a, b); if (op == OR) return mkOr(a, b); if (op == XOR) return mkXor(a, b);
    if (a->cleaf && b->cleaf) { if (Node* r = ddApply2(op, a, b)) return r; }
    switch (op) {
      case ADD: if (isC(a)) std::swap(a, b); if (isC(b) && b->c == 0) return a;
        if (isC(b) && a->op == ADD && isC(a->y)) return mkBin(ADD, a->x, mkConst(w, a->y->c + b->c));
        break;
      case SUB: if (isC(b) && b->c == 0) return a; if (a == b) return mkConst(w, 0);
        if (isC(b)) return mkBin(ADD, a, mkConst(w, (uint64_t)(-(int64_t)b->c)));
        break;
      case MUL: if (isC(a)) std::swap(a, b); if (isC(b)) { if (b->c == 0) return b; if (b->c == 1) return a; } break;
      case UDIV: case SDIV: if (isC(b) && b->c == 1) return a; break;
      case SHL: case LSHR: case ASHR: if (isC(b) && b->c == 0) return a; if (isC(a) && a->c == 0) return a;
        // constant shift of a partly known word (bit containers on words that are only partly initialised): push the shift
        // through constant masks so that the known bits stay visible to the constant-mask rules of mkAnd / mkOr
        if (op != ASHR && isC(b) && b->c < w && !a->cleaf) {
          if ((a->op == OR || a->op == AND) && isC(a->x)) { bool ok; Node* c = mkConst(w, fold2(op, w, a->x->c, b->c, ok)); Node* r = mkBin(op, a->y, b); return a->op == OR ? mkOr(c, r) : mkAnd(c, r); }
          if (a->op == SEL) return mkIte(a->x, mkBin(op, a->y, b), mkBin(op, a->z, b));
        }
        break;
      default: break;
    }
    if (op == ADD || op == MUL) { if (!isC(b) && a->id > b->id) std::swap(a, b); }
    return intern(op, w, 0, a, b, nullptr);
  }
  Node* mkCmp(Op op, Node* a, Node* b) {
    assert(a->w == b->w);
    if (a->cleaf && b->cleaf) { if (a->w == 1) return boolCmp(op, a, b); if (Node* r = ddApply2(op, a, b)) return r; }
    if (a == b) return mkBool(op == EQ || op == ULE || op == SLE);
    if (op == EQ) {
      if (isC(a)) std::swap(a, b);
      if (isC(b) && a->op == SEL) return mkIte(a->x, mkCmp(EQ, a->y, b), mkCmp(EQ, a->z, b));
      if (isC(b) && a->op == ZEXT) { if (b->c > maskw(a->x->w)) return F; return mkCmp(EQ, a->x, mkConst(a->x->w, b->c)); }
      if (isC(b) && a->op == ADD && isC(a->y)) return mkCmp(EQ, a->x, mkConst(a->w, b->c - a->y->c));
      if (isC(b) && a->op == CONCAT) return mkAnd(mkCmp(EQ, a->x, mkConst(a->x->w, b->c >> a->y->w)), mkCmp(EQ, a->y, mkConst(a->y->w, b->c)));
      if (a->op == CONCAT && b->op == CONCAT && a->y->w == b->y->w) return mkAnd(mkCmp(EQ, a->x, b->x), mkCmp(EQ, a->y, b->y));
      if (a->id > b->id) std::swap(a, b);
    }
    if (op == ULT && isC(b) && b->c == 0) return F;
    if (op == ULE && isC(a) && a->c == 0) return T;
    if (op == ULT && isC(a) && a->c == maskw(a->w)) return F;
    if (op == ULE && isC(b) && b->c == maskw(a->w)) return T;
    Node* r = intern(op, 1, 0, a, b, nullptr);
    makeAtom(r); return r;
  }
  Node* boolCmp(Op op, Node* a, Node* b) {
    if (op == EQ) return mkNot(mkXor(a, b));
    if (op == ULT) return mkAnd(mkNot(a), b);
    if (op == ULE) return mkOr(mkNot(a), b);
    if (op == SLT) return mkAnd(a, mkNot(b));
    return mkOr(a, mkNot(b));
  }
  Node* mkEq(Node* a, Node* b) { return mkCmp(EQ, a, b); }

  // ---- width changes
  Node* mkZext(Node* a, unsigned w) {
    if (a->w == w) return a; assert(a->w < w);
    if (a->cleaf) return ddApply1(((uint64_t)ZEXT << 8) | w, a, [&](Node* l) { return mkConst(w, l->c); });
    if (a->op == ZEXT) return mkZext(a->x, w);
    return intern(ZEXT, w, 0, a, nullptr, nullptr);
  }
  Node* mkSext(Node* a, unsigned w) {
    if (a->w == w) return a; assert(a->w < w);
    if (a->cleaf) return ddApply1(((uint64_t)SEXT << 8) | w, a, [&](Node* l) { return mkConst(w, (uint64_t)sextw(l->c, l->w)); });
    return intern(SEXT, w, 0, a, nullptr, nullptr);
  }
  Node* mkExtract(Node* a, unsigned lo, unsigned w) {
    assert(lo + w <= a->w);
    if (lo == 0 && w == a->w) return a;
    if (a->cleaf) return ddApply1(((uint64_t)EXTRACT << 16) | (lo << 8) | w, a, [&](Node* l) { return mkConst(w, l->c >> lo); });
    if (a->op == ZEXT || a->op == SEXT) {
      if (lo + w <= a->x->w) return mkExtract(a->x, lo, w);
      if (a->op == ZEXT && lo >= a->x->w) return mkConst(w, 0);
    }
    if (a->op == EXTRACT) return mkExtract(a->x, lo + a->c, w);
    if (a->op == CONCAT) { // x = high, y = low
      if (lo + w <= a->y->w) return mkExtract(a->y, lo, w);
      if (lo >= a->y->w) return mkExtract(a->x, lo - a->y->w, w);
    }
    if (a->op == SEL) return mkIte(a->x, mkExtract(a->y, lo, w), mkExtract(a->z, lo, w));
    Node* r = intern(EXTRACT, w, lo, a, nullptr, nullptr);
    if (w == 1) makeAtom(r);
    return r;
  }
  Node* mkTrunc(Node* a, unsigned w) { return mkExtract(a, 0, w); }
  Node* mkConcat(Node* hi, Node* lo) {
    unsigned w = hi->w + lo->w; assert(w <= 64);
    // a diagram over the concatenation has up to |leaves(hi)| * |leaves(lo)| leaves: bytes that are chosen independently
    // (a copied text buffer) stay a structured CONCAT node instead (EXTRACT and EQ see through it)
    if (hi->cleaf && lo->cleaf && (isC(hi) || isC(lo) || leafCountAtMost(hi, 64) * leafCountAtMost(lo, 64) <= 1024)) return ddApply2(CONCAT, hi, lo);
    if (isC(hi) && hi->c == 0) return mkZext(lo, w);
    if (hi->op == EXTRACT && lo->op == EXTRACT && hi->x == lo->x && hi->c == lo->c + lo->w) return mkExtract(hi->x, lo->c, w);
    return intern(CONCAT, w, 0, hi, lo, nullptr);
  }

  // ---- evaluation under a model (vector of var values; missing = 0); memo table keyed by node id, valid for one tag
  std::vector<std::pair<uint32_t, uint64_t>> evMemo;
  uint64_t eval(Node* n, const std::vector<uint64_t>& m, uint32_t tag) {
    if (n->op == CONST) return n->c;
    if (evMemo.size() < nodes.size()) evMemo.resize(nodes.size() + 1024, std::make_pair(0u, (uint64_t)0));
    if (evMemo[n->id].first == tag) return evMemo[n->id].second;
    uint64_t r = 0; unsigned w = n->w; bool ok;
    switch (n->op) {
      case VAR: r = n->c < m.size() ? (m[n->c] & maskw(w)) : 0; break;
      case NOT: r = ~eval(n->x, m, tag) & maskw(w); break;
      case ZEXT: r = eval(n->x, m, tag); break;
      case SEXT: r = (uint64_t)sextw(eval(n->x, m, tag), n->x->w) & maskw(w); break;
      case EXTRACT: r = (eval(n->x, m, tag) >> n->c) & maskw(w); break;
      case CONCAT: r = (eval(n->x, m, tag) << n->y->w) | eval(n->y, m, tag); break;
      case ITE: case SEL: r = eval(n->x, m, tag) ? eval(n->y, m, tag) : eval(n->z, m, tag); break;
      default: { uint64_t a = eval(n->x, m, tag), b = eval(n->y, m, tag); r = fold2(n->op, n->x->w, a, b, ok); if (!ok) r = 0; }
    }
    evMemo[n->id] = std::make_pair(tag, r); return r;
  }

  std::string str(Node* n, int depth = 6) {
    static const char* nm[] = {"const","var","add","sub","mul","udiv","sdiv","urem","srem","and","or","xor","not","shl","lshr","ashr","eq","ult","ule","slt","sle","zext","sext","extract","concat","ite","sel"};
    if (n->op == CONST) return std::to_string(n->c) + ":" + std::to_string(n->w);
    if (n->op == VAR) return vars[n->c].name;
    if (depth == 0) return "...";
    std::string s = std::string("(") + nm[n->op];
    if (n->op == EXTRACT) s += "[" + std::to_string(n->c) + "+" + std::to_string(n->w) + "]";
    if (n->x) s += " " + str(n->x, depth - 1); if (n->y) s += " " + str(n->y, depth - 1); if (n->z) s += " " + str(n->z, depth - 1);
    return s + ")";
  }

private:
  void leavesRec(Node* n, std::unordered_set<Node*>& seen, std::unordered_set<uint64_t>& vals, std::vector<uint64_t>& out) {
    if (!seen.insert(n).second) return;
    if (n->op == CONST) { if (vals.insert(n->c).second) out.push_back(n->c); return; }
    if (n->op == ITE) { leavesRec(n->y, seen, vals, out); leavesRec(n->z, seen, vals, out); return; }
    // atom: leaves 1 and 0
    if (vals.insert(1).second) out.push_back(1); if (vals.insert(0).second) out.push_back(0);
  }
  void makeAtom(Node* n) { if (n->level != NOLEVEL) return; n->level = atoms.size(); atoms.push_back(n); n->cleaf = true; n->pure = false; }
  struct Key { Op op; uint8_t w; uint64_t c; Node *x, *y, *z;
    bool operator==(const Key& o) const { return op == o.op && w == o.w && c == o.c && x == o.x && y == o.y && z == o.z; } };
  struct KeyHash { size_t operator()(const Key& k) const {
    uint64_t h = k.op * 1000003ULL + k.w; h = h * 0x9E3779B97F4A7C15ULL + k.c; h = h * 0x9E3779B97F4A7C15ULL + (uintptr_t)k.x;
    h = h * 0x9E3779B97F4A7C15ULL + (uintptr_t)k.y; h = h * 0x9E3779B97F4A7C15ULL + (uintptr_t)k.z; return h ^ (h >> 29); } };
  // unique table: open addressing over node pointers; nodes live in chunked arenas
  std::vector<Node*> tab; size_t tabCount = 0;
  std::vector<Node*> chunks; size_t chunkUsed = 0; static const size_t CHUNK = 1 << 16;
public:
  std::vector<Node*> freeNodes; std::vector<uint32_t> freeIds; size_t liveNodes = 0;
  Node* alloc() {
    ++liveNodes;
    if (!freeNodes.empty()) { Node* n = freeNodes.back(); freeNodes.pop_back(); return n; }
    if (chunks.empty() || chunkUsed == CHUNK) { { void* mem = calloc(CHUNK, sizeof(Node)); if (!mem) { fprintf(stdout, "VSYMEX-INCONCLUSIVE out of memory (term arena)\n"); fflush(stdout); _exit(2); } chunks.push_back(static_cast<Node*>(mem)); } chunkUsed = 0; } return &chunks.back()[chunkUsed++]; }
  // ---- garbage collection: the caller has set `mark` on every node reachable from its roots (markNode); everything
  // else is released; `released(id)` lets the caller drop per-id side data (solver translations)
  void markNode(Node* n) {
    if (!n || n->mark) return;
    std::vector<Node*> st; n->mark = true; st.push_back(n);
    while (!st.empty()) { Node* x = st.back(); st.pop_back(); for (Node* c : {x->x, x->y, x->z}) if (c && !c->mark) { c->mark = true; st.push_back(c); } }
  }
  void clearMarks() { for (Node* n : nodes) if (n) n->mark = false; }
  size_t sweep(const std::function<void(uint32_t)>& released) {
    T->mark = F->mark = true; for (Node* a : atoms) markNode(a); for (auto& v : vars) markNode(v.node);
    size_t freed = 0;
    for (size_t i = 0; i < nodes.size(); ++i) { Node* n = nodes[i]; if (!n || n->mark) continue; released((uint32_t)i); if (i < evMemo.size()) evMemo[i].first = 0; nodes[i] = nullptr; freeIds.push_back((uint32_t)i); freeNodes.push_back(n); ++freed; --liveNodes; }
    // rebuild the unique table from the survivors (constants and interned nodes only; VAR nodes are not interned)
    size_t want = 1 << 16; while (want * 6 < liveNodes * 10 * 2) want <<= 1;
    tab.assign(want, nullptr); tabCount = 0; size_t m = tab.size() - 1;
    for (Node* n : nodes) if (n && n->op != VAR) { size_t i = hashKey(n->op, n->w, n->c, n->x, n->y, n->z) & m; while (tab[i]) i = (i + 1) & m; tab[i] = n; ++tabCount; }
    for (auto& e : cache) { e.a = 0; e.r = nullptr; }
    return freed;
  }
private:
  static uint64_t hashKey(Op op, unsigned w, uint64_t c, Node* x, Node* y, Node* z) {
    uint64_t h = op * 1000003ULL + w; h = h * 0x9E3779B97F4A7C15ULL + c; h = h * 0x9E3779B97F4A7C15ULL + (x ? x->id + 1 : 0);
    h = h * 0x9E3779B97F4A7C15ULL + (y ? y->id + 1 : 0); h = h * 0x9E3779B97F4A7C15ULL + (z ? z->id + 1 : 0); return h ^ (h >> 31); }
  void growTab() {
    std::vector<Node*> old; old.swap(tab); tab.assign(old.size() * 2, nullptr); size_t m = tab.size() - 1;
    for (Node* n : old) if (n) { size_t i = hashKey(n->op, n->w, n->c, n->x, n->y, n->z) & m; while (tab[i]) i = (i + 1) & m; tab[i] = n; }
  }
  Node* raw(Op op, unsigned w, uint64_t c, Node* x, Node* y, Node* z) {
    Node* n = alloc(); n->op = op; n->w = (uint8_t)w; n->c = c; n->x = x; n->y = y; n->z = z; n->mark = false;
    if (!freeIds.empty()) { n->id = freeIds.back(); freeIds.pop_back(); } else { n->id = nodes.size(); nodes.push_back(nullptr); }
    n->taint = (x && x->taint) || (y && y->taint) || (z && z->taint);
    n->cleaf = false; n->pure = false; n->level = NOLEVEL;
    n->cond = op == ITE || op == SEL || (w == 1 && op != CONST) || (x && x->cond) || (y && y->cond) || (z && z->cond);
    if (op == CONST) { n->cleaf = true; n->pure = true; }
    else if (op == ITE) { n->cleaf = true; n->level = x->level; n->pure = x->pure && y->pure && z->pure; }
    nodes[n->id] = n; return n;
  }
  Node* intern(Op op, unsigned w, uint64_t c, Node* x, Node* y, Node* z) {
    assert(w >= 1 && w <= 64);
    size_t m = tab.size() - 1; size_t i = hashKey(op, w, c, x, y, z) & m;
    while (Node* n = tab[i]) { if (n->op == op && n->w == w && n->c == c && n->x == x && n->y == y && n->z == z) return n; i = (i + 1) & m; }
    Node* n = raw(op, w, c, x, y, z); tab[i] = n;
    if (++tabCount * 10 > tab.size() * 6) growTab();
    return n;
  }
};

} // namespace vs
