// vsymex: values, memory objects, persistent object map
#pragma once
#include "term.h"
#include <memory>
#include <vector>
#include <algorithm>

namespace llvm { class Function; }

namespace vs {

struct PtrAlt { Node* g; uint32_t obj; Node* off; };     // obj 0: not an object (null / plain integer `off`)
struct PtrVal { std::vector<PtrAlt> alts; bool mark = false; };
struct AggVal;
struct Value {
  enum Kind : uint8_t { NONE, INT, PTR, AGG } k;
  union { Node* n; const PtrVal* p; const AggVal* a; };
  Value() : k(NONE), n(nullptr) {}
  static Value I(Node* n) { Value v; v.k = INT; v.n = n; return v; }
  static Value P(const PtrVal* p) { Value v; v.k = PTR; v.p = p; return v; }
  static Value A(const AggVal* a) { Value v; v.k = AGG; v.a = a; return v; }
  bool same(const Value& o) const { return k == o.k && n == o.n; }
};
struct AggVal { std::vector<Value> el; bool mark = false; };

struct Cell { uint32_t off; uint32_t size; Value v; };    // INT: width == size*8 ; PTR: size == 8

enum ObjKind : uint8_t { OK_GLOBAL, OK_HEAP, OK_STACK, OK_FUNC };

struct Obj {
  uint32_t id; uint64_t base; uint64_t size; ObjKind kind; bool readonly;
  Node* freed;                         // condition (within the owning state) under which the object has been freed
  Node* born = nullptr;                // path condition under which the object was allocated (used to tell the occupants of a reused address apart)
  std::vector<Cell> cells;             // sorted by off, non-overlapping
  const llvm::Function* fn;
  const char* name;
  uint32_t allocSite;                  // 0 malloc, 1 new, 2 new[]  (for mismatched-deallocation checks), 9 n/a
  int findCell(uint32_t off) const {   // index of first cell with cell.off + size > off
    int lo = 0, hi = (int)cells.size();
    while (lo < hi) { int mid = (lo + hi) / 2; if (cells[mid].off + cells[mid].size <= off) lo = mid + 1; else hi = mid; }
    return lo;
  }
};
typedef std::shared_ptr<Obj> ObjP;

// persistent 32-ary trie: id -> ObjP
class PMap {
  static const int BITS = 5, FAN = 32, LEVELS = 5;    // 2^25 ids
  struct TNode { std::shared_ptr<void> ch[FAN]; };
  typedef std::shared_ptr<TNode> TP;
  TP root;
  static TP cloneNode(const TP& n) { return n ? std::make_shared<TNode>(*n) : std::make_shared<TNode>(); }
public:
  static const uint32_t MAXID = (1u << (BITS * LEVELS)) - 1;
  const Obj* get(uint32_t id) const {
    const TNode* n = root.get();
    for (int l = LEVELS - 1; l >= 1; --l) { if (!n) return nullptr; n = static_cast<const TNode*>(n->ch[(id >> (l * BITS)) & (FAN - 1)].get()); }
    if (!n) return nullptr;
    return static_cast<const Obj*>(n->ch[id & (FAN - 1)].get());
  }
  // returns slot reference after making the path unique
  std::shared_ptr<void>& slot(uint32_t id) {
    if (!root || root.use_count() > 1) root = cloneNode(root);
    TNode* n = root.get();
    for (int l = LEVELS - 1; l >= 1; --l) {
      std::shared_ptr<void>& c = n->ch[(id >> (l * BITS)) & (FAN - 1)];
      if (!c) c = std::make_shared<TNode>();
      else if (c.use_count() > 1) c = std::make_shared<TNode>(*static_cast<TNode*>(c.get()));
      n = static_cast<TNode*>(c.get());
    }
    return n->ch[id & (FAN - 1)];
  }
  void set(uint32_t id, const ObjP& o) { slot(id) = o; }
  void erase(uint32_t id) { if (get(id)) slot(id).reset(); }
  Obj* getMut(uint32_t id) {
    if (!get(id)) return nullptr;
    std::shared_ptr<void>& s = slot(id);
    if (s.use_count() > 1) s = std::make_shared<Obj>(*static_cast<Obj*>(s.get()));
    return static_cast<Obj*>(s.get());
  }
  // merge b into a; f(id, objA(may be null), objB(may be null)) -> merged ObjP; called only where the two differ
  template <class F> static void mergeInto(PMap& a, const PMap& b, F f) {
    if (a.root == b.root) return;
    a.root = mergeRec(a.root, b.root, LEVELS - 1, 0, f);
  }
  template <class F> void forEach(F f) const { eachRec(root.get(), LEVELS - 1, f); }
private:
  template <class F> static void eachRec(const TNode* n, int level, F& f) {
    if (!n) return;
    for (int i = 0; i < FAN; ++i) { if (!n->ch[i]) continue; if (level == 0) f(*static_cast<const Obj*>(n->ch[i].get())); else eachRec(static_cast<const TNode*>(n->ch[i].get()), level - 1, f); }
  }
  template <class F> static TP mergeRec(const TP& a, const TP& b, int level, uint32_t prefix, F& f) {
    if (a == b) return a;
    TP r = std::make_shared<TNode>();
    for (int i = 0; i < FAN; ++i) {
      const std::shared_ptr<void>& ca = a ? a->ch[i] : nullsp(); const std::shared_ptr<void>& cb = b ? b->ch[i] : nullsp();
      if (ca == cb) { r->ch[i] = ca; continue; }
      uint32_t p = prefix | ((uint32_t)i << (level * BITS));
      if (level == 0) {
        ObjP oa = std::static_pointer_cast<Obj>(ca), ob = std::static_pointer_cast<Obj>(cb);
        r->ch[i] = f(p, oa, ob);
      } else {
        r->ch[i] = mergeRec(std::static_pointer_cast<TNode>(ca), std::static_pointer_cast<TNode>(cb), level - 1, p, f);
      }
    }
    return r;
  }
  static const std::shared_ptr<void>& nullsp() { static std::shared_ptr<void> n; return n; }
};

} // namespace vs
