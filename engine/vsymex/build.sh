#!/bin/sh
# builds the vsymex engine (LLVM-14 API + z3) into $1 (default: ./vsymex)
set -e
here=$(cd "$(dirname "$0")" && pwd)
out=${1:-$here/vsymex}
tmp=$(mktemp "$out.XXXXXX")
g++ -std=c++17 -O2 -g -fno-rtti -I/usr/lib/llvm-14/include -D_GNU_SOURCE -D__STDC_CONSTANT_MACROS -D__STDC_FORMAT_MACROS -D__STDC_LIMIT_MACROS \
  "$here/vsymex.cc" -o "$tmp" -L/usr/lib/llvm-14/lib -lLLVM-14 -lz3 -lpthread
chmod 755 "$tmp"; mv -f "$tmp" "$out"
