// Operational models for the libstdc++ functions that live in libstdc++.so (no IR available).
#include <map>
#include <ios>
#ifndef OM_CAP
#include <unordered_map>
#endif
#include <cstdlib>
#include <new>
extern "C" { void __verif_stop(void) __attribute__((noreturn)); void __verif_trap(void); void* malloc(size_t); void free(void*); void __CPROVER_assume(int); }

namespace std {
typedef _Rb_tree_node_base* BP;
_Rb_tree_node_base* _Rb_tree_increment(_Rb_tree_node_base* x) throw () {
  if (x->_M_right != 0) { x = x->_M_right; while (x->_M_left != 0) x = x->_M_left; }
  else { BP y = x->_M_parent; while (x == y->_M_right) { x = y; y = y->_M_parent; } if (x->_M_right != y) x = y; }
  return x;
}
const _Rb_tree_node_base* _Rb_tree_increment(const _Rb_tree_node_base* x) throw () { return _Rb_tree_increment(const_cast<BP>(x)); }
_Rb_tree_node_base* _Rb_tree_decrement(_Rb_tree_node_base* x) throw () {
  if (x->_M_color == _S_red && x->_M_parent->_M_parent == x) x = x->_M_right;
  else if (x->_M_left != 0) { BP y = x->_M_left; while (y->_M_right != 0) y = y->_M_right; x = y; }
  else { BP y = x->_M_parent; while (x == y->_M_left) { x = y; y = y->_M_parent; } x = y; }
  return x;
}
const _Rb_tree_node_base* _Rb_tree_decrement(const _Rb_tree_node_base* x) throw () { return _Rb_tree_decrement(const_cast<BP>(x)); }
// NOTE: no rebalancing: a plain (valid) binary search tree; root kept black so header detection works.
void _Rb_tree_insert_and_rebalance(const bool insert_left, BP x, BP p, _Rb_tree_node_base& header) throw () {
  x->_M_parent = p; x->_M_left = 0; x->_M_right = 0; x->_M_color = _S_red;
  if (insert_left) { p->_M_left = x; if (p == &header) { header._M_parent = x; header._M_right = x; } else if (p == header._M_left) header._M_left = x; }
  else { p->_M_right = x; if (p == header._M_right) header._M_right = x; }
  header._M_parent->_M_color = _S_black;
}
_Rb_tree_node_base* _Rb_tree_rebalance_for_erase(BP const z, _Rb_tree_node_base& header) throw () {
  BP& root = header._M_parent; BP& leftmost = header._M_left; BP& rightmost = header._M_right;
  BP y = z; BP x = 0;
  if (y->_M_left == 0) x = y->_M_right;
  else if (y->_M_right == 0) x = y->_M_left;
  else { y = y->_M_right; while (y->_M_left != 0) y = y->_M_left; x = y->_M_right; }
  if (y != z) {
    z->_M_left->_M_parent = y; y->_M_left = z->_M_left;
    if (y != z->_M_right) { if (x) x->_M_parent = y->_M_parent; y->_M_parent->_M_left = x; y->_M_right = z->_M_right; z->_M_right->_M_parent = y; }
    if (root == z) root = y; else if (z->_M_parent->_M_left == z) z->_M_parent->_M_left = y; else z->_M_parent->_M_right = y;
    y->_M_parent = z->_M_parent; y = z;
  } else {
    if (x) x->_M_parent = y->_M_parent;
    if (root == z) root = x; else if (z->_M_parent->_M_left == z) z->_M_parent->_M_left = x; else z->_M_parent->_M_right = x;
    if (leftmost == z) { if (z->_M_right == 0) leftmost = z->_M_parent; else { BP m = x; while (m->_M_left) m = m->_M_left; leftmost = m; } }
    if (rightmost == z) { if (z->_M_left == 0) rightmost = z->_M_parent; else { BP m = x; while (m->_M_right) m = m->_M_right; rightmost = m; } }
  }
  if (root) root->_M_color = _S_black;
  return y;
}
#ifndef OM_CAP
namespace __detail {
// never rehash: the table stays at its initial single bucket (a valid hash table; iteration = most-recent-first list)
std::pair<bool, std::size_t> _Prime_rehash_policy::_M_need_rehash(std::size_t, std::size_t, std::size_t) const { return std::make_pair(false, std::size_t(0)); }
std::size_t _Prime_rehash_policy::_M_next_bkt(std::size_t n) const { return n ? n : 1; }
}
#endif
void __throw_bad_alloc() { __verif_stop(); }
void __throw_bad_array_new_length() { __verif_stop(); }
void __throw_length_error(const char*) { __verif_stop(); }
void __throw_out_of_range(const char*) { __verif_stop(); }
void __throw_out_of_range_fmt(const char*, ...) { __verif_stop(); }
void __throw_logic_error(const char*) { __verif_stop(); }
void __throw_bad_function_call() { __verif_stop(); }
}
void* operator new(std::size_t n) { void* p = malloc(n ? n : 1); __CPROVER_assume(p != 0); return p; }
void* operator new[](std::size_t n) { void* p = malloc(n ? n : 1); __CPROVER_assume(p != 0); return p; }
void operator delete(void* p) noexcept { free(p); }
void operator delete[](void* p) noexcept { free(p); }
void operator delete(void* p, std::size_t) noexcept { free(p); }
extern "C" {
void* __cxa_allocate_exception(size_t n) throw() { return malloc(n); }
void __cxa_throw(void*, void*, void (*)(void*)) { __verif_stop(); }
void __cxa_pure_virtual() { __verif_trap(); }
int __cxa_atexit(void (*)(void*), void*, void*) throw() { return 0; }
}
extern "C" { char __libc_single_threaded = 1; }
namespace std { ios_base::Init::Init() {} ios_base::Init::~Init() {} }
