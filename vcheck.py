#!/usr/bin/env python3
"""Driver of the /verif checks: rebuilds the encoding from /repo's working tree, runs the symbolic engine (vsymex) on
every registered query of a property, validates the encoding against a native twin, replays counterexamples against
the real build, and writes evidence/<id>.json.

usage: vcheck.py <property-id> <quick|thorough> [--keep] [--only <harness>] [--verbose]
exit 0: every query was decided and no (unlisted) violation was found; exit 1: VIOLATION line printed;
exit 2: inconclusive / encoding error (never reported as success)."""
import sys, os, json, subprocess, tempfile, shutil, time, random, hashlib, concurrent.futures as cf, re, glob

VERIF = os.path.dirname(os.path.abspath(__file__))
REPO = os.environ.get('VERIF_REPO', '/repo')
ENGINE = os.path.join(VERIF, 'engine', 'vsymex', 'vsymex')
RT = os.path.join(VERIF, 'engine', 'rt')
sys.path.insert(0, VERIF)
import checks as REG

GUARD = 'LIBVATA_VERIF'
IR_FLAGS = ['-std=c++11', '-O1', '-gline-tables-only', '-fno-vectorize', '-fno-slp-vectorize', '-fno-unroll-loops', '-DNDEBUG', '-D' + GUARD,
            '-include', os.path.join(RT, 'prefix.h'), '-I' + RT, '-I' + os.path.join(VERIF, 'harness', 'common'),
            '-I' + os.path.join(REPO, 'include'), '-I' + os.path.join(REPO, 'src'), '-Wno-everything', '-emit-llvm', '-c']
NATIVE_FLAGS = ['-std=c++11', '-O1', '-g', '-DNDEBUG', '-D' + GUARD, '-fsanitize=address,undefined', '-fno-sanitize-recover=undefined', '-fno-omit-frame-pointer',
                '-I' + RT, '-I' + os.path.join(VERIF, 'harness', 'common'), '-I' + os.path.join(REPO, 'include'), '-I' + os.path.join(REPO, 'src'), '-w']
OPT_PASSES = ['-enable-new-pm=0', '-internalize', '-internalize-public-api-list=harness', '-globaldce', '-lowerinvoke', '-simplifycfg', '-loweratomic', '-globaldce']

def sh(cmd, timeout=None, **kw):
    return subprocess.run(cmd, stdout=subprocess.PIPE, stderr=subprocess.PIPE, text=True, timeout=timeout, **kw)

import threading
HEAVY = threading.Semaphore(int(os.environ.get('VERIF_HEAVY_JOBS', '3')))

def defs(d):
    # keys starting with '_' are meta parameters of the query (memory limit, heavy flag), not preprocessor defines
    return ['-D%s=%s' % (k, v) if v is not None else '-D%s' % k for k, v in sorted(d.items()) if not k.startswith('_')]

def cfgname(d):
    n = ','.join('%s=%s' % (k, v) if v is not None else k for k, v in sorted(d.items()) if not k.startswith('_')) or 'default'
    return n + (' [reuse-addresses]' if d.get('_reuse') else '')     # engine option that changes what the query explores

class Ctx:
    def __init__(self, pid, tier, keep=False, verbose=False):
        self.pid, self.tier, self.keep, self.verbose = pid, tier, keep, verbose
        self.work = tempfile.mkdtemp(prefix='vcheck_%s_' % pid)
        self.pool = cf.ThreadPoolExecutor(max_workers=int(os.environ.get('VERIF_JOBS', '16')))
        self.log = []
    def note(self, s):
        self.log.append(s)
        if self.verbose: print('  ..', s, flush=True)

def build_support(ctx):
    """models (IR), native runtime: independent of the property"""
    jobs = []
    jobs.append(ctx.pool.submit(sh, ['clang++-14'] + IR_FLAGS + ['-fno-builtin', os.path.join(RT, 'models.cc'), '-o', os.path.join(ctx.work, 'models.bc')]))
    jobs.append(ctx.pool.submit(sh, ['clang-14', '-O1', '-fno-builtin', '-emit-llvm', '-c', os.path.join(RT, 'libc_models.c'), '-o', os.path.join(ctx.work, 'libc.bc')]))
    jobs.append(ctx.pool.submit(sh, ['clang++-14'] + IR_FLAGS + [os.path.join(RT, 'convert_models.cc'), '-o', os.path.join(ctx.work, 'convert_models.bc')]))
    jobs.append(ctx.pool.submit(sh, ['g++'] + NATIVE_FLAGS + ['-c', os.path.join(RT, 'vs_native.cc'), '-o', os.path.join(ctx.work, 'vs_native.o')]))
    return jobs

def build_tus(ctx, tus):
    """libvata translation units, from /repo's working tree: IR (clang) and native object (g++ with ASan/UBSan)"""
    jobs = []
    for tu in tus:
        src = os.path.join(REPO, 'src', tu + '.cc')
        jobs.append(ctx.pool.submit(sh, ['clang++-14'] + IR_FLAGS + [src, '-o', os.path.join(ctx.work, tu + '.bc')]))
        jobs.append(ctx.pool.submit(sh, ['g++'] + NATIVE_FLAGS + ['-c', src, '-o', os.path.join(ctx.work, tu + '.o')]))
    return jobs

def symbol_index(ctx):
    """mangled name of every function defined in /repo/src/*.cc -> translation unit (built on demand: all files to IR, llvm-nm)"""
    if getattr(ctx, 'symidx', None) is not None: return ctx.symidx
    d = os.path.join(ctx.work, 'symidx'); os.makedirs(d, exist_ok=True)
    srcs = sorted(glob.glob(os.path.join(REPO, 'src', '*.cc')))
    jobs = [(os.path.basename(f)[:-3], ctx.pool.submit(sh, ['clang++-14'] + IR_FLAGS + [f, '-o', os.path.join(d, os.path.basename(f)[:-3] + '.bc')])) for f in srcs]
    idx = {}
    for tu, j in jobs:
        if j.result().returncode != 0: continue
        r = sh(['llvm-nm-14', '--defined-only', os.path.join(d, tu + '.bc')])
        for l in r.stdout.splitlines():
            parts = l.split()
            if len(parts) >= 2 and parts[-2] in ('T', 't') and parts[-1].startswith('_Z'): idx.setdefault(parts[-1], tu)   # strong definitions only
    ctx.symidx = idx
    return idx

def wait_ok(jobs, what):
    for j in jobs:
        r = j.result()
        if r.returncode != 0:
            print('BUILD-ERROR (%s): %s\n%s' % (what, ' '.join(r.args[:3]) + ' ... ' + r.args[-1], r.stderr[-3000:]))
            return False
    return True

def build_query(ctx, h, cfg, tag):
    """IR module for one harness configuration"""
    base = os.path.join(ctx.work, '%s_%s' % (h['name'], tag))
    src = os.path.join(VERIF, h['src'])
    r = sh(['clang++-14'] + IR_FLAGS + defs(cfg) + [src, '-o', base + '.h.bc'])
    if r.returncode != 0: return None, 'harness compile failed: ' + r.stderr[-2000:]
    mods = [os.path.join(ctx.work, 'libc.bc'), os.path.join(ctx.work, 'models.bc'), os.path.join(ctx.work, 'convert_models.bc'), base + '.h.bc'] + [os.path.join(ctx.work, t + '.bc') for t in h['tus']]
    r = sh(['llvm-link-14'] + mods + ['-o', base + '.linked.bc'])
    if r.returncode != 0: return None, 'llvm-link failed: ' + r.stderr[-2000:]
    r = sh(['opt-14'] + OPT_PASSES + [base + '.linked.bc', '-o', base + '.bc'])
    if r.returncode != 0: return None, 'opt failed: ' + r.stderr[-2000:]
    os.remove(base + '.linked.bc')
    return base + '.bc', None

def build_native(ctx, h, cfg, tag):
    base = os.path.join(ctx.work, '%s_%s' % (h['name'], tag))
    src = os.path.join(VERIF, h['src'])
    objs = [os.path.join(ctx.work, 'vs_native.o')] + [os.path.join(ctx.work, t + '.o') for t in h['tus']]
    r = sh(['g++'] + NATIVE_FLAGS + defs(cfg) + [src] + objs + ['-no-pie', '-Wl,--unresolved-symbols=ignore-all', '-Wl,-z,lazy', '-o', base + '.native'])
    if r.returncode != 0: return None, 'native twin build failed: ' + r.stderr[-2000:]
    return base + '.native', None

def run_engine(ctx, bc, out_json, time_limit, inputs=None, extra=(), mem_gb=None):
    cmd = [ENGINE, bc, '--json', out_json, '--time-limit', str(time_limit)] + list(extra)
    if inputs is not None: cmd += ['--inputs', inputs]
    mem_kb = int(mem_gb or os.environ.get('VERIF_MEM_GB', '14')) * 1024 * 1024
    t0 = time.time()
    try:
        r = subprocess.run(['bash', '-c', 'ulimit -v %d; exec "$@"' % mem_kb, 'x'] + cmd, stdout=subprocess.PIPE, stderr=subprocess.PIPE, text=True, timeout=time_limit + 60)
        out, rc = r.stdout, r.returncode
    except subprocess.TimeoutExpired:
        out, rc = 'VSYMEX-INCONCLUSIVE wall-clock timeout', 2
    res = {'rc': rc, 'stdout': out, 'wall_s': time.time() - t0}
    try: res['json'] = json.load(open(out_json))
    except Exception: res['json'] = None
    if rc not in (0, 10) and res['json'] is None:
        res['rc'] = 2
        if 'VSYMEX' not in out: res['stdout'] = out + '\nVSYMEX-INCONCLUSIVE engine terminated abnormally (rc=%s; memory limit?) %s' % (rc, (r.stderr[-500:] if 'r' in dir() else ''))
    return res

def native_obs(native, inputs_file, timeout=120, valgrind=False):
    cmd = [native, inputs_file]
    env = dict(os.environ, ASAN_OPTIONS='detect_leaks=0:abort_on_error=0:exitcode=13', UBSAN_OPTIONS='print_stacktrace=1:halt_on_error=1:exitcode=14')
    try: r = subprocess.run(cmd, stdout=subprocess.PIPE, stderr=subprocess.PIPE, text=True, timeout=timeout, env=env)
    except subprocess.TimeoutExpired: return None, 'timeout', ''
    return [l for l in r.stdout.splitlines() if l], r.returncode, r.stderr

def engine_obs(res):
    return [l[len('VSYMEX-OBS '):] for l in res['stdout'].splitlines() if l.startswith('VSYMEX-OBS ')]

def validate_translation(ctx, h, bc, native, nruns, seed, ninputs=256):
    """engine in concrete mode vs native twin (real libstdc++, g++): same observations on seeded random inputs"""
    rnd = random.Random(seed); jobs = []; files = []
    for i in range(nruns):
        f = os.path.join(ctx.work, '%s_val_%d.in' % (h['name'], i))
        mode = i % 3
        with open(f, 'w') as fh:
            for _ in range(ninputs):
                v = rnd.getrandbits(8) if mode == 0 else (rnd.getrandbits(8) if rnd.random() < 0.3 else 0) if mode == 1 else (255 if rnd.random() < 0.8 else rnd.getrandbits(8))
                fh.write('%d\n' % v)
        files.append(f)
        jobs.append((ctx.pool.submit(run_engine, ctx, bc, f + '.json', 300, f), ctx.pool.submit(native_obs, native, f)))
    mism = []; samples = []
    for f, (je, jn) in zip(files, jobs):
        e = je.result(); nobs, nrc, nerr = jn.result()
        eobs = engine_obs(e)
        if e['rc'] == 2: mism.append({'inputs': f, 'engine': 'inconclusive: ' + e['stdout'][-300:], 'native': nobs}); continue
        if nobs is None or eobs != nobs or (e['rc'] == 10) != (nrc != 0):
            mism.append({'inputs': open(f).read().split()[:40], 'engine': eobs[:20], 'native': (nobs or [])[:20], 'native_rc': nrc, 'native_err': nerr[-400:]})
        elif len(samples) < 2: samples.append({'inputs_head': open(f).read().split()[:24], 'observations': eobs[:12]})
    return mism, samples

HANG_CAP = 30
def find_native_hang(ctx, h, cfg, tag, seed, tries=6):
    native, err = build_native(ctx, h, cfg, tag + '_hang')
    if native is None: return None
    rnd = random.Random(seed * 7919 + 1); jobs = []
    for i in range(tries):
        f = os.path.join(ctx.work, '%s_%s_hang_%d.in' % (h['name'], tag, i))
        vals = [rnd.getrandbits(8) if i % 2 == 0 else (1 if rnd.random() < 0.5 else 0) for _ in range(256)]
        open(f, 'w').write('\n'.join(str(v) for v in vals) + '\n')
        jobs.append((vals, ctx.pool.submit(native_obs, native, f, HANG_CAP)))
    for vals, j in jobs:
        obs, rc, err = j.result()
        if rc == 'timeout': return vals[:64]
    return None

def build_plain(ctx, h, cfg, tag):
    """uninstrumented native twin (no sanitizers): real sources, g++ -O1, glibc malloc"""
    flags = [x for x in NATIVE_FLAGS if not x.startswith('-fsanitize') and not x.startswith('-fno-sanitize')]
    objs = []
    for t in h['tus']:
        o = os.path.join(ctx.work, t + '.plain.o')
        if not os.path.exists(o):
            r = sh(['g++'] + flags + ['-c', os.path.join(REPO, 'src', t + '.cc'), '-o', o])
            if r.returncode: return None
        objs.append(o)
    o = os.path.join(ctx.work, 'vs_native.plain.o')
    if not os.path.exists(o) and sh(['g++'] + flags + ['-c', os.path.join(RT, 'vs_native.cc'), '-o', o]).returncode: return None
    objs.append(o)
    exe = os.path.join(ctx.work, '%s_%s.plain' % (h['name'], tag))
    r = sh(['g++'] + flags + defs(cfg) + [os.path.join(VERIF, h['src'])] + objs + ['-no-pie', '-Wl,--unresolved-symbols=ignore-all', '-Wl,-z,lazy', '-o', exe])
    return exe if r.returncode == 0 else None

def replay(ctx, h, cfg, tag, inputs, kind):
    """replay a solver counterexample against the native twin built from the real sources"""
    native, err = build_native(ctx, h, cfg, tag + '_replay')
    if native is None: return False, err, None
    f = os.path.join(ctx.work, '%s_%s.replay.in' % (h['name'], tag))
    with open(f, 'w') as fh: fh.write('\n'.join(str(x) for x in inputs) + '\n')
    if cfg.get('_reuse') and kind in ('property', 'exception'):
        # a verdict that depends on the allocator handing a released address out again: ASan quarantines freed memory, so the
        # counterexample is replayed on an uninstrumented build of the real sources with the C library's allocator
        native = build_plain(ctx, h, cfg, tag) or native
    obs, rc, errtxt = native_obs(native, f, HANG_CAP if kind == 'nontermination' else 120)
    detail = {'native_rc': rc, 'native_obs_tail': (obs or [])[-6:], 'native_stderr_tail': errtxt[-1500:]}
    if kind == 'property': ok = rc == 10
    elif kind == 'internal-error': ok = any(w in errtxt for w in ('error: ', 'critical: ', 'alert: ', 'fatal: '))   # the real code wrote the same log line
    elif kind == 'nontermination': ok = rc == 'timeout'      # the real code is still running after HANG_CAP seconds on the solver's inputs
    elif kind == 'exception': ok = rc == 11
    elif kind == 'reach': ok = rc == 12
    elif kind == 'uninit':
        # confirm with valgrind on an uninstrumented build
        flags = [x for x in NATIVE_FLAGS if not x.startswith('-fsanitize') and not x.startswith('-fno-sanitize')]
        objs = []
        for t in h['tus']:
            o = os.path.join(ctx.work, t + '.plain.o'); r = sh(['g++'] + flags + ['-c', os.path.join(REPO, 'src', t + '.cc'), '-o', o]); objs.append(o)
        o = os.path.join(ctx.work, 'vs_native.plain.o'); sh(['g++'] + flags + ['-c', os.path.join(RT, 'vs_native.cc'), '-o', o]); objs.append(o)
        exe = os.path.join(ctx.work, '%s_%s.plain' % (h['name'], tag)); sh(['g++'] + flags + defs(cfg) + [os.path.join(VERIF, h['src'])] + objs + ['-no-pie', '-Wl,--unresolved-symbols=ignore-all', '-Wl,-z,lazy', '-o', exe])
        r = sh(['valgrind', '-q', '--error-exitcode=9', '--undef-value-errors=yes', exe, f], timeout=600)
        detail['valgrind_rc'] = r.returncode; detail['valgrind_tail'] = r.stderr[-1500:]
        ok = r.returncode == 9 or rc in (13, 14)
    else: ok = rc in (13, 14) or (rc is not None and rc < 0)   # ASan / UBSan report or crash
    return ok, detail, f

def main():
    args = sys.argv[1:]
    if len(args) < 2: print(__doc__); return 3
    pid, tier = args[0], args[1]
    keep = '--keep' in args; verbose = '--verbose' in args or os.environ.get('VERIF_VERBOSE')
    only = args[args.index('--only') + 1] if '--only' in args else None
    seed = int(os.environ.get('VERIF_SEED', '1'))
    if pid not in REG.CHECKS: print('unknown property', pid); return 3
    spec = REG.CHECKS[pid]
    t0 = time.time()
    ctx = Ctx(pid, tier, keep, verbose)
    known = [k for k in json.load(open(os.path.join(VERIF, 'known_findings.json')))['findings'] if k['property'] == pid and k.get('status') == 'open']
    rc_final = 0; violations = []; inconclusive = []; known_hits = []; queries = []; val_samples = []; val_runs = 0; replays = 0; selftests = []; tus_added = {}
    try:
        if not os.path.exists(ENGINE):
            r = sh(['sh', os.path.join(VERIF, 'engine', 'vsymex', 'build.sh')])
            if r.returncode != 0: print('ENGINE-BUILD-FAILED', r.stderr[-2000:]); return 2
        if spec.get('pre_cmd') and not only:
            r = sh(spec['pre_cmd'], shell=True, cwd=VERIF, timeout=1800)
            print((r.stdout or '').strip()[-1500:])
            if r.returncode != 0: print('INCONCLUSIVE pre_cmd failed: ' + spec['pre_cmd']); return 2
        harnesses = [h for h in spec['harnesses'] if not only or h['name'] == only]
        tus = sorted(set(t for h in harnesses for t in h['tus']))
        if not wait_ok(build_support(ctx) + build_tus(ctx, tus), 'translation units'): return 2
        ctx.note('built %d TUs in %.1fs' % (len(tus), time.time() - t0))
        # ---- plan the queries
        plan = []   # (harness, cfg, role)
        for h in harnesses:
            cfgs = h['configs'][tier] if tier in h['configs'] else h['configs']['quick']
            if '--cfg' in args: cfgs = [json.loads(args[args.index('--cfg') + 1])]      # experiment: one ad-hoc configuration
            kf = [k for k in known if k['harness'] == h['name']]
            excl = {k['exclude_define']: None for k in kf}
            for c in cfgs: plan.append((h, dict(c, **excl), 'main'))
            for k in kf:
                for c in (k.get('configs') or cfgs[:1]): plan.append((h, dict(c, **{k['expect_define']: None}), 'known:' + k['id']))
            c0 = dict(h.get('selftest_config') or cfgs[0])
            plan.append((h, dict(c0, VS_WITNESS=None, **excl), 'witness'))
            for sd in h.get('selftests', []):
                sdn = sd if isinstance(sd, str) else sd['define']
                plan.append((h, dict(c0, **{sdn: None}), 'selftest:' + sdn))
        _seen = set(); _uniq = []
        for it in plan:      # identical (harness, configuration, role) entries would collide in the work directory
            key = (it[0]['name'], cfgname(it[1]), it[2])
            if key not in _seen: _seen.add(key); _uniq.append(it)
        plan = _uniq
        # ---- build + run
        def do(item):
            h, cfg, role = item
            tag = hashlib.md5((cfgname(cfg) + role).encode()).hexdigest()[:10]
            bc, err = build_query(ctx, h, cfg, tag)
            if bc is None: return item, tag, {'rc': 2, 'stdout': 'VSYMEX-INCONCLUSIVE ' + err, 'json': None, 'wall_s': 0}
            tl = int(os.environ.get('VERIF_TIME_LIMIT', h.get('time_limit', {}).get(tier, 600 if tier == 'quick' else 3000)))
            extra = ['--path-limit', str(cfg['_path_limit'])] if cfg.get('_path_limit') else []
            if cfg.get('_reuse'): extra.append('--reuse-addresses')     # heap model that hands released addresses out again (LIFO per size class)
            if cfg.get('_heavy'):
                with HEAVY: res = run_engine(ctx, bc, bc + '.json', (int(os.environ['VERIF_TIME_LIMIT']) if os.environ.get('VERIF_TIME_LIMIT') else cfg.get('_time', tl)), extra=extra, mem_gb=cfg.get('_mem_gb'))
            else: res = run_engine(ctx, bc, bc + '.json', (int(os.environ['VERIF_TIME_LIMIT']) if os.environ.get('VERIF_TIME_LIMIT') else cfg.get('_time', tl)), extra=extra, mem_gb=cfg.get('_mem_gb'))
            if not ctx.keep and role != 'main':
                try: os.remove(bc)
                except OSError: pass
            return item, tag, res
        results = list(ctx.pool.map(do, plan))
        # ---- translation-unit closure: a query that stopped at a call into a libvata function whose translation unit is not in
        # the harness's list (the sources changed and now call into another file) is not a verdict; the defining translation
        # units are looked up in an index over all of /repo/src, added (IR and native twin), and the query is run again
        for _round in range(3):
            need = {}
            for i, ((h, cfg, role), tag, res) in enumerate(results):
                if res['rc'] == 2 or res['json'] is None:
                    m = re.search(r'call to unmodelled external function .*?\[(_ZN?K?4VATA\w+)\]', res['stdout'])
                    if m: need.setdefault(h['name'], (h, set(), []))[1].add(m.group(1)); need[h['name']][2].append(i)
            if not need: break
            idx = symbol_index(ctx)
            progressed = False
            for hn, (h, syms, idxs) in need.items():
                add = sorted(set(idx[sy] for sy in syms if sy in idx) - set(h['tus']))
                if not add: continue
                if not wait_ok(build_tus(ctx, add), 'added translation units'): continue
                h['tus'] = list(h['tus']) + add; tus_added.setdefault(hn, []).extend(add); progressed = True
                ctx.note('harness %s: translation units added after an unresolved call: %s' % (hn, ', '.join(add)))
                redo = list(ctx.pool.map(do, [results[i][0] for i in idxs]))
                for i, r in zip(idxs, redo): results[i] = r
            if not progressed: break
        # ---- translation validation (first main config of every harness)
        nval = int(os.environ.get('VERIF_VALRUNS', spec.get('val_runs', {}).get(tier, '12' if tier == 'quick' else '40')))
        done_val = set(); vjobs = []
        def do_val(h, cfg, tag):
            vcfg = dict(cfg, VS_OBSERVE=None)
            bc, err = build_query(ctx, h, vcfg, tag + '_val'); native, err2 = build_native(ctx, h, vcfg, tag + '_val')
            if bc is None or native is None:
                return h, vcfg, None, 'validation build failed: %s %s' % (err, err2)
            mism, samples = validate_translation(ctx, h, bc, native, nval, seed)
            return h, vcfg, (mism, samples), None
        outer = cf.ThreadPoolExecutor(max_workers=8)
        for (h, cfg, role), tag, res in results:
            if role != 'main' or h['name'] in done_val: continue
            done_val.add(h['name'])
            vjobs.append(outer.submit(do_val, h, cfg, tag))
        for j in vjobs:
            h, vcfg, r, err = j.result()
            if r is None:
                inconclusive.append({'harness': h['name'], 'config': cfgname(vcfg), 'why': err}); continue
            mism, samples = r
            val_runs += nval; val_samples += samples
            if mism:
                inconclusive.append({'harness': h['name'], 'config': cfgname(vcfg), 'why': 'ENCODING MISMATCH engine(concrete) vs native twin', 'detail': mism[:2]})
        outer.shutdown(wait=False)
        # ---- interpret
        for (h, cfg, role), tag, res in results:
            j = res['json'] or {}
            q = {'harness': h['name'], 'config': cfgname(cfg), 'role': role, 'verdict': j.get('verdict', 'inconclusive'), 'wall_s': round(res['wall_s'], 2),
                 'instructions': j.get('instructions', 0), 'max_path_steps': j.get('max_path_steps', 0), 'forks': j.get('forks', 0), 'merges': j.get('merges', 0), 'input_vars': j.get('input_vars', 0),
                 'checks_decided_by_normal_form': j.get('checks_folded', 0), 'checks_decided_by_smt': j.get('checks_solver', 0), 'smt_queries': j.get('solver_queries', 0), 'smt_s': j.get('solver_s', 0),
                 'term_nodes': j.get('term_nodes', 0), 'functions': j.get('functions', [])}
            queries.append(q)
            line = [l for l in res['stdout'].splitlines() if l.startswith('VSYMEX-')]
            if res['rc'] == 2 or res['json'] is None:
                q['verdict'] = 'inconclusive'; q['why'] = (line[0] if line else res['stdout'][-300:])[:600]
                # the engine ran out of time: is it the code under test that does not terminate?  Run the native twin on seeded
                # inputs under a generous wall-clock cap (normal runs take milliseconds); a run that never ends is concrete,
                # replayable evidence and is reported as a violation (kind hang), everything else stays inconclusive
                if role == 'main' and 'time limit' in q['why'] or role == 'main' and 'wall-clock timeout' in q['why']:
                    hang = find_native_hang(ctx, h, cfg, tag, seed)
                    if hang is not None:
                        rdir = os.environ.get('VERIF_REPLAY_DIR', os.path.join(VERIF, 'replays')); os.makedirs(rdir, exist_ok=True)
                        rp = os.path.join(rdir, '%s-%s-%s.json' % (pid, h['name'], tag))
                        json.dump({'property': pid, 'harness': h['name'], 'src': h['src'], 'tus': h['tus'], 'defines': cfg, 'inputs': hang, 'kind': 'hang', 'message': 'native twin does not terminate within %d s on these inputs' % HANG_CAP}, open(rp, 'w'), indent=1)
                        q['verdict'] = 'violation'; q['violation'] = {'kind': 'hang', 'message': 'the operation does not terminate (native twin still running after %d s)' % HANG_CAP, 'where': h['src'], 'inputs': hang, 'replayed': True}
                        violations.append((rp, q)); continue
                if role == 'main' or role == 'witness' or role.startswith('selftest'): inconclusive.append({'harness': h['name'], 'config': cfgname(cfg), 'role': role, 'why': q['why']})
                continue
            if role == 'witness':
                if not (res['rc'] == 10 and j.get('kind') == 'reach'): inconclusive.append({'harness': h['name'], 'config': cfgname(cfg), 'why': 'VACUOUS: witness twin did not reach the end of the harness (%s)' % (line[0] if line else '')})
                else: selftests.append({'harness': h['name'], 'twin': 'witness', 'result': 'end of harness reachable'})
                continue
            if role.startswith('selftest:'):
                want = 'property'
                for sd in h.get('selftests', []):
                    if not isinstance(sd, str) and 'selftest:' + sd['define'] == role: want = sd.get('kind', 'property')
                if not (res['rc'] == 10 and (j.get('kind') == want or (want == 'memory' and j.get('kind') not in ('property', 'reach')))): inconclusive.append({'harness': h['name'], 'config': cfgname(cfg), 'why': 'SELFTEST NOT DETECTED: seeded fault %s was not reported (%s)' % (role, line[0] if line else '')})
                else: selftests.append({'harness': h['name'], 'twin': role, 'result': 'seeded fault found: ' + j.get('message', ''), 'inputs': j.get('inputs')})
                continue
            if res['rc'] == 10:
                ok, detail, rf = replay(ctx, h, cfg, tag, j.get('inputs', []), j.get('kind')); replays += 1
                q['violation'] = {'kind': j.get('kind'), 'message': j.get('message'), 'where': j.get('where'), 'inputs': j.get('inputs'), 'replayed': ok, 'replay_detail': detail}
                if not ok:
                    inconclusive.append({'harness': h['name'], 'config': cfgname(cfg), 'role': role, 'why': 'counterexample did not reproduce natively (encoding error or unconfirmable UB): %s %s' % (j.get('kind'), j.get('message')), 'detail': detail}); continue
                rdir = os.environ.get('VERIF_REPLAY_DIR', os.path.join(VERIF, 'replays')); os.makedirs(rdir, exist_ok=True)
                rp = os.path.join(rdir, '%s-%s-%s.json' % (pid, h['name'], tag))
                json.dump({'property': pid, 'harness': h['name'], 'src': h['src'], 'tus': h['tus'], 'defines': cfg, 'inputs': j.get('inputs'), 'kind': j.get('kind'), 'message': j.get('message'), 'where': j.get('where'), 'native': detail}, open(rp, 'w'), indent=1)
                if role.startswith('known:'): known_hits.append((role[6:], rp, j.get('message')))
                else: violations.append((rp, q))
        # ---- report
        for kid, rp, msg in known_hits:
            k = [k for k in known if k['id'] == kid][0]
            print('KNOWN-FINDING: property=%s %s [%s] replay=%s' % (pid, k['what'], kid, rp))
        for rp, q in violations:
            print('VIOLATION property=%s replay=%s' % (pid, rp))
            print('   %s %s: %s at %s inputs=%s' % (q['harness'], q['config'], q['violation']['message'], q['violation']['where'], q['violation']['inputs']))
        for i in inconclusive: print('INCONCLUSIVE %s' % json.dumps(i)[:1500])
        if violations: rc_final = 1
        elif inconclusive: rc_final = 2
        main_q = [q for q in queries if q['role'] == 'main']
        ev = {
            'property_id': pid, 'tier': tier, 'seed': seed, 'level': spec.get('level', 'model_checking'),
            'coverage': {
                'states': max(1, sum(q['instructions'] for q in main_q)), 'transitions': max(1, sum(q['forks'] + q['merges'] for q in main_q)),
                'traces_validated_against_impl': val_runs + replays,
                'samples': [{k: q[k] for k in ('harness', 'config', 'verdict', 'input_vars', 'instructions', 'forks', 'merges', 'checks_decided_by_normal_form', 'checks_decided_by_smt', 'smt_queries', 'wall_s')} for q in main_q][:40] + val_samples[:4],
                'explanation': spec.get('explanation', ''),
                'what_states_transitions_mean': 'states = LLVM instructions executed symbolically (all feasible paths, merged at post-dominators); transitions = path forks + state merges',
                'queries': len(main_q), 'queries_decided': sum(1 for q in main_q if q['verdict'] in ('ok', 'violation')),
                'free_input_bits_per_query': sorted(set(q['input_vars'] for q in main_q)),
                'checks_decided_by_normal_form': sum(q['checks_decided_by_normal_form'] for q in main_q), 'checks_decided_by_smt': sum(q['checks_decided_by_smt'] for q in main_q),
                'smt_queries': sum(q['smt_queries'] for q in queries), 'smt_seconds': round(sum(q['smt_s'] for q in queries), 3), 'engine_seconds': round(sum(q['wall_s'] for q in queries), 2),
                'functions_encoded': sorted(set(f for q in main_q for f in q['functions']))[:400],
                'translation_units': sorted(set(t for h in harnesses for t in h['tus'])), 'translation_units_added_after_unresolved_calls': tus_added,
                'bounds': spec.get('bounds', {}).get(tier, spec.get('bounds', {}).get('quick', '')), 'outside_bounds': spec.get('outside', ''),
                'longest_path_instructions': max([q.get('max_path_steps', 0) for q in queries] or [0]), 'path_limit_instructions': 100000000,
                'selftests': selftests, 'known_findings_reproduced': [k[0] for k in known_hits], 'inconclusive': inconclusive[:10],
                'all_queries': [{k: v for k, v in q.items() if k != 'functions'} for q in queries][:200],
                'exhaustive': False,
            },
            'assumptions': REG.COMMON_ASSUMPTIONS + spec.get('assumptions', []),
            'wall_s': round(time.time() - t0, 2), 'violations': len(violations),
        }
        edir = os.environ.get('VERIF_EVIDENCE_DIR', os.path.join(VERIF, 'evidence')); os.makedirs(edir, exist_ok=True)
        json.dump(ev, open(os.path.join(edir, pid + '.json'), 'w'), indent=1)
        if not only and '--cfg' not in args:      # the complete list of functions executed symbolically (input of apicov.py)
            os.makedirs(os.path.join(edir, 'functions'), exist_ok=True)
            open(os.path.join(edir, 'functions', '%s.%s.txt' % (pid, tier)), 'w').write('\n'.join(sorted(set(f for q in main_q for f in q['functions']))) + '\n')
        print('%s %s: %d queries (%d decided), %d violations, %d known findings, %d inconclusive, %d validation runs, %.1fs' % (pid, tier, len(main_q), ev['coverage']['queries_decided'], len(violations), len(known_hits), len(inconclusive), val_runs, time.time() - t0))
        return rc_final
    finally:
        ctx.pool.shutdown(wait=False)
        if not keep: shutil.rmtree(ctx.work, ignore_errors=True)
        else: print('work dir kept:', ctx.work)

if __name__ == '__main__':
    sys.exit(main())
