#!/usr/bin/env python3
"""Regenerates MANIFEST.json from the registry (checks.d/*.py) and the claim table below."""
import json, os, sys, subprocess
VERIF = os.path.dirname(os.path.abspath(__file__))
sys.path.insert(0, VERIF)
import checks as REG

# property -> (claimed?, level category, level text / reason when not claimed)
CLAIMS = json.load(open(os.path.join(VERIF, 'claims.json')))

props = [json.loads(l) for l in open(os.path.join(VERIF, 'properties.jsonl'))]
hooks = [l.split()[0] for l in subprocess.run(['git', '-C', '/repo', 'log', '--format=%h %s'], capture_output=True, text=True).stdout.splitlines() if l.split(' ', 1)[1].startswith('verif hook')]
man = {
 'version': 1,
 'setup_cmd': 'sh engine/vsymex/build.sh',
 'hooks': {'guard': 'LIBVATA_VERIF', 'enable': 'every check compiles the /repo sources itself (clang++-14 to LLVM IR for the engine, g++ for the native twin) with -DLIBVATA_VERIF; the only hook is a pair of read-only accessors for the MTBDD unique-table sizes (C18)',
           'baseline_off_cmd': 'cmake --build /repo/_build -j16 && ctest --test-dir /repo/_build -j8 --timeout 900', 'source_commits': hooks, 'add_only': True},
 'engines': [{'name': 'vsymex', 'path': 'engine/vsymex', 'serves_properties': [p['id'] for p in props if CLAIMS.get(p['id'], {}).get('claimed')],
              'kind_free_text': 'own bounded symbolic executor over the LLVM-14 IR of the real sources (clang -O1, real libstdc++ headers) with state merging at post-dominators; terms normalised to reduced ordered decision diagrams over input bits / theory atoms; z3 decides queries with theory atoms and produces every counterexample; native g++/ASan/UBSan twin for translation validation and replay'}],
 'checks': [], 'not_applicable': [],
 'notes': 'DESIGN.md describes the engine and, per property, bounds and what is outside them. known_findings.json lists the genuine defects found (all repaired by fix: commits so far). seeded/ holds independently written breaking changes and which checks catch them.',
}
for p in props:
    pid = p['id']; c = CLAIMS.get(pid, {})
    if c.get('claimed') and pid in REG.CHECKS:
        spec = REG.CHECKS[pid]
        man['checks'].append({
            'property_id': pid, 'quick_cmd': 'python3 vcheck.py %s quick' % pid, 'thorough_cmd': 'python3 vcheck.py %s thorough' % pid,
            'evidence_file': 'evidence/%s.json' % pid, 'replay_cmd_template': 'python3 vreplay.py {path}', 'engine': 'vsymex',
            'level_claimed': {'category': spec.get('level', 'model_checking'), 'text': c['text'], 'design_ref': 'DESIGN.md section 4, ' + pid},
            'level_note': c.get('note', 'bounded: all inputs of the universes listed in the evidence (bounds/outside_bounds), nothing beyond; trusted base: clang-14 -O1, vsymex, engine/rt/models.cc, z3; guarded on every run by translation validation against a native ASan/UBSan twin, a vacuity witness and seeded-fault twins; counterexamples are replayed natively before being reported'),
            'technique': c.get('technique', 'bounded symbolic execution of the LLVM IR of the real code (state merging, decision-diagram normal form + z3), all inputs of small universes')})
    else:
        man['not_applicable'].append({'property_id': pid, 'reason': c.get('reason', 'no check built')})
json.dump(man, open(os.path.join(VERIF, 'MANIFEST.json'), 'w'), indent=1)
print('claimed:', [c['property_id'] for c in man['checks']]); print('not applicable:', [c['property_id'] for c in man['not_applicable']])
