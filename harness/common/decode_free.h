// Numbering-independent decoding of a library automaton: the state numbers that occur in the automaton are collected
// into a slot table (slot = order of first occurrence while iterating) and the rules / final states are decoded over the
// SLOT indices 0..N-1 of the concrete universe U(N, SYM_RANKS).  Nothing is assumed about the numbers themselves (dense,
// sparse, from 0 or not): only that at most N distinct states occur.  Everything that is then computed on the decoded
// masks (languages, numbers of states / rules, reachability) is invariant under the slot assignment, so a library that
// numbers the states of its result differently decodes to an isomorphic SymAut.  One pass over the automaton; state
// numbers may be symbolic values (they are only compared with each other, never used as indices).
#pragma once
#include "universe.h"
namespace U {
template <unsigned N> struct Slots {
  unsigned long name[N]; bool used[N]; bool ok;     // ok = false: more than N distinct states were seen
  Slots() { ok = true; for (unsigned s = 0; s < N; ++s) { name[s] = 0; used[s] = false; } }
  // one-hot slot of state q; a state not seen before takes the first free slot
  void locate(unsigned long q, bool* hot) {
    bool placed = false;
    for (unsigned s = 0; s < N; ++s) { hot[s] = used[s] & (name[s] == q); placed = placed | hot[s]; }
    for (unsigned s = 0; s < N; ++s) { bool here = !placed & !used[s]; name[s] = here ? q : name[s]; used[s] = used[s] | here; hot[s] = hot[s] | here; placed = placed | here; }
    ok = ok & placed;
  }
  // one-hot slot of state q without entering it (all false if q has not been seen)
  void find(unsigned long q, bool* hot) const { for (unsigned s = 0; s < N; ++s) hot[s] = used[s] & (name[s] == q); }
  unsigned count() const { unsigned c = 0; for (unsigned s = 0; s < N; ++s) c += used[s]; return c; }
};
// decode aut over the slots; false if more than N distinct states occur or a rule is not a universe rule (symbol / rank);
// symName (optional): library number of universe symbol f (default f)
template <unsigned N, class Aut> static bool decodeFree(const Aut& aut, SymAut<N>& out, Slots<N>& sl, const unsigned long* symName = 0)
{
  out.nrules = Univ<N>::count();
  for (unsigned i = 0; i < out.nrules; ++i) out.pres[i] = false;
  for (unsigned s = 0; s < N; ++s) out.fin[s] = false;
  bool ok = true;
  for (const typename Aut::Transition& t : aut) {
    bool hp[N], hc[3][N]; for (unsigned k = 0; k < 3; ++k) for (unsigned s = 0; s < N; ++s) hc[k][s] = false;
    sl.locate(t.GetParent(), hp);
    const unsigned long n = t.GetChildren().size();
    for (unsigned k = 0; k < 3; ++k) if (k < n) sl.locate(t.GetChildren()[k], hc[k]);
    bool matched = false;
    for (unsigned i = 0; i < out.nrules; ++i) { Rule r = Univ<N>::rule(i);
      bool m = (t.GetSymbol() == (symName ? symName[r.sym] : symnum(r.sym))) & (n == r.rank) & hp[r.parent];
      for (unsigned k = 0; k < r.rank; ++k) m = m & hc[k][r.child[k]];
      out.pres[i] = out.pres[i] | m; matched = matched | m; }
    ok = ok & matched;
  }
  for (const auto& f : aut.GetFinalStates()) { bool hf[N]; sl.locate(f, hf); for (unsigned s = 0; s < N; ++s) out.fin[s] = out.fin[s] | hf[s]; }
  return ok & sl.ok;
}
}
