// C19 helpers: build the library automaton of a symbolic automaton (U::SymAut<N>) as a *twin*: states renamed by a
// bijection (all permutations of 0..N-1, optionally spread to sparse numbers), symbols renumbered, and the rules / final
// states inserted in a different order.  The twin selection may be symbolic (built from vs_range): it is resolved by an
// explicit case split so that every AddTransition is executed with concrete state numbers.
#pragma once
#include "universe.h"
namespace TW {
// all permutations of up to 3 states (row = permutation index; row 0 = identity)
static const unsigned char PERM1[1][3] = {{0, 0, 0}};
static const unsigned char PERM2[2][3] = {{0, 1, 0}, {1, 0, 0}};
static const unsigned char PERM3[6][3] = {{0, 1, 2}, {1, 0, 2}, {0, 2, 1}, {2, 1, 0}, {1, 2, 0}, {2, 0, 1}};
template <unsigned N> struct Perms;
template <> struct Perms<1> { enum { COUNT = 1 }; static unsigned at(unsigned p, unsigned s) { return PERM1[p][s]; } };
template <> struct Perms<2> { enum { COUNT = 2 }; static unsigned at(unsigned p, unsigned s) { return PERM2[p][s]; } };
template <> struct Perms<3> { enum { COUNT = 6 }; static unsigned at(unsigned p, unsigned s) { return PERM3[p][s]; } };
enum { NORDERS = 4 };
// position j of insertion order `order` over n items: 0 forward, 1 backward, 2 rotated by n/2, 3 odd indices first, then even
static inline unsigned ordIndex(unsigned order, unsigned j, unsigned n) {
  if (order == 0) return j;
  if (order == 1) return n - 1 - j;
  if (order == 2) return (j + n / 2) % n;
  unsigned nodd = n / 2; return j < nodd ? 2 * j + 1 : 2 * (j - nodd);
}
// a concrete twin: library state of universe state s is base + stride * perm[s]; library symbol of universe symbol k is sym[k]
struct Twin { unsigned perm, order, base, stride; const unsigned* sym; };
template <unsigned N> static inline unsigned stateOf(const Twin& t, unsigned s) { return t.base + t.stride * Perms<N>::at(t.perm, s); }
static inline unsigned long symOf(const Twin& t, unsigned k) { return t.sym ? t.sym[k] : k; }
template <unsigned N, class Aut> static void buildConcrete(const U::SymAut<N>& a, Aut& aut, const Twin& t) {
  for (unsigned j = 0; j < a.nrules; ++j) { const unsigned i = ordIndex(t.order, j, a.nrules);
    if (a.pres[i]) { U::Rule r = U::Univ<N>::rule(i); typename Aut::StateTuple tup;
      for (unsigned k = 0; k < r.rank; ++k) tup.push_back(stateOf<N>(t, r.child[k]));
      aut.AddTransition(tup, symOf(t, r.sym), stateOf<N>(t, r.parent)); } }
  for (unsigned j = 0; j < N; ++j) { const unsigned s = ordIndex(t.order, j, N); if (a.fin[s]) aut.SetStateFinal(stateOf<N>(t, s)); }
}
// perm < Perms<N>::COUNT and order < norders may be symbolic: case split
template <unsigned N, class Aut> static void build(const U::SymAut<N>& a, Aut& aut, unsigned perm, unsigned order, unsigned norders, unsigned base = 0, unsigned stride = 1, const unsigned* sym = 0) {
  for (unsigned p = 0; p < (unsigned)Perms<N>::COUNT; ++p) for (unsigned o = 0; o < norders; ++o)
    if (perm == p && order == o) { Twin t = {p, o, base, stride, sym}; buildConcrete<N>(a, aut, t); }
}
}
