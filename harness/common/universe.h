// Rule universe U(NS, Σ) for tree automata harnesses: all rules over states 0..NS-1 and the ranked alphabet given by
// the macro SYM_RANKS (a brace list of ranks <= 3, one per symbol; symbol i has number i).  The solver variables of a
// symbolic automaton are one presence bit per universe rule and one finality bit per state.
#pragma once
#include "vs.h"
#ifndef NS
#define NS 2
#endif
#ifndef SYM_RANKS
#define SYM_RANKS {0, 1}
#endif
namespace U {
static const unsigned char RANK[] = SYM_RANKS;
enum { NSYM = sizeof(RANK) / sizeof(RANK[0]) };
constexpr unsigned ipow(unsigned b, unsigned e) { return e == 0 ? 1 : b * ipow(b, e - 1); }
constexpr unsigned rulesOfRank(unsigned ns, unsigned r) { return ns * ipow(ns, r); }
// rule index layout: for symbol s (in order), parent p, children tuple t (base-NS number, first child most significant)
struct Rule { unsigned char sym, rank, parent, child[3]; };
// library symbol number of universe symbol s.  With SAME_SYMNUM every symbol of the universe has the SAME number (the ranks of
// SYM_RANKS must then be pairwise different): one symbol number used with several arities, which the explicit encoding permits
// through AddTransition; in the reference semantics (number, arity) is the symbol.
#ifdef SAME_SYMNUM
static inline unsigned symnum(unsigned) { return SAME_SYMNUM; }
#else
static inline unsigned symnum(unsigned s) { return s; }
#endif
template <unsigned N> struct Univ {
  static unsigned count() { unsigned c = 0; for (unsigned s = 0; s < NSYM; ++s) c += rulesOfRank(N, RANK[s]); return c; }
  static Rule rule(unsigned idx) {
    Rule r; r.child[0] = r.child[1] = r.child[2] = 0;
    for (unsigned s = 0; s < NSYM; ++s) {
      unsigned k = rulesOfRank(N, RANK[s]);
      if (idx < k) { r.sym = s; r.rank = RANK[s]; unsigned per = ipow(N, RANK[s]); r.parent = idx / per; unsigned t = idx % per;
        if (r.rank == 1) r.child[0] = t; else if (r.rank == 2) { r.child[0] = t / N; r.child[1] = t % N; }
        else if (r.rank == 3) { r.child[0] = t / (N * N); r.child[1] = (t / N) % N; r.child[2] = t % N; } return r; }
      idx -= k;
    }
    r.sym = 255; r.rank = 0; r.parent = 0; return r;
  }
  static unsigned index(unsigned sym, unsigned parent, unsigned c0, unsigned c1, unsigned c2 = 0) {
    unsigned base = 0; for (unsigned s = 0; s < sym; ++s) base += rulesOfRank(N, RANK[s]);
    unsigned per = ipow(N, RANK[sym]); unsigned t = RANK[sym] == 0 ? 0 : RANK[sym] == 1 ? c0 : RANK[sym] == 2 ? c0 * N + c1 : (c0 * N + c1) * N + c2;
    return base + parent * per + t;
  }
};
enum { MAXRULES = 128 };
// a symbolic (or, in the native twin, replayed) automaton over N states
template <unsigned N> struct SymAut {
  bool pres[MAXRULES]; bool fin[N]; unsigned nrules;
  // mask: which universe rules are candidates at all (bit i = rule i); the others are absent and draw no input
  void draw(unsigned long mask = ~0ul) { nrules = Univ<N>::count(); for (unsigned i = 0; i < nrules; ++i) pres[i] = (i < 64 ? ((mask >> i) & 1) != 0 : mask == ~0ul) ? vs_bit() : false;   /* rules 64.. are candidates only without a mask */ for (unsigned s = 0; s < N; ++s) fin[s] = vs_bit(); }
  // candidate mask of the "triangular" sub-universe: a rule is a candidate iff its parent number is <= every child number
  static unsigned long triangular() { unsigned long m = 0; unsigned n = Univ<N>::count(); for (unsigned i = 0; i < n; ++i) { Rule r = Univ<N>::rule(i); bool ok = true; for (unsigned k = 0; k < r.rank; ++k) ok = ok && r.parent <= r.child[k]; if (ok) m |= 1ul << i; } return m; }
  bool has(unsigned sym, unsigned parent, unsigned c0 = 0, unsigned c1 = 0, unsigned c2 = 0) const { return pres[Univ<N>::index(sym, parent, c0, c1, c2)]; }
  template <class Aut> void build(Aut& aut, const unsigned* rename = 0) const {
    for (unsigned j = 0; j < nrules; ++j) {
#ifdef BUILD_REV      // rules are added in reverse universe order (tuple objects are created - and addressed - in that order)
      const unsigned i = nrules - 1 - j;
#else
      const unsigned i = j;
#endif
      if (!pres[i]) continue;
      Rule r = Univ<N>::rule(i); typename Aut::StateTuple t;
      for (unsigned k = 0; k < r.rank; ++k) t.push_back(rename ? rename[r.child[k]] : r.child[k]);
      aut.AddTransition(t, symnum(r.sym), rename ? rename[r.parent] : r.parent);
    }
    for (unsigned s = 0; s < N; ++s) if (fin[s]) aut.SetStateFinal(rename ? rename[s] : s);
  }
};
// ---- reference semantics on bit masks (independent of libvata; naive fixpoints, constant loop bounds) ----
template <unsigned N> unsigned productive(const SymAut<N>& a) {
  unsigned prod = 0;
  for (unsigned it = 0; it < N; ++it)
    for (unsigned i = 0; i < a.nrules; ++i) { Rule r = Univ<N>::rule(i); bool ok = a.pres[i];
      for (unsigned k = 0; k < r.rank; ++k) ok = ok & ((prod >> r.child[k]) & 1);
      prod |= (unsigned)ok << r.parent; }
  return prod;
}
template <unsigned N> unsigned finalMask(const SymAut<N>& a) { unsigned m = 0; for (unsigned s = 0; s < N; ++s) m |= (unsigned)a.fin[s] << s; return m; }
// states reachable top-down from final states (through any rule)
template <unsigned N> unsigned reachableTD(const SymAut<N>& a) {
  unsigned reach = finalMask(a);
  for (unsigned it = 0; it < N; ++it)
    for (unsigned i = 0; i < a.nrules; ++i) { Rule r = Univ<N>::rule(i); bool on = a.pres[i] & ((reach >> r.parent) & 1);
      for (unsigned k = 0; k < r.rank; ++k) reach |= (unsigned)on << r.child[k]; }
  return reach;
}
// states reachable top-down from final states through rules whose children are all productive (= useful states, if productive themselves)
template <unsigned N> unsigned usefulStates(const SymAut<N>& a) {
  unsigned prod = productive(a); unsigned reach = finalMask(a) & prod;
  for (unsigned it = 0; it < N; ++it)
    for (unsigned i = 0; i < a.nrules; ++i) { Rule r = Univ<N>::rule(i); bool on = a.pres[i] & ((reach >> r.parent) & 1);
      for (unsigned k = 0; k < r.rank; ++k) on = on & ((prod >> r.child[k]) & 1);
      for (unsigned k = 0; k < r.rank; ++k) reach |= (unsigned)on << r.child[k]; }
  return reach;
}
template <unsigned N> bool langEmpty(const SymAut<N>& a) { return (productive(a) & finalMask(a)) == 0; }
// L(A) subseteq L(B): reachable (state of A, macro-state of B) pairs, bottom-up
template <unsigned PA, unsigned PB> bool included(const SymAut<PA>& a, const SymAut<PB>& b) {
  enum { MS = 1u << PB };
  bool tab[PA][MS]; for (unsigned q = 0; q < PA; ++q) for (unsigned S = 0; S < MS; ++S) tab[q][S] = false;
  // post of B for symbol s on macro-states (S0,S1)
  for (unsigned it = 0; it < PA * MS; ++it) {
    for (unsigned i = 0; i < a.nrules; ++i) { Rule r = Univ<PA>::rule(i);
      if (r.rank == 0) {
        unsigned S = 0; for (unsigned p = 0; p < PB; ++p) S |= (unsigned)b.has(r.sym, p) << p;
        // S is data dependent: set tab[parent][S] for the actual S
        for (unsigned X = 0; X < MS; ++X) tab[r.parent][X] |= a.pres[i] & (S == X);
      } else if (r.rank == 1) {
        for (unsigned S0 = 0; S0 < MS; ++S0) { bool en = a.pres[i] & tab[r.child[0]][S0];
          unsigned S = 0; for (unsigned p = 0; p < PB; ++p) { bool any = false; for (unsigned c = 0; c < PB; ++c) any |= b.has(r.sym, p, c) & ((S0 >> c) & 1); S |= (unsigned)any << p; }
          for (unsigned X = 0; X < MS; ++X) tab[r.parent][X] |= en & (S == X); }
      } else if (r.rank == 3) {
        for (unsigned S0 = 0; S0 < MS; ++S0) for (unsigned S1 = 0; S1 < MS; ++S1) for (unsigned S2 = 0; S2 < MS; ++S2) { bool en = a.pres[i] & tab[r.child[0]][S0] & tab[r.child[1]][S1] & tab[r.child[2]][S2];
          unsigned S = 0; for (unsigned p = 0; p < PB; ++p) { bool any = false; for (unsigned c = 0; c < PB; ++c) for (unsigned d = 0; d < PB; ++d) for (unsigned e = 0; e < PB; ++e) any |= b.has(r.sym, p, c, d, e) & ((S0 >> c) & 1) & ((S1 >> d) & 1) & ((S2 >> e) & 1); S |= (unsigned)any << p; }
          for (unsigned X = 0; X < MS; ++X) tab[r.parent][X] |= en & (S == X); }
      } else {
        for (unsigned S0 = 0; S0 < MS; ++S0) for (unsigned S1 = 0; S1 < MS; ++S1) { bool en = a.pres[i] & tab[r.child[0]][S0] & tab[r.child[1]][S1];
          unsigned S = 0; for (unsigned p = 0; p < PB; ++p) { bool any = false; for (unsigned c = 0; c < PB; ++c) for (unsigned d = 0; d < PB; ++d) any |= b.has(r.sym, p, c, d) & ((S0 >> c) & 1) & ((S1 >> d) & 1); S |= (unsigned)any << p; }
          for (unsigned X = 0; X < MS; ++X) tab[r.parent][X] |= en & (S == X); }
      }
    }
  }
  unsigned fb = finalMask(b); bool bad = false;
  for (unsigned q = 0; q < PA; ++q) for (unsigned S = 0; S < MS; ++S) bad |= tab[q][S] & a.fin[q] & ((S & fb) == 0);
  return !bad;
}
}
