// Reference semantics of tree-automata simulations on the rule universe of universe.h (independent of libvata: naive
// greatest fixpoints of the textbook definitions, constant loop bounds, branch-free on the solver bits), plus a symbolic
// permutation of the state numbers (for "the result does not depend on the numbering").
#pragma once
#include "universe.h"
namespace U {
// mask of the states that occur in the automaton (parent or child of a present rule, or final)
template <unsigned N> unsigned occurring(const SymAut<N>& a) {
  unsigned m = finalMask(a);
  for (unsigned i = 0; i < a.nrules; ++i) { Rule r = Univ<N>::rule(i); m |= (unsigned)a.pres[i] << r.parent;
    for (unsigned k = 0; k < r.rank; ++k) m |= (unsigned)a.pres[i] << r.child[k]; }
  return m;
}
template <unsigned N> bool hasRankAtLeast2(const SymAut<N>& a) {
  bool h = false; for (unsigned i = 0; i < a.nrules; ++i) h |= a.pres[i] & (Univ<N>::rule(i).rank >= 2); return h;
}
// Greatest downward simulation: (q,r) in S iff every rule a(q1..qk)->q is answered by a rule a(r1..rk)->r with (qi,ri) in S.
// dropSym: rules of this symbol are ignored on the challenger side (seeded-fault selftests only; pass NSYM for none)
template <unsigned N> void downwardSimulation(const SymAut<N>& a, bool S[N][N], unsigned dropSym = NSYM) {
  for (unsigned q = 0; q < N; ++q) for (unsigned r = 0; r < N; ++r) S[q][r] = true;
  for (unsigned it = 0; it < N * N; ++it)
    for (unsigned q = 0; q < N; ++q) for (unsigned r = 0; r < N; ++r) {
      bool ok = true;
      for (unsigned i = 0; i < a.nrules; ++i) { Rule ri = Univ<N>::rule(i); if (ri.parent != q || ri.sym == dropSym) continue;
        bool answered = false;
        for (unsigned j = 0; j < a.nrules; ++j) { Rule rj = Univ<N>::rule(j); if (rj.parent != r || rj.sym != ri.sym) continue;
          bool m = a.pres[j]; for (unsigned k = 0; k < ri.rank; ++k) m &= S[ri.child[k]][rj.child[k]];
          answered |= m; }
        ok &= !a.pres[i] | answered; }
      S[q][r] &= ok;
    }
}
// Greatest upward simulation (induced by the identity on siblings): (q,r) in S implies that r is final whenever q is and
// that every rule with q at child position k is answered by a rule of the same symbol with r at position k, the same
// siblings at the other positions, and a parent related to the parent of the former.
template <unsigned N> void upwardSimulation(const SymAut<N>& a, bool S[N][N], bool ignoreFinal = false) {
  for (unsigned q = 0; q < N; ++q) for (unsigned r = 0; r < N; ++r) S[q][r] = ignoreFinal | !a.fin[q] | a.fin[r];
  for (unsigned it = 0; it < N * N; ++it)
    for (unsigned q = 0; q < N; ++q) for (unsigned r = 0; r < N; ++r) {
      bool ok = true;
      for (unsigned i = 0; i < a.nrules; ++i) { Rule ri = Univ<N>::rule(i);
        for (unsigned k = 0; k < ri.rank; ++k) { if (ri.child[k] != q) continue;
          bool answered = false;
          for (unsigned j = 0; j < a.nrules; ++j) { Rule rj = Univ<N>::rule(j); if (rj.sym != ri.sym || rj.child[k] != r) continue;
            bool same = true; for (unsigned m = 0; m < ri.rank; ++m) if (m != k && ri.child[m] != rj.child[m]) same = false;
            if (!same) continue;
            answered |= a.pres[j] & S[ri.parent][rj.parent]; }
          ok &= !a.pres[i] | answered; } }
      S[q][r] &= ok;
    }
}
// draw a symbolic automaton inside a sub-universe: rule i may be present only if bit i of mask is set (all finality bits are drawn)
template <unsigned N> void drawMasked(SymAut<N>& a, unsigned long mask) {
  a.nrules = Univ<N>::count();
  for (unsigned i = 0; i < a.nrules; ++i) a.pres[i] = ((mask >> i) & 1) ? vs_bit() : false;
  for (unsigned s = 0; s < N; ++s) a.fin[s] = vs_bit();
}
// a permutation of 0..N-1 drawn from input bits (Lehmer code; N <= 4)
template <unsigned N> struct Perm {
  unsigned p[N];
  void identity() { for (unsigned i = 0; i < N; ++i) p[i] = i; }
  void draw() {
    bool used[N]; for (unsigned i = 0; i < N; ++i) used[i] = false;
    for (unsigned i = 0; i < N; ++i) {
      unsigned c = vs_range(N - i);                       // the c-th unused number
      unsigned seen = 0, val = 0; bool taken = false;
      for (unsigned v = 0; v < N; ++v) { bool hit = !used[v] & !taken & (seen == c); val = hit ? v : val; taken |= hit; seen += !used[v]; }
      for (unsigned v = 0; v < N; ++v) used[v] |= (val == v);
      p[i] = val;
    }
  }
  // the k-th permutation in Lehmer-code order (k in [0, N!)), as a compile-time alternative to draw()
  void fixed(unsigned k) {
    bool used[N]; for (unsigned i = 0; i < N; ++i) used[i] = false;
    unsigned fact = 1; for (unsigned i = 2; i <= N; ++i) fact *= i;
    for (unsigned i = 0; i < N; ++i) { fact /= (N - i); unsigned c = k / fact; k %= fact;
      unsigned seen = 0; for (unsigned v = 0; v < N; ++v) { if (used[v]) continue; if (seen == c) { p[i] = v; used[v] = true; break; } ++seen; } }
  }
  // relation S on canonical numbers -> relation on renamed numbers: E[p[q]][p[r]] = S[q][r]
  void apply(const bool S[N][N], bool E[N][N]) const {
    for (unsigned x = 0; x < N; ++x) for (unsigned y = 0; y < N; ++y) { bool v = false;
      for (unsigned q = 0; q < N; ++q) for (unsigned r = 0; r < N; ++r) v |= (p[q] == x) & (p[r] == y) & S[q][r];
      E[x][y] = v; }
  }
  unsigned applyMask(unsigned m) const { unsigned o = 0; for (unsigned q = 0; q < N; ++q) for (unsigned x = 0; x < N; ++x) o |= (unsigned)(((m >> q) & 1) & (p[q] == x)) << x; return o; }
};
}
