// Rule universe R(NS, SYMS) for the container / value-semantics harnesses (C12, C11): all rules over the states
// 0..NS-1 and the list SYMS of (symbol number, rank) pairs, rank <= 2.  Unlike universe.h the same symbol number may occur
// with several ranks (libvata keeps such rules in one symbol -> tuple-set map entry).  A *set of rules* is a bool array
// indexed by universe position (one decision diagram per rule, no wide symbolic words); sets of states are bit masks.
#pragma once
#include "vs.h"
#ifndef NS
#define NS 2
#endif
#ifndef SYMS
#define SYMS {{0, 0}, {0, 1}}
#endif
namespace RS {
struct SymRank { unsigned char sym, rank; };
static const SymRank SR[] = SYMS;
enum { NSR = sizeof(SR) / sizeof(SR[0]), MAXR = 48 };
constexpr unsigned ipow(unsigned b, unsigned e) { return e == 0 ? 1 : b * ipow(b, e - 1); }
struct Rule { unsigned char sym, rank, parent, child[2]; };
// layout: for each (symbol, rank) entry in order: parent-major, then the children tuple as base-NS number
static inline unsigned count() { unsigned c = 0; for (unsigned e = 0; e < NSR; ++e) c += NS * ipow(NS, SR[e].rank); return c; }
static inline Rule rule(unsigned idx)
{
  Rule r; r.child[0] = r.child[1] = 0;
  for (unsigned e = 0; e < NSR; ++e) {
    unsigned per = ipow(NS, SR[e].rank), k = NS * per;
    if (idx < k) { r.sym = SR[e].sym; r.rank = SR[e].rank; r.parent = idx / per; unsigned t = idx % per;
      if (r.rank == 1) r.child[0] = t; else if (r.rank == 2) { r.child[0] = t / NS; r.child[1] = t % NS; } return r; }
    idx -= k;
  }
  r.sym = 255; r.rank = 0; r.parent = 0; return r;
}
// a value: set of rules + set of final states (the shadow of one automaton object)
struct Val {
  bool pres[MAXR]; unsigned fin;
  void clear() { for (unsigned i = 0; i < MAXR; ++i) pres[i] = false; fin = 0; }
  bool noRules() const { bool any = false; for (unsigned i = 0; i < count(); ++i) any |= pres[i]; return !any; }
  // states occurring in some rule or in the final set
  unsigned used() const { unsigned m = fin; for (unsigned i = 0; i < count(); ++i) { Rule r = rule(i); unsigned o = 1u << r.parent; for (unsigned k = 0; k < r.rank; ++k) o |= 1u << r.child[k]; m |= pres[i] ? o : 0u; } return m; }
  unsigned parents() const { unsigned m = 0; for (unsigned i = 0; i < count(); ++i) m |= (unsigned)pres[i] << rule(i).parent; return m; }
};
static inline bool equal(const Val& a, const Val& b) { bool e = a.fin == b.fin; for (unsigned i = 0; i < count(); ++i) e = e & (a.pres[i] == b.pres[i]); return e; }
// ---- reference semantics (naive fixpoints, constant bounds, independent of libvata)
static inline unsigned productive(const Val& a)
{
  unsigned prod = 0;
  for (unsigned it = 0; it < NS; ++it)
    for (unsigned i = 0; i < count(); ++i) { Rule r = rule(i); bool ok = a.pres[i];
      for (unsigned k = 0; k < r.rank; ++k) ok = ok & ((prod >> r.child[k]) & 1);
      prod |= (unsigned)ok << r.parent; }
  return prod;
}
// states reachable top-down from the states in 'from' through rules (optionally only rules whose children are all in 'via')
static inline unsigned reachTD(const Val& a, unsigned from, unsigned via = ~0u)
{
  unsigned reach = from;
  for (unsigned it = 0; it < NS; ++it)
    for (unsigned i = 0; i < count(); ++i) { Rule r = rule(i); bool on = a.pres[i] & ((reach >> r.parent) & 1);
      for (unsigned k = 0; k < r.rank; ++k) on = on & ((via >> r.child[k]) & 1);
      for (unsigned k = 0; k < r.rank; ++k) reach |= (unsigned)on << r.child[k]; }
  return reach;
}
// the value without rules whose parent cannot be reached top-down from a final state (final states kept)
static inline Val withoutUnreachable(const Val& a)
{
  Val r; r.clear(); r.fin = a.fin; unsigned reach = reachTD(a, a.fin);
  for (unsigned i = 0; i < count(); ++i) r.pres[i] = a.pres[i] & ((reach >> rule(i).parent) & 1);
  return r;
}
// the value restricted to rules that occur in some accepting run (final states: the productive ones)
static inline Val withoutUseless(const Val& a)
{
  Val r; r.clear(); unsigned prod = productive(a); r.fin = a.fin & prod; unsigned useful = reachTD(a, r.fin, prod);
  for (unsigned i = 0; i < count(); ++i) { Rule u = rule(i); bool ok = a.pres[i] & ((useful >> u.parent) & 1);
    for (unsigned k = 0; k < u.rank; ++k) ok = ok & ((prod >> u.child[k]) & 1);
    r.pres[i] = ok; }
  return r;
}
// add universe rule i to a libvata automaton
template <class Aut> static inline void addRule(Aut& aut, unsigned i)
{
  Rule r = rule(i); typename Aut::StateTuple t;
  for (unsigned k = 0; k < r.rank; ++k) t.push_back(r.child[k]);
  aut.AddTransition(t, r.sym, r.parent);
}
// position of a transition in the universe, or count() if it is not a universe rule
template <class Trans> static inline unsigned position(const Trans& t)
{
  unsigned pos = count();
  for (unsigned i = 0; i < count(); ++i) { Rule r = rule(i);
    bool m = t.GetSymbol() == r.sym && t.GetParent() == r.parent && t.GetChildren().size() == r.rank;
    for (unsigned k = 0; k < r.rank; ++k) m = m && t.GetChildren()[k] == r.child[k];
    if (m) pos = i; }
  return pos;
}
// read a container of transitions into a rule set; ok = every element is a universe rule and none is yielded twice
template <class Range> static inline bool readRules(const Range& range, bool* out)
{
  for (unsigned i = 0; i < MAXR; ++i) out[i] = false;
  bool ok = true; unsigned n = 0;
  for (const auto& t : range) {
    if (++n > count()) { ok = false; break; }         // more elements than distinct universe rules: duplicates or a cycle
    bool matched = false;
    for (unsigned i = 0; i < count(); ++i) { Rule r = rule(i);
      bool m = t.GetSymbol() == r.sym && t.GetParent() == r.parent && t.GetChildren().size() == r.rank;
      for (unsigned k = 0; k < r.rank; ++k) m = m && t.GetChildren()[k] == r.child[k];
      ok = ok & !(m & out[i]); out[i] = out[i] | m; matched = matched | m; }
    ok = ok & matched;
  }
  return ok;
}
}
