// Shared helpers of the BDD-encoded tree automata harnesses (C08, C07): symbolic mask automata over the rule universe
// U(N, SYM_RANKS) (universe.h), loading them into BDDBottomUpTreeAut / BDDTopDownTreeAut through the public API
// (LoadFromString with a parser that hands over a prepared AutDescription), decoding DumpToString output (through a
// serializer that receives the AutDescription) back into masks, and reference semantics on masks (independent of
// libvata: naive fixpoints with constant bounds, macro-state inclusion).
#pragma once
#include <vata/bdd_bu_tree_aut.hh>
#include <vata/bdd_td_tree_aut.hh>
#include "universe.h"
namespace BA {
typedef VATA::Util::AutDescription Desc;
typedef VATA::AutBase::StateDict StateDict;
typedef VATA::AutBase::StateType StateType;
enum { MAXQ = 8 };
// state k is called QN[k] everywhere; symbol s is called SN[s] (with SAME_NAME every symbol is called "a": symbols are
// then told apart by their rank only, which is what the arity prefix of the top-down encoding exists for)
static const char* const QN[MAXQ] = {"q0", "q1", "q2", "q3", "q4", "q5", "q6", "q7"};
#ifdef SAME_NAME
static const char* const SN[6] = {"a", "a", "a", "a", "a", "a"};
#else
static const char* const SN[6] = {"a", "b", "c", "d", "e", "f"};
#endif
constexpr unsigned char RK[] = SYM_RANKS;
constexpr unsigned cnt(unsigned n, unsigned s = 0) { return s == U::NSYM ? 0 : U::rulesOfRank(n, RK[s]) + cnt(n, s + 1); }

// ---- mask automaton over N states: presence bit per universe rule, finality bit per state
template <unsigned N> struct Aut {
  enum { NR = cnt(N) };
  bool pres[NR]; bool fin[N];
  void clear() { for (unsigned i = 0; i < NR; ++i) pres[i] = false; for (unsigned s = 0; s < N; ++s) fin[s] = false; }
  // rule i is a solver variable iff bit i of `freeRules` is set (else absent); state s may be final iff bit s of freeFin
  void draw(unsigned long freeRules = ~0ul, unsigned freeFin = ~0u) {
    for (unsigned i = 0; i < NR; ++i) pres[i] = (i >= 64 || ((freeRules >> i) & 1)) ? vs_bit() : false;
    for (unsigned s = 0; s < N; ++s) fin[s] = ((freeFin >> s) & 1) ? vs_bit() : false; }
  void drawFinals() { for (unsigned s = 0; s < N; ++s) fin[s] = vs_bit(); }
  bool has(unsigned sym, unsigned parent, unsigned c0 = 0, unsigned c1 = 0) const { return pres[U::Univ<N>::index(sym, parent, c0, c1)]; }
  unsigned long ruleMask() const { unsigned long m = 0; for (unsigned i = 0; i < NR; ++i) m |= (unsigned long)pres[i] << (i & 63); return m; }
  unsigned finalMask() const { unsigned m = 0; for (unsigned s = 0; s < N; ++s) m |= (unsigned)fin[s] << s; return m; }
};

// ---- reference semantics
template <unsigned N> unsigned productive(const Aut<N>& a) {
  unsigned prod = 0;
  for (unsigned it = 0; it < N; ++it)
    for (unsigned i = 0; i < Aut<N>::NR; ++i) { U::Rule r = U::Univ<N>::rule(i); bool ok = a.pres[i];
      for (unsigned k = 0; k < r.rank; ++k) ok = ok & ((prod >> r.child[k]) & 1);
      prod |= (unsigned)ok << r.parent; }
  return prod;
}
// states reachable top-down from final states through any rule
template <unsigned N> unsigned reachableTD(const Aut<N>& a) {
  unsigned reach = a.finalMask();
  for (unsigned it = 0; it < N; ++it)
    for (unsigned i = 0; i < Aut<N>::NR; ++i) { U::Rule r = U::Univ<N>::rule(i); bool on = a.pres[i] & ((reach >> r.parent) & 1);
      for (unsigned k = 0; k < r.rank; ++k) reach |= (unsigned)on << r.child[k]; }
  return reach;
}
// states that occur in an accepting run
template <unsigned N> unsigned useful(const Aut<N>& a) {
  unsigned prod = productive(a); unsigned reach = a.finalMask() & prod;
  for (unsigned it = 0; it < N; ++it)
    for (unsigned i = 0; i < Aut<N>::NR; ++i) { U::Rule r = U::Univ<N>::rule(i); bool on = a.pres[i] & ((reach >> r.parent) & 1);
      for (unsigned k = 0; k < r.rank; ++k) on = on & ((prod >> r.child[k]) & 1);
      for (unsigned k = 0; k < r.rank; ++k) reach |= (unsigned)on << r.child[k]; }
  return reach;
}
// states mentioned by a rule (as parent or child) or final
template <unsigned N> unsigned occurring(const Aut<N>& a) {
  unsigned m = a.finalMask();
  for (unsigned i = 0; i < Aut<N>::NR; ++i) { U::Rule r = U::Univ<N>::rule(i); m |= (unsigned)a.pres[i] << r.parent; for (unsigned k = 0; k < r.rank; ++k) m |= (unsigned)a.pres[i] << r.child[k]; }
  return m;
}
// L(a) subseteq L(b): the pairs (state q of a, macro-state S of b) such that some tree t has a run of a to q and S is
// exactly the set of states of b that t reaches; tab[q] is a bit set over macro-states (PB <= 6)
template <unsigned PA, unsigned PB> bool included(const Aut<PA>& a, const Aut<PB>& b) {
  enum { MS = 1u << PB };
  // bottom-up successor function of b on macro-states, per symbol
  unsigned post0[U::NSYM]; unsigned post1[U::NSYM][MS]; unsigned post2[U::NSYM][MS][MS];
  for (unsigned s = 0; s < U::NSYM; ++s) {
    if (RK[s] == 0) { unsigned m = 0; for (unsigned p = 0; p < PB; ++p) m |= (unsigned)b.has(s, p) << p; post0[s] = m; }
    else if (RK[s] == 1) {
      for (unsigned S = 0; S < MS; ++S) { unsigned m = 0;
        for (unsigned c = 0; c < PB; ++c) if ((S >> c) & 1) for (unsigned p = 0; p < PB; ++p) m |= (unsigned)b.has(s, p, c) << p;
        post1[s][S] = m; }
    } else {
      for (unsigned S0 = 0; S0 < MS; ++S0) for (unsigned S1 = 0; S1 < MS; ++S1) { unsigned m = 0;
        for (unsigned c = 0; c < PB; ++c) if ((S0 >> c) & 1) for (unsigned d = 0; d < PB; ++d) if ((S1 >> d) & 1) for (unsigned p = 0; p < PB; ++p) m |= (unsigned)b.has(s, p, c, d) << p;
        post2[s][S0][S1] = m; }
    }
  }
  unsigned long tab[PA]; for (unsigned q = 0; q < PA; ++q) tab[q] = 0;
  for (unsigned it = 0; it < PA * MS; ++it)
    for (unsigned i = 0; i < Aut<PA>::NR; ++i) { U::Rule r = U::Univ<PA>::rule(i);
      if (r.rank == 0) tab[r.parent] |= (unsigned long)a.pres[i] << post0[r.sym];
      else if (r.rank == 1) { for (unsigned S0 = 0; S0 < MS; ++S0) { bool en = a.pres[i] & ((tab[r.child[0]] >> S0) & 1); tab[r.parent] |= (unsigned long)en << post1[r.sym][S0]; } }
      else { for (unsigned S0 = 0; S0 < MS; ++S0) for (unsigned S1 = 0; S1 < MS; ++S1) { bool en = a.pres[i] & ((tab[r.child[0]] >> S0) & 1) & ((tab[r.child[1]] >> S1) & 1); tab[r.parent] |= (unsigned long)en << post2[r.sym][S0][S1]; } }
    }
  unsigned fb = b.finalMask(); unsigned long rejecting = 0;
  for (unsigned S = 0; S < MS; ++S) rejecting |= (unsigned long)((S & fb) == 0) << S;
  bool bad = false; for (unsigned q = 0; q < PA; ++q) bad |= a.fin[q] & ((tab[q] & rejecting) != 0);
  return !bad;
}
template <unsigned PA, unsigned PB> bool sameLang(const Aut<PA>& a, const Aut<PB>& b) { return included<PA, PB>(a, b) & included<PB, PA>(b, a); }
template <unsigned N> bool langEmpty(const Aut<N>& a) { return (productive(a) & a.finalMask()) == 0; }
// disjoint union as a mask automaton: state q of a is q, state q of b is PA + q
template <unsigned PA, unsigned PB> Aut<PA + PB> disjointUnion(const Aut<PA>& a, const Aut<PB>& b) {
  Aut<PA + PB> u; u.clear();
  for (unsigned i = 0; i < Aut<PA>::NR; ++i) { U::Rule r = U::Univ<PA>::rule(i); u.pres[U::Univ<PA + PB>::index(r.sym, r.parent, r.child[0], r.child[1])] = a.pres[i]; }
  for (unsigned i = 0; i < Aut<PB>::NR; ++i) { U::Rule r = U::Univ<PB>::rule(i);
    u.pres[U::Univ<PA + PB>::index(r.sym, PA + r.parent, r.rank > 0 ? PA + r.child[0] : 0, r.rank > 1 ? PA + r.child[1] : 0)] = b.pres[i]; }
  for (unsigned s = 0; s < PA; ++s) u.fin[s] = a.fin[s];
  for (unsigned s = 0; s < PB; ++s) u.fin[PA + s] = b.fin[s];
  return u;
}
// synchronous product as a mask automaton: state (p, q) is p * PB + q
template <unsigned PA, unsigned PB> Aut<PA * PB> product(const Aut<PA>& a, const Aut<PB>& b) {
  Aut<PA * PB> x; x.clear();
  for (unsigned i = 0; i < Aut<PA>::NR; ++i) { U::Rule r = U::Univ<PA>::rule(i);
    for (unsigned p = 0; p < PB; ++p) {
      if (r.rank == 0) x.pres[U::Univ<PA * PB>::index(r.sym, r.parent * PB + p, 0, 0)] = a.pres[i] & b.has(r.sym, p);
      else if (r.rank == 1) { for (unsigned c = 0; c < PB; ++c) x.pres[U::Univ<PA * PB>::index(r.sym, r.parent * PB + p, r.child[0] * PB + c, 0)] = a.pres[i] & b.has(r.sym, p, c); }
      else { for (unsigned c = 0; c < PB; ++c) for (unsigned d = 0; d < PB; ++d) x.pres[U::Univ<PA * PB>::index(r.sym, r.parent * PB + p, r.child[0] * PB + c, r.child[1] * PB + d)] = a.pres[i] & b.has(r.sym, p, c, d); }
    } }
  for (unsigned p = 0; p < PA; ++p) for (unsigned q = 0; q < PB; ++q) x.fin[p * PB + q] = a.fin[p] & b.fin[q];
  return x;
}

// ---- to the library and back
struct FixedParser : VATA::Parsing::AbstrParser { const Desc* d; explicit FixedParser(const Desc& x) : d(&x) {} Desc ParseString(const std::string&) override { return *d; } };
static inline unsigned stateIndex(const std::string& s) { unsigned r = 255; for (unsigned k = 0; k < MAXQ; ++k) if (s.size() == 2 && s[0] == 'q' && s[1] == (char)('0' + k)) r = k; return r; }
// the description of the mask automaton; state s is called QN[off + s]
template <unsigned N> void makeDesc(const Aut<N>& A, Desc& d, unsigned off = 0) {
  for (unsigned i = 0; i < Aut<N>::NR; ++i) if (A.pres[i]) { U::Rule r = U::Univ<N>::rule(i);
    Desc::StateTuple t; for (unsigned k = 0; k < r.rank; ++k) t.push_back(QN[off + r.child[k]]);
    d.transitions.insert(Desc::Transition(t, SN[r.sym], QN[off + r.parent])); }
  for (unsigned s = 0; s < N; ++s) if (A.fin[s]) d.finalStates.insert(QN[off + s]);
}
// QN[k] <-> k for k in [lo, hi)
static inline void seedDict(StateDict& dict, unsigned lo, unsigned hi) { for (unsigned k = lo; k < hi; ++k) dict.insert(std::make_pair(std::string(QN[k]), (StateType)k)); }
// symbol codes of the on-the-fly alphabet in a fixed order (mode 1: as numbered, 2: reversed); 0: codes are handed out in
// the order in which the loaded transitions mention the symbols (what the command line tool does)
template <class AutT> void primeAlphabet(AutT& aut, int mode) {
  if (mode == 0) return;
  auto tr = aut.GetAlphabet()->GetSymbolTransl();
  for (unsigned k = 0; k < U::NSYM; ++k) (*tr)(std::string(SN[mode == 2 ? U::NSYM - 1 - k : k]));
}
template <class AutT, unsigned N> void load(AutT& aut, const Aut<N>& A, StateDict& dict, unsigned off = 0) {
  Desc d; makeDesc(A, d, off); FixedParser P(d); aut.LoadFromString(P, std::string(), dict);
}
// what a dump says, over states < N: rules, final states, the `states` component; ok = nothing outside the universe
template <unsigned N> struct Dump { Aut<N> aut; unsigned states; bool ok; };
// free = false: state qk is universe state k (for automata whose state names the harness fixed itself: operands, results of
//   operations that keep the states of their operands).
// free = true: numbering-independent decoding, for results whose state NUMBERS are chosen by the library (Union and
//   Intersection renumber: translation maps are out-parameters).  The names that occur (any of q0..q7) are entered into a
//   slot table in order of first occurrence and the dump is decoded over the slots 0..N-1; ok = false if more than N distinct
//   states occur.  Languages, `states`, usefulness etc. of the decoded automaton do not depend on the slot assignment, so a
//   library that numbers the states of such a result differently (not densely, not from 0, ...) decodes to an isomorphic mask
//   automaton.
template <unsigned N> struct Decoder : VATA::Serialization::AbstrSerializer {
  Dump<N> out; bool free_; unsigned slotName[N]; bool slotUsed[N];
  explicit Decoder(bool fr = false) : free_(fr) { for (unsigned i = 0; i < N; ++i) { slotName[i] = 0; slotUsed[i] = false; } }
  unsigned idx(const std::string& s, bool& ok) {
    unsigned k = stateIndex(s);
    if (!free_) { ok = ok & (k < N); return k; }
    ok = ok & (k < MAXQ);
    bool placed = false; unsigned slot = 255;
    for (unsigned i = 0; i < N; ++i) { bool h = slotUsed[i] & (slotName[i] == k); slot = h ? i : slot; placed = placed | h; }
    for (unsigned i = 0; i < N; ++i) { bool here = !placed & !slotUsed[i]; slotName[i] = here ? k : slotName[i]; slotUsed[i] = slotUsed[i] | here; slot = here ? i : slot; placed = placed | here; }
    ok = ok & placed; return slot;
  }
  std::string Serialize(const Desc& d) override {
    out.ok = true; out.states = 0; out.aut.clear();
    for (const std::string& f : d.finalStates) { unsigned k = idx(f, out.ok); for (unsigned s = 0; s < N; ++s) out.aut.fin[s] |= (k == s); }
    for (const std::string& f : d.states) { unsigned k = idx(f, out.ok); for (unsigned s = 0; s < N; ++s) out.states |= (unsigned)(k == s) << s; }
    for (const Desc::Transition& t : d.transitions) {
      unsigned p = idx(t.third, out.ok), n = t.first.size(); unsigned c[2] = {0, 0};
      for (unsigned k = 0; k < n && k < 2; ++k) c[k] = idx(t.first[k], out.ok);
      bool matched = false;
      for (unsigned i = 0; i < Aut<N>::NR; ++i) { U::Rule r = U::Univ<N>::rule(i);
        bool m = t.second.size() == 1 && t.second[0] == SN[r.sym][0] && p == r.parent && n == r.rank;
        for (unsigned k = 0; k < r.rank; ++k) m = m && c[k] == r.child[k];
        out.aut.pres[i] |= m; matched |= m; }
      out.ok &= matched;
    }
    return std::string();
  }
};
template <unsigned N, class AutT> Dump<N> dump(const AutT& aut, const StateDict& dict, bool free = false) { Decoder<N> D(free); aut.DumpToString(D, dict); return D.out; }
}
