// Shared vocabulary of the MTBDD harnesses (C17, C18): function tables as the reference semantics of an MTBDD over the
// variables VBASE .. VBASE+NV-1, cubes (ternary assignments), construction of an MTBDD from a table through the public
// API only (minterm MTBDDs combined by an Apply2 functor, as unit_tests/ondriks_mtbdd_c_test.cc does), decoding by
// GetValue on every total assignment.  Leaf type: unsigned; leaf values are drawn from [0, NVAL).
#pragma once
#include "vs.h"
#include <vata/vata.hh>
#include <vata/sym_var_asgn.hh>
#include "mtbdd/ondriks_mtbdd.hh"
#include "mtbdd/apply1func.hh"
#include "mtbdd/apply2func.hh"
#include "mtbdd/apply3func.hh"
#include "mtbdd/void_apply1func.hh"
#include "mtbdd/void_apply2func.hh"
#ifndef NV
#define NV 2          // number of Boolean variables the functions depend on
#endif
#ifndef VBASE
#define VBASE 0       // number of the lowest variable used (VBASE = 3 with NV = 2 straddles a byte of SymbolicVarAsgn)
#endif
#ifndef NVAL
#define NVAL 4        // leaf values are in [0, NVAL)
#endif
namespace MU {
// value in [0, n) from ceil(log2 n) input bits WITHOUT rejecting inputs: codes >= n denote n-1 (so every replayed /
// random input vector of the translation validation is a valid one; symbolically nothing is lost, n-1 has two codes)
static inline unsigned pick(unsigned n) { unsigned v = 0; for (unsigned k = 1, b = 0; k < n; k <<= 1, ++b) v |= (unsigned)vs_nondet_bool() << b; return v < n ? v : n - 1; }
typedef unsigned Val;
typedef VATA::MTBDDPkg::OndriksMTBDD<Val> MTBDD;
typedef VATA::SymbolicVarAsgn Asgn;
enum { NA = 1u << NV, ALEN = VBASE + NV };

// reference semantics: v[a] is the value for the total assignment a (bit i of a = value of variable VBASE+i)
struct Tab {
  Val v[NA];
  void draw() { for (unsigned a = 0; a < NA; ++a) v[a] = pick(NVAL); }
  void fill(Val c) { for (unsigned a = 0; a < NA; ++a) v[a] = c; }
  bool same(const Tab& o) const { bool e = true; for (unsigned a = 0; a < NA; ++a) e = e & (v[a] == o.v[a]); return e; }
  unsigned long code() const { unsigned long c = 0; for (unsigned a = 0; a < NA; ++a) c = c * 8 + v[a]; return c; }
};

// total assignment number a as a SymbolicVarAsgn of length ALEN (positions below VBASE: don't care)
static inline Asgn totalAsgn(unsigned a, unsigned len = ALEN, unsigned base = VBASE, unsigned nv = NV) {
  Asgn s(len);
  for (unsigned i = 0; i < nv; ++i) s.SetIthVariableValue(base + i, ((a >> i) & 1) ? Asgn::ONE : Asgn::ZERO);
  return s;
}

// ternary assignment: t[i] = 0 (variable VBASE+i is 0), 1 (is 1), 2 (don't care)
struct Cube {
  unsigned t[NV];
  void draw() { for (unsigned i = 0; i < NV; ++i) t[i] = pick(3); }
  Asgn asgn(unsigned len = ALEN, unsigned base = VBASE) const {
    Asgn s(len);
    for (unsigned i = 0; i < NV; ++i) s.SetIthVariableValue(base + i, t[i] == 0 ? Asgn::ZERO : t[i] == 1 ? Asgn::ONE : Asgn::DONT_CARE);
    return s;
  }
  bool matches(unsigned a) const { bool m = true; for (unsigned i = 0; i < NV; ++i) m = m & ((t[i] == 2) | (t[i] == ((a >> i) & 1))); return m; }
  Tab tab(Val value, Val dflt) const { Tab r; for (unsigned a = 0; a < NA; ++a) r.v[a] = matches(a) ? value : dflt; return r; }
};

// leaf operation used to assemble diagrams: the second operand wins wherever it differs from its default value
class Overwrite : public VATA::MTBDDPkg::Apply2Functor<Overwrite, Val, Val, Val> {
public:
  Val ApplyOperation(const Val& a, const Val& b) { return b == getMTBDD2().GetDefaultValue() ? a : b; }
};

// MTBDD of a table through the public API: constant dflt, then one minterm diagram per assignment; order: 0 ascending,
// 1 descending, 2 inside-out (different histories of the process-wide unique tables for the same function)
static inline MTBDD build(const Tab& t, Val dflt = 0, unsigned order = 0) {
  Overwrite ow;
  MTBDD f(dflt);
  for (unsigned k = 0; k < NA; ++k) {
    unsigned a = order == 0 ? k : order == 1 ? NA - 1 - k : (k ^ (NA / 2)) ;
    MTBDD m(totalAsgn(a), t.v[a], dflt);
    f = ow(f, m);
  }
  return f;
}

// decode by evaluation on every total assignment
static inline Tab decode(const MTBDD& f) { Tab r; for (unsigned a = 0; a < NA; ++a) r.v[a] = f.GetValue(totalAsgn(a)); return r; }

// a drawn operand: its table (the reference semantics), its default value and how it is built.  Sources: 'T' any table
// (assembled from minterm diagrams, default 0), 'C' cube with don't-care positions (value on the cube, 0 elsewhere),
// 'D' cube with a drawn default value, 'K' constant diagram
struct Fun {
  char src; Tab t; Val dflt; Cube c; Val value;
  void draw(char s) {
    src = s; dflt = 0;
    if (s == 'T') t.draw();
    else if (s == 'C' || s == 'D') { c.draw(); value = pick(NVAL); if (s == 'D') dflt = pick(NVAL); t = c.tab(value, dflt); }
    else { value = pick(NVAL); t.fill(value); dflt = value; }
  }
  MTBDD make(unsigned order = 0) const { return src == 'T' ? build(t, 0, order) : src == 'K' ? MTBDD(value) : MTBDD(c.asgn(), value, dflt); }
};
static inline void sameFunction(const MTBDD& m, const Tab& t, int id) { Tab d = decode(m); for (unsigned a = 0; a < NA; ++a) CHECK(d.v[a] == t.v[a], id); }

// Reference semantics of Project on function tables.  op idempotent, commutative, associative: the value is op over all
// values of the removed variables.  In general (documented node-wise meaning on the reduced diagram): the two cofactors
// of a removed variable are combined exactly where the function depends on that variable.  tt: table over the k lowest
// variables; removed: bit i set = variable i is projected out; out has the same layout as tt.
template <class Op> static void projectRef(const Val* tt, unsigned k, unsigned removed, Op op, Val* out) {
  if (k == 0) { out[0] = tt[0]; return; }
  const unsigned half = 1u << (k - 1);
  Val pl[NA], ph[NA]; projectRef(tt, k - 1, removed, op, pl); projectRef(tt + half, k - 1, removed, op, ph);
  bool dep = false; for (unsigned i = 0; i < half; ++i) dep = dep | (tt[i] != tt[half + i]);
  const bool rm = (removed >> (k - 1)) & 1;
  for (unsigned i = 0; i < half; ++i) {
    Val comb = op(pl[i], ph[i]);
    out[i] = !dep ? pl[i] : rm ? comb : pl[i];
    out[half + i] = !dep ? pl[i] : rm ? comb : ph[i];
  }
}

// value of a path/cube stored in a SymbolicVarAsgn for the total assignment a (positions >= length: unconstrained)
static inline bool asgnMatches(const Asgn& p, unsigned a)
{
  bool m = true;
  for (unsigned i = 0; i < NV; ++i) if (VBASE + i < p.length()) {
    char x = p.GetIthVariableValue(VBASE + i);
    m = m & ((x == Asgn::DONT_CARE) | (x == (((a >> i) & 1) ? Asgn::ONE : Asgn::ZERO)));
  }
  return m;
}

// GetPaths: a partition of the assignment space into cubes, each labelled with the value of the function
static inline void checkPaths(const MTBDD& f, const Tab& t, bool breakIt = false)
{
  MTBDD::SymVarToValueList paths = f.GetPaths();
  CHECK(paths.size() >= 1 && paths.size() <= NA, 90);
  unsigned cnt[NA]; bool good[NA];
  for (unsigned a = 0; a < NA; ++a) { cnt[a] = 0; good[a] = true; }
  for (const auto& pv : paths) {
    CHECK(pv.first.length() <= ALEN, 91);
    for (unsigned i = 0; i < VBASE; ++i) if (i < pv.first.length()) CHECK(pv.first.GetIthVariableValue(i) == Asgn::DONT_CARE, 92);
    for (unsigned a = 0; a < NA; ++a) { bool m = asgnMatches(pv.first, a); cnt[a] += m; good[a] = good[a] & (!m | (pv.second == t.v[a])); }
  }
  for (unsigned a = 0; a < NA; ++a) { CHECK(cnt[a] == (breakIt && a == 1 ? 2u : 1u), 93); CHECK(good[a], 94); }
}
}
