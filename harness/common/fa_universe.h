// Universe of nondeterministic finite word automata for the ExplicitFiniteAut harnesses (C09, C10).
// A symbolic automaton SymFA<N> over states 0..N-1 and the letters 0..FA_NSYM-1 has one presence bit per candidate edge
// (q, a, r), one start bit and one final bit per state.  A Shape restricts the universe of a query at compile time:
// edges outside `edges` are absent, states in startFix/finFix are start/final unconditionally, states outside
// startFree|startFix (finFree|finFix) never are.  All drawn bits are solver variables.
//
// Reference semantics (independent of libvata, bit masks, constant loop bounds): a word is accepted iff it labels a path
// from a start state to a final state; the empty word iff some start state is final.  Start symbols (the Timbuk nullary
// rules that make a state a start state in this library) carry no language meaning.
#pragma once
#include "vs.h"
#ifndef FA_NSYM
#define FA_NSYM 2
#endif
namespace FA {
enum { NSYM = FA_NSYM };
struct Shape { unsigned long edges; unsigned startFree, startFix, finFree, finFix; };
static inline Shape fullShape() { Shape s; s.edges = ~0ul; s.startFree = ~0u; s.startFix = 0; s.finFree = ~0u; s.finFix = 0; return s; }

template <unsigned N> struct SymFA {
  bool edge[N][NSYM][N]; bool start[N]; bool fin[N];
  static unsigned eidx(unsigned q, unsigned a, unsigned r) { return (q * NSYM + a) * N + r; }
  void clear() { for (unsigned q = 0; q < N; ++q) { start[q] = fin[q] = false; for (unsigned a = 0; a < NSYM; ++a) for (unsigned r = 0; r < N; ++r) edge[q][a][r] = false; } }
  // draw order (fixed): edges by index, then start bits, then final bits
  void draw(const Shape& sh) {
    for (unsigned q = 0; q < N; ++q) for (unsigned a = 0; a < NSYM; ++a) for (unsigned r = 0; r < N; ++r)
      edge[q][a][r] = ((sh.edges >> eidx(q, a, r)) & 1) ? vs_bit() : false;
    for (unsigned q = 0; q < N; ++q) start[q] = ((sh.startFix >> q) & 1) ? true : ((sh.startFree >> q) & 1) ? vs_bit() : false;
    for (unsigned q = 0; q < N; ++q) fin[q] = ((sh.finFix >> q) & 1) ? true : ((sh.finFree >> q) & 1) ? vs_bit() : false;
  }
  // build through the public API: state q becomes base+q, letter a becomes sym[a] (or a), start states get start symbol startSym
  template <class Aut> void build(Aut& aut, unsigned base = 0, const uintptr_t* sym = 0, uintptr_t startSym = NSYM) const {
    for (unsigned q = 0; q < N; ++q) if (start[q]) aut.SetStateStart(base + q, startSym);
    for (unsigned q = 0; q < N; ++q) for (unsigned a = 0; a < NSYM; ++a) for (unsigned r = 0; r < N; ++r)
      if (edge[q][a][r]) aut.AddTransition(base + q, sym ? sym[a] : a, base + r);
    for (unsigned q = 0; q < N; ++q) if (fin[q]) aut.SetStateFinal(base + q);
  }
  unsigned long edgeMask() const { unsigned long m = 0; for (unsigned q = 0; q < N; ++q) for (unsigned a = 0; a < NSYM; ++a) for (unsigned r = 0; r < N; ++r) m |= (unsigned long)edge[q][a][r] << eidx(q, a, r); return m; }
};

template <unsigned N> unsigned startMask(const SymFA<N>& a) { unsigned m = 0; for (unsigned q = 0; q < N; ++q) m |= (unsigned)a.start[q] << q; return m; }
template <unsigned N> unsigned finMask(const SymFA<N>& a) { unsigned m = 0; for (unsigned q = 0; q < N; ++q) m |= (unsigned)a.fin[q] << q; return m; }
// successors of the state set S under letter x
template <unsigned N> unsigned post(const SymFA<N>& a, unsigned S, unsigned x) {
  unsigned R = 0;
  for (unsigned q = 0; q < N; ++q) for (unsigned r = 0; r < N; ++r) R |= (unsigned)(a.edge[q][x][r] & (bool)((S >> q) & 1)) << r;
  return R;
}
// states reachable from the start states / states from which a final state is reachable (naive fixpoints)
template <unsigned N> unsigned reachable(const SymFA<N>& a) {
  unsigned R = startMask(a);
  for (unsigned it = 0; it < N; ++it) for (unsigned x = 0; x < NSYM; ++x) R |= post(a, R, x);
  return R;
}
template <unsigned N> unsigned coreachable(const SymFA<N>& a) {
  unsigned R = finMask(a);
  for (unsigned it = 0; it < N; ++it)
    for (unsigned q = 0; q < N; ++q) for (unsigned x = 0; x < NSYM; ++x) for (unsigned r = 0; r < N; ++r) R |= (unsigned)(a.edge[q][x][r] & (bool)((R >> r) & 1)) << q;
  return R;
}
template <unsigned N> bool langEmpty(const SymFA<N>& a) { return (reachable(a) & finMask(a)) == 0; }
template <unsigned N> bool acceptsEmptyWord(const SymFA<N>& a) { return (startMask(a) & finMask(a)) != 0; }

// L(A) subseteq L(B): all reachable pairs (state of A, macro-state of B = set of B states reached by the same word);
// violated iff some pair has a final A state and a macro-state without final B state.
template <unsigned PA, unsigned PB> bool included(const SymFA<PA>& a, const SymFA<PB>& b) {
  enum { MS = 1u << PB };
  unsigned pst[MS][NSYM];
  for (unsigned S = 0; S < MS; ++S) for (unsigned x = 0; x < NSYM; ++x) pst[S][x] = post(b, S, x);
  bool tab[PA][MS];
  const unsigned S0 = startMask(b), fb = finMask(b);
  for (unsigned q = 0; q < PA; ++q) for (unsigned X = 0; X < MS; ++X) tab[q][X] = a.start[q] & (S0 == X);
  for (unsigned it = 0; it < PA * MS; ++it)
    for (unsigned q = 0; q < PA; ++q) for (unsigned S = 0; S < MS; ++S) for (unsigned x = 0; x < NSYM; ++x) for (unsigned r = 0; r < PA; ++r) {
      const bool en = tab[q][S] & a.edge[q][x][r]; const unsigned T = pst[S][x];
      for (unsigned X = 0; X < MS; ++X) tab[r][X] |= en & (T == X);
    }
  bool bad = false;
  for (unsigned q = 0; q < PA; ++q) for (unsigned S = 0; S < MS; ++S) bad |= tab[q][S] & a.fin[q] & ((S & fb) == 0);
  return !bad;
}
template <unsigned PA, unsigned PB> bool sameLang(const SymFA<PA>& a, const SymFA<PB>& b) { return included<PA, PB>(a, b) & included<PB, PA>(b, a); }

// ---- reference constructions on masks (textbook definitions, used only as the right-hand side of language comparisons)
// disjoint union: states of A first, then states of B
template <unsigned PA, unsigned PB> SymFA<PA + PB> unionOf(const SymFA<PA>& a, const SymFA<PB>& b) {
  SymFA<PA + PB> u; u.clear();
  for (unsigned q = 0; q < PA; ++q) { u.start[q] = a.start[q]; u.fin[q] = a.fin[q]; for (unsigned x = 0; x < NSYM; ++x) for (unsigned r = 0; r < PA; ++r) u.edge[q][x][r] = a.edge[q][x][r]; }
  for (unsigned q = 0; q < PB; ++q) { u.start[PA + q] = b.start[q]; u.fin[PA + q] = b.fin[q]; for (unsigned x = 0; x < NSYM; ++x) for (unsigned r = 0; r < PB; ++r) u.edge[PA + q][x][PA + r] = b.edge[q][x][r]; }
  return u;
}
// synchronous product: state (p,q) is p*PB+q; start/final iff both components are
template <unsigned PA, unsigned PB> SymFA<PA * PB> productOf(const SymFA<PA>& a, const SymFA<PB>& b) {
  SymFA<PA * PB> p; p.clear();
  for (unsigned q = 0; q < PA; ++q) for (unsigned s = 0; s < PB; ++s) {
    p.start[q * PB + s] = a.start[q] & b.start[s]; p.fin[q * PB + s] = a.fin[q] & b.fin[s];
    for (unsigned x = 0; x < NSYM; ++x) for (unsigned r = 0; r < PA; ++r) for (unsigned t = 0; t < PB; ++t) p.edge[q * PB + s][x][r * PB + t] = a.edge[q][x][r] & b.edge[s][x][t];
  }
  return p;
}
// mirror image: every edge turned around, start and final states exchanged
template <unsigned N> SymFA<N> mirrorOf(const SymFA<N>& a) {
  SymFA<N> m; m.clear();
  for (unsigned q = 0; q < N; ++q) { m.start[q] = a.fin[q]; m.fin[q] = a.start[q]; for (unsigned x = 0; x < NSYM; ++x) for (unsigned r = 0; r < N; ++r) m.edge[r][x][q] = a.edge[q][x][r]; }
  return m;
}
}
