// Observation of an ExplicitFiniteAut result at the library's public observation point: DumpToString(serializer, stateDict).
// The "serializer" handed to the library is a decoder that turns the AutDescription the library produces (final states,
// start rules `sym -> q`, transitions `sym(p) -> q`, all as strings) back into an FA::SymFA<NR> over the concrete state
// universe 0..NR-1; state i is called string(1,'A'+i) in the dictionary, letter a is called string(1,'a'+a), the start
// symbol 'x'.  `ok` is false if anything outside that universe occurs.
#pragma once
#include <vata/explicit_finite_aut.hh>
#include <vata/serialization/abstr_serializer.hh>
#include "fa_universe.h"
namespace FA {
struct Alphabet { uintptr_t sym[NSYM]; uintptr_t startSym; };
// register the letters (and the start symbol) in the automaton's alphabet, as loading Timbuk text would
static inline Alphabet registerAlphabet(VATA::ExplicitFiniteAut& aut) {
  Alphabet al; auto tr = aut.GetAlphabet()->GetSymbolTransl();
  for (unsigned a = 0; a < NSYM; ++a) al.sym[a] = (*tr)(std::string(1, (char)('a' + a)));
  al.startSym = (*tr)(std::string("x"));
  return al;
}
static inline void fillStateDict(VATA::AutBase::StateDict& dict, unsigned n) {
  for (unsigned i = 0; i < n; ++i) dict.insert(std::make_pair(std::string(1, (char)('A' + i)), (VATA::AutBase::StateType)i));
}
enum { MAXNAMES = 8 };    // size of the dictionary handed to the library for numbering-free decoding ('A'..'H' = states 0..7)
// free = false: the state called 'A'+k is universe state k (operands, whose numbers the harness chose itself).
// free = true: numbering-independent decoding for RESULTS, whose state numbers are the library's business (Union,
//   Intersection, Reverse, RemoveUnreachableStates and RemoveUselessStates all take a translation-map out-parameter, i.e. may
//   renumber; GetCandidateTree returns a new automaton).  The names that occur (any of the MAXNAMES dictionary names) are
//   entered into a slot table in order of first occurrence and the automaton is decoded over the slots 0..NR-1; ok = false
//   if more than NR distinct states occur.  The language of the decoded automaton does not depend on the slot assignment.
template <unsigned NR> struct Decoder : public VATA::Serialization::AbstrSerializer {
  SymFA<NR> out; bool ok; unsigned nfinal, nrules; bool free_; unsigned slotName[NR]; bool slotUsed[NR];
  explicit Decoder(bool fr = false) : ok(true), nfinal(0), nrules(0), free_(fr) { out.clear(); for (unsigned i = 0; i < NR; ++i) { slotName[i] = 0; slotUsed[i] = false; } }
  // one-hot position of a state name over the universe states 0..NR-1 (all false if it is not a known name / no slot is left)
  void locate(const std::string& s, bool* hot) {
    if (!free_) { for (unsigned k = 0; k < NR; ++k) hot[k] = s.size() == 1 && s[0] == (char)('A' + k); return; }
    unsigned code = 255; for (unsigned j = 0; j < MAXNAMES; ++j) code = (s.size() == 1 && s[0] == (char)('A' + j)) ? j : code;
    const bool known = code != 255; bool placed = !known;
    for (unsigned i = 0; i < NR; ++i) { hot[i] = known & slotUsed[i] & (slotName[i] == code); placed = placed | hot[i]; }
    for (unsigned i = 0; i < NR; ++i) { bool here = !placed & !slotUsed[i]; slotName[i] = here ? code : slotName[i]; slotUsed[i] = slotUsed[i] | here; hot[i] = hot[i] | here; placed = placed | here; }
  }
  virtual std::string Serialize(const AutDescription& desc) override {
    bool hs[NR], ht[NR];
    for (const std::string& s : desc.finalStates) { bool any = false; locate(s, hs); for (unsigned k = 0; k < NR; ++k) { out.fin[k] |= hs[k]; any |= hs[k]; } ok &= any; ++nfinal; }
    for (const AutDescription::Transition& t : desc.transitions) {
      ++nrules;
      if (t.first.empty()) { bool any = false; locate(t.third, ht); for (unsigned k = 0; k < NR; ++k) { out.start[k] |= ht[k]; any |= ht[k]; } ok &= any; continue; }
      if (t.first.size() != 1) { ok = false; continue; }
      bool any = false; locate(t.first[0], hs); locate(t.third, ht);
      for (unsigned a = 0; a < NSYM; ++a) { bool ha = t.second.size() == 1 && t.second[0] == (char)('a' + a);
        for (unsigned q = 0; q < NR; ++q) { bool hq = ha & hs[q];
          for (unsigned r = 0; r < NR; ++r) { bool h = hq & ht[r]; out.edge[q][a][r] |= h; any |= h; } } }
      ok &= any;
    }
    return std::string();
  }
};
// decode through the dictionary variant the CLI uses; free: see Decoder
template <unsigned NR> static inline bool decode(const VATA::ExplicitFiniteAut& aut, SymFA<NR>& out, bool free = false) {
  VATA::AutBase::StateDict dict; fillStateDict(dict, free ? (unsigned)MAXNAMES : NR);
  Decoder<NR> d(free); aut.DumpToString(d, dict);
  out = d.out; return d.ok;
}
}
