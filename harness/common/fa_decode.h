// Observation of an ExplicitFiniteAut result at the library's public observation point: DumpToString(serializer, stateDict).
// The "serializer" handed to the library is a decoder that turns the AutDescription the library produces (final states,
// start rules `sym -> q`, transitions `sym(p) -> q`, all as strings) back into an FA::SymFA<NR> over the concrete state
// universe 0..NR-1; state i is called string(1,'A'+i) in the dictionary, letter a is called string(1,'a'+a), the start
// symbol 'x'.  `ok` is false if anything outside that universe occurs.
#pragma once
#include <vata/explicit_finite_aut.hh>
#include <vata/serialization/abstr_serializer.hh>
#include "fa_universe.h"
namespace FA {
struct Alphabet { uintptr_t sym[NSYM]; uintptr_t startSym; };
// register the letters (and the start symbol) in the automaton's alphabet, as loading Timbuk text would
static inline Alphabet registerAlphabet(VATA::ExplicitFiniteAut& aut) {
  Alphabet al; auto tr = aut.GetAlphabet()->GetSymbolTransl();
  for (unsigned a = 0; a < NSYM; ++a) al.sym[a] = (*tr)(std::string(1, (char)('a' + a)));
  al.startSym = (*tr)(std::string("x"));
  return al;
}
static inline void fillStateDict(VATA::AutBase::StateDict& dict, unsigned n) {
  for (unsigned i = 0; i < n; ++i) dict.insert(std::make_pair(std::string(1, (char)('A' + i)), (VATA::AutBase::StateType)i));
}
template <unsigned NR> struct Decoder : public VATA::Serialization::AbstrSerializer {
  SymFA<NR> out; bool ok; unsigned nfinal, nrules;
  Decoder() : ok(true), nfinal(0), nrules(0) { out.clear(); }
  // one-hot position of a state name; sets ok=false if it is not one of 'A'..'A'+NR-1
  bool stateHit(const std::string& s, unsigned k) const { return s.size() == 1 && s[0] == (char)('A' + k); }
  virtual std::string Serialize(const AutDescription& desc) override {
    for (const std::string& s : desc.finalStates) { bool any = false; for (unsigned k = 0; k < NR; ++k) { bool h = stateHit(s, k); out.fin[k] |= h; any |= h; } ok &= any; ++nfinal; }
    for (const AutDescription::Transition& t : desc.transitions) {
      ++nrules;
      if (t.first.empty()) { bool any = false; for (unsigned k = 0; k < NR; ++k) { bool h = stateHit(t.third, k); out.start[k] |= h; any |= h; } ok &= any; continue; }
      if (t.first.size() != 1) { ok = false; continue; }
      bool any = false;
      for (unsigned a = 0; a < NSYM; ++a) { bool ha = t.second.size() == 1 && t.second[0] == (char)('a' + a);
        for (unsigned q = 0; q < NR; ++q) { bool hq = ha & stateHit(t.first[0], q);
          for (unsigned r = 0; r < NR; ++r) { bool h = hq & stateHit(t.third, r); out.edge[q][a][r] |= h; any |= h; } } }
      ok &= any;
    }
    return std::string();
  }
};
// decode through the dictionary variant the CLI uses
template <unsigned NR> static inline bool decode(const VATA::ExplicitFiniteAut& aut, SymFA<NR>& out) {
  VATA::AutBase::StateDict dict; fillStateDict(dict, NR);
  Decoder<NR> d; aut.DumpToString(d, dict);
  out = d.out; return d.ok;
}
}
