// Edge universe for labelled transition systems: all edges q -a-> r over states 0..N-1 and labels 0..L-1.
// The solver variables of a symbolic LTS are one (or, with multiplicities, two) presence bits per universe edge that the
// edge mask allows.  Oracle: the greatest simulation inside a given relation on states as a naive greatest fixpoint of
// the definition (constant loop bounds, branch-free on the relation bits; shares nothing with libvata).
#pragma once
#include "vs.h"
namespace LU {
template <unsigned N, unsigned L> struct SymLTS {
  // early[a][q][r]: edge inserted in the first pass; late[a][q][r]: (another copy) inserted in the second pass.
  // multiplicity = early + late (parallel edges; a late-only edge varies the insertion order of the adjacency lists)
  bool early[L][N][N], late[L][N][N];
  static unsigned index(unsigned a, unsigned q, unsigned r) { return (a * N + q) * N + r; }
  // mask: bit index(a,q,r) set = edge may be present; multi: draw the second-pass bit as well
  void draw(unsigned long mask, bool multi) {
    for (unsigned a = 0; a < L; ++a) for (unsigned q = 0; q < N; ++q) for (unsigned r = 0; r < N; ++r) {
      bool on = (mask >> index(a, q, r)) & 1;
      early[a][q][r] = on ? vs_bit() : false;
      late[a][q][r] = (on && multi) ? vs_bit() : false;
    }
  }
  bool has(unsigned a, unsigned q, unsigned r) const { return early[a][q][r] | late[a][q][r]; }
  template <class LTS> void build(LTS& lts, unsigned off = 0) const {      // off: the states get the numbers off .. off+N-1
    for (unsigned a = 0; a < L; ++a) for (unsigned q = 0; q < N; ++q) for (unsigned r = 0; r < N; ++r) if (early[a][q][r]) lts.addTransition(off + q, a, off + r);
    for (unsigned a = 0; a < L; ++a) for (unsigned q = 0; q < N; ++q) for (unsigned r = 0; r < N; ++r) if (late[a][q][r]) lts.addTransition(off + q, a, off + r);
  }
  // 1 + the largest state number that occurs in an edge (0 if there is no edge)
  unsigned usedStates() const {
    unsigned n = 0;
    for (unsigned a = 0; a < L; ++a) for (unsigned q = 0; q < N; ++q) for (unsigned r = 0; r < N; ++r) {
      bool h = has(a, q, r); unsigned m = (q > r ? q : r) + 1; n = (h & (m > n)) ? m : n; }
    return n;
  }
  unsigned long edgeMask() const { unsigned long m = 0;
    for (unsigned a = 0; a < L; ++a) for (unsigned q = 0; q < N; ++q) for (unsigned r = 0; r < N; ++r) m |= (unsigned long)has(a, q, r) << index(a, q, r);
    return m; }
};
// S (in: the relation the simulation has to stay inside; out: the greatest simulation inside it).
// (q,r) in S means: r simulates q, i.e. every q -a-> q' is answered by some r -a-> r' with (q',r') in S.
// skipLabel: label whose edges are ignored (only used by seeded-fault selftests; pass L for none)
template <unsigned N, unsigned L> void greatestSimulation(const SymLTS<N, L>& t, bool S[N][N], unsigned skipLabel = L) {
  for (unsigned it = 0; it < N * N; ++it)            // every productive round deletes at least one of the N*N pairs
    for (unsigned q = 0; q < N; ++q) for (unsigned r = 0; r < N; ++r) {
      bool ok = true;
      for (unsigned a = 0; a < L; ++a) { if (a == skipLabel) continue;
        for (unsigned q2 = 0; q2 < N; ++q2) {
          bool answered = false;
          for (unsigned r2 = 0; r2 < N; ++r2) answered |= t.has(a, r, r2) & S[q2][r2];
          ok &= !t.has(a, q, q2) | answered;
        } }
      S[q][r] &= ok;
    }
}
}
