// Generic decoding of library automata back into masks over a concrete rule universe, plus mask-level constructions
// used as reference semantics for C02/C14/C15 (disjoint union, full product, image under a state map).
// Everything here is independent of libvata's algorithms: results are read by *iterating* the library object.
#pragma once
#include "universe.h"
namespace U {
// decode a library automaton whose states are all < N into masks; returns false if a rule / final state outside the
// universe U(N, SYM_RANKS) occurs.  State numbers and symbols of the result may be symbolic values: they are compared
// against every universe rule (no indexing with them).
template <unsigned N, class Aut> static bool decode(const Aut& aut, SymAut<N>& out, const unsigned long* stateName = 0, const unsigned long* symName = 0)
{
  // stateName / symName (optional): the library number of universe state s / symbol f (default: s / f themselves)
  out.nrules = Univ<N>::count();
  for (unsigned i = 0; i < out.nrules; ++i) out.pres[i] = false;
  bool ok = true;
  for (const typename Aut::Transition& t : aut) {
    bool matched = false;
    for (unsigned i = 0; i < out.nrules; ++i) {
      Rule r = Univ<N>::rule(i);
      bool m = (t.GetSymbol() == (symName ? symName[r.sym] : symnum(r.sym))) & (t.GetParent() == (stateName ? stateName[r.parent] : r.parent)) & (t.GetChildren().size() == r.rank);
      if (t.GetChildren().size() == r.rank) for (unsigned k = 0; k < r.rank; ++k) m = m & (t.GetChildren()[k] == (stateName ? stateName[r.child[k]] : r.child[k]));
      out.pres[i] = out.pres[i] | m; matched = matched | m;
    }
    ok = ok & matched;
  }
  for (unsigned s = 0; s < N; ++s) out.fin[s] = false;
  for (const auto& f : aut.GetFinalStates()) { bool in = false; for (unsigned s = 0; s < N; ++s) { bool m = (f == (stateName ? stateName[s] : s)); out.fin[s] = out.fin[s] | m; in = in | m; } ok = ok & in; }
  return ok;
}
template <unsigned N> static void clear(SymAut<N>& a) { a.nrules = Univ<N>::count(); for (unsigned i = 0; i < a.nrules; ++i) a.pres[i] = false; for (unsigned s = 0; s < N; ++s) a.fin[s] = false; }
template <unsigned N> static bool sameAut(const SymAut<N>& a, const SymAut<N>& b) { bool eq = true; for (unsigned i = 0; i < a.nrules; ++i) eq = eq & (a.pres[i] == b.pres[i]); for (unsigned s = 0; s < N; ++s) eq = eq & (a.fin[s] == b.fin[s]); return eq; }
template <unsigned N> static unsigned long ruleMask(const SymAut<N>& a) { unsigned long m = 0; for (unsigned i = 0; i < a.nrules; ++i) m |= (unsigned long)a.pres[i] << i; return m; }
template <unsigned N> static unsigned countRules(const SymAut<N>& a) { unsigned c = 0; for (unsigned i = 0; i < a.nrules; ++i) c += a.pres[i]; return c; }
// states that occur in a rule (as parent or child) or are final
template <unsigned N> static unsigned usedStates(const SymAut<N>& a) { unsigned m = finalMask(a);
  for (unsigned i = 0; i < a.nrules; ++i) { Rule r = Univ<N>::rule(i); m |= (unsigned)a.pres[i] << r.parent; for (unsigned k = 0; k < r.rank; ++k) m |= (unsigned)a.pres[i] << r.child[k]; } return m; }
// disjoint union at mask level: states of A keep their numbers, state q of B becomes PA + q
template <unsigned PA, unsigned PB> static void disjointUnion(const SymAut<PA>& a, const SymAut<PB>& b, SymAut<PA + PB>& out)
{
  clear(out);
  for (unsigned i = 0; i < a.nrules; ++i) { Rule r = Univ<PA>::rule(i); out.pres[Univ<PA + PB>::index(r.sym, r.parent, r.child[0], r.child[1])] = a.pres[i]; }
  for (unsigned i = 0; i < b.nrules; ++i) { Rule r = Univ<PB>::rule(i); out.pres[Univ<PA + PB>::index(r.sym, PA + r.parent, r.rank > 0 ? PA + r.child[0] : 0, r.rank > 1 ? PA + r.child[1] : 0)] = b.pres[i]; }
  for (unsigned s = 0; s < PA; ++s) out.fin[s] = a.fin[s];
  for (unsigned s = 0; s < PB; ++s) out.fin[PA + s] = b.fin[s];
}
// full synchronous product at mask level (no reachability pruning): pair (p, q) is state p * PB + q
template <unsigned PA, unsigned PB> static void fullProduct(const SymAut<PA>& a, const SymAut<PB>& b, SymAut<PA * PB>& out)
{
  clear(out);
  for (unsigned i = 0; i < out.nrules; ++i) { Rule r = Univ<PA * PB>::rule(i);
    out.pres[i] = a.has(r.sym, r.parent / PB, r.rank > 0 ? r.child[0] / PB : 0, r.rank > 1 ? r.child[1] / PB : 0)
                & b.has(r.sym, r.parent % PB, r.rank > 0 ? r.child[0] % PB : 0, r.rank > 1 ? r.child[1] % PB : 0); }
  for (unsigned s = 0; s < PA * PB; ++s) out.fin[s] = a.fin[s / PB] & b.fin[s % PB];
}
// image of A under a state map given as values map[s] (possibly symbolic, each < PR) for the states s < PA:
// a rule / final state is in the image iff it is the image of a rule / final state of A
template <unsigned PA, unsigned PR> static void imageAdd(const SymAut<PA>& a, const unsigned* map, SymAut<PR>& out)
{
  for (unsigned i = 0; i < a.nrules; ++i) { Rule r = Univ<PA>::rule(i);
    for (unsigned j = 0; j < out.nrules; ++j) { Rule q = Univ<PR>::rule(j); if (q.sym != r.sym) continue;
      bool m = a.pres[i] & (map[r.parent] == q.parent);
      for (unsigned k = 0; k < r.rank; ++k) m = m & (map[r.child[k]] == q.child[k]);
      out.pres[j] = out.pres[j] | m; } }
  for (unsigned s = 0; s < PA; ++s) for (unsigned t = 0; t < PR; ++t) out.fin[t] = out.fin[t] | (a.fin[s] & (map[s] == t));
}
}
