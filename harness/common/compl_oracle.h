// Reference semantics for complementation checks (C06): two tree automata X (NX states) and Y (NY states) over the SAME
// concrete ranked alphabet are given as rule tables (Tab<N>); profiles() computes, bottom-up, the set of all pairs
//     ( {x | x accepts t}, {y | y accepts t} )           for t ranging over ALL trees over the alphabet,
// i.e. the reachable states of the product of the two subset constructions.  "Every tree is accepted by exactly one of
// X and Y" is then a condition on the reachable pairs.  Independent of libvata: naive fixpoint over bit masks, constant
// loop bounds; the number of rounds is a parameter and convergence is *checked* (one extra round must change nothing),
// so a too small bound is reported instead of silently weakening the oracle.
#pragma once
#include "vs.h"
namespace CO {
enum { MAXSYM = 8, MAXPERRANK = 3 };
// a (top-down read) tree automaton over states 0..N-1 and an alphabet of nsym symbols with ranks <= 2
template <unsigned N> struct Tab {
  unsigned nsym; unsigned char rank[MAXSYM];
  bool r0[MAXSYM][N]; bool r1[MAXSYM][N][N]; bool r2[MAXSYM][N][N <= 4 ? N : 1][N <= 4 ? N : 1];   // [sym][parent][child0][child1]
  bool fin[N];
  void clear(unsigned ns, const unsigned char* ranks) {
    nsym = ns;
    for (unsigned k = 0; k < MAXSYM; ++k) { rank[k] = k < ns ? ranks[k] : 0;
      for (unsigned p = 0; p < N; ++p) { r0[k][p] = false; for (unsigned c = 0; c < N; ++c) r1[k][p][c] = false; }
      for (unsigned p = 0; p < N; ++p) for (unsigned c = 0; c < (N <= 4 ? N : 1); ++c) for (unsigned d = 0; d < (N <= 4 ? N : 1); ++d) r2[k][p][c][d] = false; }
    for (unsigned p = 0; p < N; ++p) fin[p] = false;
  }
  unsigned finMask() const { unsigned m = 0; for (unsigned p = 0; p < N; ++p) m |= (unsigned)fin[p] << p; return m; }
  unsigned long ruleCount() const { unsigned long n = 0;
    for (unsigned k = 0; k < nsym; ++k) for (unsigned p = 0; p < N; ++p) {
      if (rank[k] == 0) n += r0[k][p];
      else if (rank[k] == 1) { for (unsigned c = 0; c < N; ++c) n += r1[k][p][c]; }
      else if (N <= 4) { for (unsigned c = 0; c < N; ++c) for (unsigned d = 0; d < N; ++d) n += r2[k][p][c % (N <= 4 ? N : 1)][d % (N <= 4 ? N : 1)]; } }
    return n; }
};
// set of states that accept f(t0[,t1]) when S0 (S1) is the set of states accepting t0 (t1); S0, S1 are concrete masks
template <unsigned N> unsigned post0(const Tab<N>& t, unsigned k) { unsigned m = 0; for (unsigned p = 0; p < N; ++p) m |= (unsigned)t.r0[k][p] << p; return m; }
template <unsigned N> unsigned post1(const Tab<N>& t, unsigned k, unsigned S0) {
  unsigned m = 0;
  for (unsigned p = 0; p < N; ++p) { bool any = false; for (unsigned c = 0; c < N; ++c) if ((S0 >> c) & 1) any |= t.r1[k][p][c]; m |= (unsigned)any << p; }
  return m; }
template <unsigned N> unsigned post2(const Tab<N>& t, unsigned k, unsigned S0, unsigned S1) {
  unsigned m = 0;
  if (N <= 4)
    for (unsigned p = 0; p < N; ++p) { bool any = false;
      for (unsigned c = 0; c < N; ++c) if ((S0 >> c) & 1) for (unsigned d = 0; d < N; ++d) if ((S1 >> d) & 1) any |= t.r2[k][p][c % (N <= 4 ? N : 1)][d % (N <= 4 ? N : 1)];
      m |= (unsigned)any << p; }
  return m; }

template <unsigned NX, unsigned NY> struct Profiles {
  enum { PX = 1u << NX, PY = 1u << NY, PX2 = NX <= 4 ? PX : 1, PY2 = NY <= 4 ? PY : 1 };
  bool T[PX][PY];          // T[SX][SY]: some tree t over the alphabet has acc_X(t) = SX and acc_Y(t) = SY
  bool converged;          // the round after the last one added nothing
  bool supported;          // false: a binary symbol with more than 4 states on one side (tables not provided)
  // one-hot encodings of the post masks (computed once; they depend on the automata only)
  bool ex0[MAXSYM][PX], ey0[MAXSYM][PY];
  bool ex1[MAXPERRANK][PX][PX], ey1[MAXPERRANK][PY][PY];
  bool ex2[MAXPERRANK][PX2][PX2][PX2], ey2[MAXPERRANK][PY2][PY2][PY2];
  bool U1[PX][PX][PY], U2[PX][PY2][PY2], U[PX][PY];

  void compute(const Tab<NX>& x, const Tab<NY>& y, unsigned rounds) {
    supported = true;
    unsigned idx[MAXSYM]; unsigned n1 = 0, n2 = 0;
    for (unsigned k = 0; k < x.nsym; ++k) {
      if (x.rank[k] == 0) { unsigned mx = post0(x, k), my = post0(y, k);
        for (unsigned X = 0; X < PX; ++X) ex0[k][X] = mx == X;
        for (unsigned Y = 0; Y < PY; ++Y) ey0[k][Y] = my == Y; idx[k] = 0; }
      else if (x.rank[k] == 1) { unsigned j = idx[k] = n1++; if (j >= MAXPERRANK) { supported = false; return; }
        for (unsigned S = 0; S < PX; ++S) { unsigned m = post1(x, k, S); for (unsigned X = 0; X < PX; ++X) ex1[j][S][X] = m == X; }
        for (unsigned S = 0; S < PY; ++S) { unsigned m = post1(y, k, S); for (unsigned Y = 0; Y < PY; ++Y) ey1[j][S][Y] = m == Y; } }
      else { unsigned j = idx[k] = n2++; if (j >= MAXPERRANK || NX > 4 || NY > 4) { supported = false; return; }
        for (unsigned S = 0; S < PX2; ++S) for (unsigned R = 0; R < PX2; ++R) { unsigned m = post2(x, k, S, R); for (unsigned X = 0; X < PX2; ++X) ex2[j][S][R][X] = m == X; }
        for (unsigned S = 0; S < PY2; ++S) for (unsigned R = 0; R < PY2; ++R) { unsigned m = post2(y, k, S, R); for (unsigned Y = 0; Y < PY2; ++Y) ey2[j][S][R][Y] = m == Y; } }
    }
    for (unsigned X = 0; X < PX; ++X) for (unsigned Y = 0; Y < PY; ++Y) T[X][Y] = false;
    converged = false;
    for (unsigned it = 0; it <= rounds; ++it) {        // rounds productive rounds + 1 control round
      bool changed = false;
      for (unsigned k = 0; k < x.nsym; ++k) {
        const unsigned j = idx[k];
        if (x.rank[k] == 0) {
          for (unsigned X = 0; X < PX; ++X) for (unsigned Y = 0; Y < PY; ++Y) { bool nv = ex0[k][X] & ey0[k][Y]; changed |= nv & !T[X][Y]; T[X][Y] |= nv; }
        } else if (x.rank[k] == 1) {
          // U[X][S0y] = exists S0x: T[S0x][S0y] and post_x(S0x) = X
          for (unsigned X = 0; X < PX; ++X) for (unsigned Sy = 0; Sy < PY; ++Sy) { bool v = false; for (unsigned Sx = 0; Sx < PX; ++Sx) v |= T[Sx][Sy] & ex1[j][Sx][X]; U[X][Sy] = v; }
          for (unsigned X = 0; X < PX; ++X) for (unsigned Y = 0; Y < PY; ++Y) { bool nv = false; for (unsigned Sy = 0; Sy < PY; ++Sy) nv |= U[X][Sy] & ey1[j][Sy][Y];
            changed |= nv & !T[X][Y]; T[X][Y] |= nv; }
        } else {
          // U1[S1x][X][S0y] = exists S0x: T[S0x][S0y] and post_x(S0x,S1x) = X
          for (unsigned S1x = 0; S1x < PX2; ++S1x) for (unsigned X = 0; X < PX2; ++X) for (unsigned S0y = 0; S0y < PY2; ++S0y) { bool v = false;
            for (unsigned S0x = 0; S0x < PX2; ++S0x) v |= T[S0x][S0y] & ex2[j][S0x][S1x][X]; U1[S1x][X][S0y] = v; }
          // U2[X][S0y][S1y] = exists S1x: U1[S1x][X][S0y] and T[S1x][S1y]
          for (unsigned X = 0; X < PX2; ++X) for (unsigned S0y = 0; S0y < PY2; ++S0y) for (unsigned S1y = 0; S1y < PY2; ++S1y) { bool v = false;
            for (unsigned S1x = 0; S1x < PX2; ++S1x) v |= U1[S1x][X][S0y] & T[S1x][S1y]; U2[X][S0y][S1y] = v; }
          for (unsigned X = 0; X < PX2; ++X) for (unsigned Y = 0; Y < PY2; ++Y) { bool nv = false;
            for (unsigned S0y = 0; S0y < PY2; ++S0y) for (unsigned S1y = 0; S1y < PY2; ++S1y) nv |= U2[X][S0y][S1y] & ey2[j][S0y][S1y][Y];
            changed |= nv & !T[X][Y]; T[X][Y] |= nv; }
        }
      }
      if (it == rounds) converged = !changed;
    }
  }
  // no tree is accepted by both (fx, fy: masks of the accepting states)
  bool disjoint(unsigned fx, unsigned fy) const { bool bad = false;
    for (unsigned X = 0; X < PX; ++X) for (unsigned Y = 0; Y < PY; ++Y) bad |= T[X][Y] & ((X & fx) != 0) & ((Y & fy) != 0); return !bad; }
  // every tree over the alphabet is accepted by at least one
  bool covering(unsigned fx, unsigned fy) const { bool bad = false;
    for (unsigned X = 0; X < PX; ++X) for (unsigned Y = 0; Y < PY; ++Y) bad |= T[X][Y] & ((X & fx) == 0) & ((Y & fy) == 0); return !bad; }
  unsigned long count() const { unsigned long n = 0; for (unsigned X = 0; X < PX; ++X) for (unsigned Y = 0; Y < PY; ++Y) n += T[X][Y]; return n; }
  // is there any tree over the alphabet at all / any tree accepted by x (by y)
  bool anyTree() const { bool a = false; for (unsigned X = 0; X < PX; ++X) for (unsigned Y = 0; Y < PY; ++Y) a |= T[X][Y]; return a; }
};
}
