// Preparation of the operands of an inclusion query exactly as cli/operations.hh (CheckInclusion) does it:
// sanitise (useless-state removal + dense disjoint renumbering), and for sim=yes the simulation of the matching
// direction on the disjoint union, handed over through InclParam::SetSimulation.
#pragma once
#include <vata/incl_param.hh>
#include <vata/sim_param.hh>
template <class Aut>
static bool prepared_inclusion(Aut smaller, Aut bigger, bool up, bool rec, bool optC, bool sim, int direct = 0, unsigned directStates = 0)
{
  using namespace VATA;
  // direct: the selections without simulation sanitise copies of their operands themselves (CheckInclusion in
  // src/*_incl.cc), so they may be called on the automata as built (useless states, overlapping state numbers)
  AutBase::StateType states = 0;
  // direct == 2 (memory-safety queries only, C20): also the selections with simulation get the automata as built - the caller
  // numbered the states of both operands densely and disjointly (directStates states in all), nothing is trimmed
  if (direct == 2) states = directStates;
  else if (sim || !direct) states = AutBase::SanitizeAutsForInclusion(smaller, bigger);
  InclParam ip;
  ip.SetAlgorithm(InclParam::e_algorithm::antichains);
  ip.SetDirection(up ? InclParam::e_direction::upward : InclParam::e_direction::downward);
  ip.SetUseRecursion(rec); ip.SetUseDownwardCacheImpl(optC); ip.SetUseSimulation(sim);
  ip.SetSearchOrder(InclParam::e_search_order::depth);
  AutBase::StateDiscontBinaryRelation simrel;
  if (sim) {
    Aut unionAut = Aut::UnionDisjointStates(smaller, bigger);
    SimParam sp;
    sp.SetRelation(up ? SimParam::e_sim_relation::TA_UPWARD : SimParam::e_sim_relation::TA_DOWNWARD);
    sp.SetNumStates(states);
    simrel = unionAut.ComputeSimulation(sp);
    ip.SetSimulation(&simrel);
  }
  return Aut::CheckInclusion(smaller, bigger, ip);
}
