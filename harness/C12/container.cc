// C12: the rule container of ExplicitTreeAut after a symbolic history of STEPS mutating calls (AddTransition, SetStateFinal,
// SetStatesFinal, EraseFinalStates, Clear), every read-only view compared with a shadow (set of rules + set of final
// states).  Solver variables: the STEPS call codes (vs_range).  Rule universe: ruleset.h (NS states, SYMS = (symbol, rank)
// list; a symbol number may occur with several ranks).
#include <vata/explicit_tree_aut.hh>
#include <set>
#include "ruleset.h"
using namespace VATA;
#ifndef STEPS
#define STEPS 3
#endif
#ifndef VIEWS
#define VIEWS 0      // 0: all views after every call; 1: only after the last call
#endif
enum { NR_MAX = RS::MAXR };
typedef ExplicitTreeAut::Transition Trans;
typedef ExplicitTreeAut::StateTuple Tuple;

static Tuple tupleOf(const RS::Rule& r) { Tuple t; for (unsigned k = 0; k < r.rank; ++k) t.push_back(r.child[k]); return t; }

// compare every read-only view of aut with the shadow
static void views(ExplicitTreeAut& aut, const RS::Val& sh, int base)
{
  const ExplicitTreeAut& caut = aut;
  const unsigned NR = RS::count();
  bool got[NR_MAX];
  // (1) iteration: every shadow rule exactly once, nothing else (const and non-const begin/end)
  { bool ok = RS::readRules(caut, got); CHECK(ok, base + 1);
    for (unsigned i = 0; i < NR; ++i) {
      bool expect = sh.pres[i];
#ifdef VS_SELFTEST_1
      if (i == 0) expect = false;                       // seeded wrong shadow: the first universe rule is never expected
#endif
      CHECK(got[i] == expect, base + 2); }
    unsigned n = 0, m = 0; for (ExplicitTreeAut::iterator it = aut.begin(); it != aut.end() && n <= NR; ++it) ++n;
    for (unsigned i = 0; i < NR; ++i) m += sh.pres[i];
    CHECK(n == m, base + 3); }
  // (2) ContainsTransition, both overloads, for every universe rule and for near misses outside the universe
  for (unsigned i = 0; i < NR; ++i) { RS::Rule r = RS::rule(i); Tuple t = tupleOf(r);
    CHECK(caut.ContainsTransition(t, r.sym, r.parent) == sh.pres[i], base + 4);
    CHECK(caut.ContainsTransition(Trans(r.parent, r.sym, t)) == sh.pres[i], base + 5);
    CHECK(!caut.ContainsTransition(t, r.sym + 7, r.parent), base + 6);            // unused symbol
    CHECK(!caut.ContainsTransition(t, r.sym, r.parent + NS), base + 7);           // parent outside
    Tuple longer = t; longer.push_back(0); longer.push_back(0); longer.push_back(0);
    CHECK(!caut.ContainsTransition(longer, r.sym, r.parent), base + 8);           // same symbol, rank never used
  }
  // (3) accepting transitions: exactly the rules with a final parent
  { ExplicitTreeAut::AcceptTrans acc = caut.GetAcceptTrans();
    bool ok = RS::readRules(acc, got); CHECK(ok, base + 10);
    for (unsigned i = 0; i < NR; ++i) {
      bool expect = sh.pres[i] && ((sh.fin >> RS::rule(i).parent) & 1);
#ifdef VS_SELFTEST_2
      expect = sh.pres[i];                              // seeded wrong expectation: finality ignored
#endif
      CHECK(got[i] == expect, base + 11); } }
  // (4) indexing by a state, including a state that never occurs (ExplicitTreeAut::GetDown is declared in the public
  //     header but defined nowhere in /repo/src, so only operator[] can be called)
  for (unsigned s = 0; s <= NS; ++s) {
    bool any = false;
    { ExplicitTreeAut::DownAccessor down = caut[s];
      bool ok = RS::readRules(down, got); CHECK(ok, base + 12);
      for (unsigned i = 0; i < NR; ++i) { bool expect = sh.pres[i] && RS::rule(i).parent == s; any |= expect; CHECK(got[i] == expect, base + 13); }
      CHECK(down.empty() == !any, base + 14); }
  }
  // (5) used states = states occurring in a rule or in the final set
  { std::unordered_set<size_t> used = caut.GetUsedStates(); unsigned m = 0, n = 0; bool inside = true;
    for (size_t q : used) { ++n; bool hit = false; for (unsigned s = 0; s < NS; ++s) { hit |= q == s; m |= (unsigned)(q == s) << s; } inside &= hit; }
    CHECK(inside, base + 20); CHECK(m == sh.used(), base + 21); CHECK(n == (unsigned)__builtin_popcount(sh.used()), base + 22); }
  // (6) final states
  { unsigned m = 0, n = 0; bool inside = true;
    for (size_t q : caut.GetFinalStates()) { ++n; bool hit = false; for (unsigned s = 0; s < NS; ++s) { hit |= q == s; m |= (unsigned)(q == s) << s; } inside &= hit; }
    CHECK(inside, base + 23); CHECK(m == sh.fin, base + 24); CHECK(n == (unsigned)__builtin_popcount(sh.fin), base + 25);
    for (unsigned s = 0; s <= NS; ++s) CHECK(caut.IsStateFinal(s) == (bool)((sh.fin >> s) & 1), base + 26); }
  // (7) emptiness of the rule container
  CHECK(aut.AreTransitionsEmpty() == sh.noRules(), base + 27);
}

#ifndef MODE
#define MODE 0       // 0: history of STEPS arbitrary calls; 1: bulk history (subset of all rules, one call, second subset)
#endif
#ifndef NR2
#define NR2 2        // MODE 1: the second batch is drawn from the first NR2 and the last NR2 universe rules
#endif

extern "C" void harness(void)
{
  const unsigned NR = RS::count(), NFS = 1u << NS;
  ExplicitTreeAut aut; RS::Val sh; sh.clear();
#if MODE == 0
  // call codes: [0,NR) AddTransition(rule), then NS x SetStateFinal, 2^NS x SetStatesFinal(subset), EraseFinalStates, Clear;
  // the remaining codes of the power-of-two range are further AddTransition calls (so repeated rules are frequent)
  const unsigned NCODES = NR + NS + NFS + 2;
  unsigned CODES = 1; while (CODES < NCODES) CODES <<= 1;
  unsigned code[STEPS];
  for (unsigned k = 0; k < STEPS; ++k) code[k] = vs_range(CODES);
#if VIEWS == 0
  views(aut, sh, 0);
#endif
  for (unsigned k = 0; k < STEPS; ++k) {
    unsigned c = code[k]; if (c >= NCODES) c = (c - NCODES) % NR;
    for (unsigned i = 0; i < NR; ++i) if (c == i) { RS::addRule(aut, i); sh.pres[i] = true; }
    for (unsigned s = 0; s < NS; ++s) if (c == NR + s) { aut.SetStateFinal(s); sh.fin |= 1u << s; }
    for (unsigned m = 0; m < NFS; ++m) if (c == NR + NS + m) { std::set<size_t> st; for (unsigned s = 0; s < NS; ++s) if ((m >> s) & 1) st.insert(s); aut.SetStatesFinal(st); sh.fin |= m; }
    if (c == NR + NS + NFS) { aut.EraseFinalStates(); sh.fin = 0; }
    if (c == NR + NS + NFS + 1) { aut.Clear(); sh.clear(); }
#if VIEWS == 0
    views(aut, sh, 100 * (k + 1));
#endif
  }
#if VIEWS == 1
  views(aut, sh, 100 * STEPS);
#endif
#else
  // bulk history: AddTransition for an arbitrary subset of the universe (so that several parents, several symbols per
  // parent and several tuples per symbol coexist), SetStateFinal for a subset of states; then one call out of
  // {none, Clear, EraseFinalStates, the same AddTransition calls again in reverse order}; then a second small batch.
  bool p1[NR_MAX], f1[NS], p2[2 * NR2], f2;
  for (unsigned i = 0; i < NR; ++i) p1[i] = vs_bit();
  for (unsigned s = 0; s < NS; ++s) f1[s] = vs_bit();
  const unsigned mid = vs_range(4);
  for (unsigned i = 0; i < 2 * NR2; ++i) p2[i] = vs_bit();
  f2 = vs_bit();
  for (unsigned i = 0; i < NR; ++i) if (p1[i]) { RS::addRule(aut, i); sh.pres[i] = true; }
  for (unsigned s = 0; s < NS; ++s) if (f1[s]) { aut.SetStateFinal(s); sh.fin |= 1u << s; }
  views(aut, sh, 0);
  if (mid == 1) { aut.Clear(); sh.clear(); }
  if (mid == 2) { aut.EraseFinalStates(); sh.fin = 0; }
  if (mid == 3) for (unsigned i = NR; i-- > 0; ) if (p1[i]) RS::addRule(aut, i);
#if VIEWS == 0
  views(aut, sh, 100);
#endif
  for (unsigned j = 0; j < 2 * NR2; ++j) { unsigned i = j < NR2 ? j : NR - 2 * NR2 + j; if (p2[j]) { RS::addRule(aut, i); sh.pres[i] = true; } }
  if (f2) { aut.SetStateFinal(NS - 1); sh.fin |= 1u << (NS - 1); }
  views(aut, sh, 200);
#endif
#ifdef VS_OBSERVE
  { unsigned long m = 0, n = 0; for (const Trans& t : aut) { unsigned p = RS::position(t); m |= 1ul << p; ++n; } vs_observe(m); vs_observe(n);
    unsigned f = 0; for (size_t q : aut.GetFinalStates()) f |= 1u << q; vs_observe(f);
    unsigned long a = 0; for (const Trans& t : aut.GetAcceptTrans()) a |= 1ul << RS::position(t); vs_observe(a);
    vs_observe(aut.GetUsedStates().size()); vs_observe(aut.AreTransitionsEmpty()); }
#endif
#ifdef VS_WITNESS
  vs_reach();
#endif
}
