// C20: the rarely used public entry points of the four automaton facades and of ExplicitLTS that no other harness calls
// (list: apicov.py), each on small SYMBOLIC automata, one entry point (or a small group that cannot throw) per query,
// selected by CALL.  What decides is the engine's own checking (memory safety, undefined behaviour, unexpected
// exceptions); the CHECKs are plain sanity conditions (counts, round trips, verdicts of trivially true inclusions).
// Registered in checks.d/C20.py as api_misc_tree / _tree_algo / _fa / _fa_incl / _bdd / _bdd_incl / _lts (same source, the
// translation units each group needs).  VS_SELFTEST_1 seeds a wrong expectation at the end of every group.
// Declared in the public headers but defined nowhere (cannot be called at all, a caller does not link): ExplicitTreeAut::
// LoadFromAutDesc(desc, params) and (desc, StringToStateTranslWeak&), GetDown, DownAccessor(DownAccessor&&),
// AcceptTrans::Iterator(const ExplicitTreeAut&), DownAccessor::Iterator(const ExplicitTreeAut&); BDDBottomUpTreeAut::
// LoadFromAutDesc(desc, params) and (desc, StringToStateTranslWeak&); all three BDDTopDownTreeAut::LoadFromAutDesc.
//
//   explicit tree automata (U::SymAut<NS> over SYM_RANKS; symbols registered in the alphabet as "a", "b", ...)
//     0  CheckInclusion(a, a)                       2-argument form (default parameters): must hold
//     1  CheckInclusion(a, b)                       2-argument form against the macro-state oracle
//     2  AddTransition(const Transition&)           + ContainsTransition(const Transition&)
//     3  BuildStateIndex(TranslatorWeak<StateMap>&)
//     4  Reduce(const ReduceParam&)                 TA_DOWNWARD
//     5  ToString()
//     6  ToString(const Transition&)                [not registered: formats through std::ostringstream, which the engine cannot execute]
//     7  DumpToString(serializer, params)           no dictionary; the text must parse
//     8  DumpToString(serializer, StateBackTranslStrict), DumpToString(serializer, StateDict)
//     9  DumpToAutDesc(params), DumpToAutDesc(StateBackTranslStrict)
//    10  LoadFromString(parser, text)               no dictionary
//    11  LoadFromString(parser, text, StringToStateTranslWeak&)
//    12  LoadFromString(parser, text, StateDict&)
//    13  GetAlphabet() const
//    14  Iterator: copy construction, ==, !=
//    15  AcceptTrans: move construction; AcceptTrans::Iterator: copy construction, ==
//    16  DownAccessor (operator[]); DownAccessor::Iterator: copy construction, ==
//   finite automata (FA::SymFA<NA>, letters "a", "b", start symbol "x", states "A", "B")
//    20  CheckInclusion(a, a)                       2-argument form: must hold
//    21  CheckInclusion(s, a)                       2-argument form against the subset-construction oracle (s: one state)
//    22  LoadFromAutDesc(desc, params)              23  LoadFromAutDesc(desc, StringToStateTranslWeak&)
//    24  LoadFromAutDesc(desc, StateDict&)
//    25  LoadFromString(parser, text, params)       26  LoadFromString(parser, text, StringToStateTranslWeak&)
//    27  LoadFromString(parser, text, StateDict&)
//    28  SetExistingStateStart(state, SymbolSet)
//    29  DumpToString(serializer, StateBackTranslStrict&)   30  DumpToString(serializer, StateDict)
//    31  DumpToString(serializer, params)           no dictionary; the text must parse
//    32  GetAlphabet() const; an automaton with an alphabet of its own (~OnTheFlyAlphabet)
//   BDD tree automata: 40 + k bottom-up, 60 + k top-down
//     k = 0  AddTransition(children, SymbolicVarAsgn, parent) with 16-character cubes, SetStateFinal, IsStateFinal, GetFinalStates
//         1  ... DumpToString(serializer, "symbolic") without dictionary (top-down: not implemented -> exception allowed)
//         2  ... DumpToString(serializer, "") without dictionary (explicit symbol mode on a cube-built automaton)
//         3  top-down only: DumpToString(serializer, StateBackTranslStrict) (the bottom-up facade has no such overload)
//         4  LoadFromString(parser, text, "symbolic") without dictionary
//         5  LoadFromString(parser, text, StringToStateTranslWeak&, "symbolic")
//         6  LoadFromString(parser, text) without dictionary, explicit symbol mode (BA::Aut<NS>)
//         7  LoadFromString(parser, text, StringToStateTranslWeak&), explicit symbol mode
//         8  move construction
//     bottom-up only:
//         9  GetCandidateTree()                      not implemented -> exception allowed
//        10  DumpToDot()                             [not registered: formats through std::ostringstream, see 6]
//        11  GetTransMTBDDForTuple(tuple)
//        12  CheckInclusion(a, a) 2-argument form (explicit symbol mode): must hold
//        13  CheckInclusion(s, a) 2-argument form against the macro-state oracle (s: one state)
//        14  CheckInclusion(a, a) 2-argument form on a cube-built automaton: must hold
//   labelled transition systems
//    80  ExplicitLTS::computeSimulation()           no argument; against the naive greatest-fixpoint oracle
#include "vs.h"
#ifndef CALL
#define CALL 0
#endif
static inline unsigned popc(unsigned long m) { unsigned c = 0; for (unsigned i = 0; i < 64; ++i) c += (m >> i) & 1; return c; }

// ============================================================================================= explicit tree automata
#if CALL < 20
#include <vata/explicit_tree_aut.hh>
#include <vata/parsing/timbuk_parser.hh>
#include <vata/serialization/timbuk_serializer.hh>
#include <vata/reduce_param.hh>
#include "decode.h"
using namespace VATA;
typedef ExplicitTreeAut TA;
typedef U::SymAut<NS> SA;
typedef Util::AutDescription Desc;
static const char* const QN[4] = {"q0", "q1", "q2", "q3"};
static const char* const SN[4] = {"a", "b", "c", "d"};
struct Syms { unsigned long s[U::NSYM]; };
// the symbols of the universe are entered into the alphabet (as loading a Timbuk text would do): the dump / print entry
// points translate symbol numbers back through the alphabet and reject unknown numbers by an exception
static Syms registerAlphabet(TA& aut) {
  Syms y; auto tr = aut.GetAlphabet()->GetSymbolTransl();
  for (unsigned k = 0; k < U::NSYM; ++k) y.s[k] = (*tr)(TA::StringRank(SN[k], U::RANK[k]));
  return y;
}
static TA::Transition mkTrans(const U::Rule& r, const Syms& y) { TA::StateTuple t; for (unsigned k = 0; k < r.rank; ++k) t.push_back(r.child[k]); return TA::Transition(r.parent, y.s[r.sym], t); }
static void build(TA& aut, const SA& A, const Syms& y) {
  for (unsigned i = 0; i < A.nrules; ++i) if (A.pres[i]) { TA::Transition t = mkTrans(U::Univ<NS>::rule(i), y); aut.AddTransition(t.GetChildren(), t.GetSymbol(), t.GetParent()); }
  for (unsigned s = 0; s < NS; ++s) if (A.fin[s]) aut.SetStateFinal(s);
}
static Desc mkDesc(const SA& A) {
  Desc d; d.name = "A";
  for (unsigned k = 0; k < U::NSYM; ++k) d.symbols.insert(Desc::Symbol(SN[k], U::RANK[k]));
  for (unsigned s = 0; s < NS; ++s) d.states.insert(QN[s]);
  for (unsigned s = 0; s < NS; ++s) if (A.fin[s]) d.finalStates.insert(QN[s]);
  for (unsigned i = 0; i < A.nrules; ++i) if (A.pres[i]) { U::Rule r = U::Univ<NS>::rule(i); Desc::StateTuple t; for (unsigned k = 0; k < r.rank; ++k) t.push_back(QN[r.child[k]]);
    d.transitions.insert(Desc::Transition(t, SN[r.sym], QN[r.parent])); }
  return d;
}
static unsigned countTrans(const TA& aut) { unsigned n = 0; for (const TA::Transition& t : aut) { (void)t; ++n; } return n; }
static void fillDict(AutBase::StateDict& dict) { for (unsigned s = 0; s < NS; ++s) dict.insert(std::make_pair(std::string(QN[s]), (AutBase::StateType)s)); }

extern "C" void harness(void)
{
  SA A; A.draw();
#if CALL == 1
  SA B; B.draw();
#endif
  const unsigned nr = U::countRules(A), nf = popc(U::finalMask(A));
  unsigned long obs = 0;
  TA aut; Syms y = registerAlphabet(aut);
#if CALL != 2 && CALL != 10 && CALL != 11 && CALL != 12
  build(aut, A, y);
#endif
#if CALL == 0
  bool v = TA::CheckInclusion(aut, aut);
  CHECK(v, 1); obs = v;
#elif CALL == 1
  TA b; build(b, B, y);
  bool v = TA::CheckInclusion(aut, b);
  CHECK(v == (U::included<NS, NS>(A, B)), 1); obs = v;
#elif CALL == 2
  for (unsigned i = 0; i < A.nrules; ++i) if (A.pres[i]) aut.AddTransition(mkTrans(U::Univ<NS>::rule(i), y));
  for (unsigned i = 0; i < A.nrules; ++i) CHECK(aut.ContainsTransition(mkTrans(U::Univ<NS>::rule(i), y)) == A.pres[i], 1);
  obs = countTrans(aut); CHECK(obs == nr, 2);
#elif CALL == 3
  std::unordered_map<size_t, size_t> m; size_t cnt = 0;
  Util::TranslatorWeak<std::unordered_map<size_t, size_t>> index(m, [&cnt](const size_t&) { return cnt++; });
  aut.BuildStateIndex(index);
  const unsigned used = U::usedStates(A);
  CHECK(m.size() == popc(used), 1); CHECK(cnt == m.size(), 2);
  for (unsigned s = 0; s < NS; ++s) { auto it = m.find(s); CHECK((it != m.end()) == (bool)((used >> s) & 1), 3); if (it != m.end()) CHECK(it->second < cnt, 4); }
  obs = cnt;
#elif CALL == 4
  ReduceParam rp; rp.SetRelation(ReduceParam::e_reduce_relation::TA_DOWNWARD);
  TA red = aut.Reduce(rp);
  SA R; unsigned long sy[U::NSYM]; for (unsigned k = 0; k < U::NSYM; ++k) sy[k] = y.s[k];
  CHECK((U::decode<NS>(red, R, 0, sy)), 1);
  CHECK(U::countRules(R) <= nr, 2);
  CHECK((U::included<NS, NS>(A, R)), 3); CHECK((U::included<NS, NS>(R, A)), 4);
  obs = U::countRules(R);
#elif CALL == 5
  std::string s = aut.ToString();
  unsigned lines = 0; for (char c : s) lines += c == '\n';
  CHECK(!s.empty(), 1); CHECK(lines == 2 + nr, 2);         // "Root states: ...", "Transitions", one line per rule
  obs = s.size();
#elif CALL == 6
  unsigned n = 0;
  for (const TA::Transition& t : aut) { std::string s = aut.ToString(t); obs += s.size(); ++n; }
  for (unsigned i = 0; i < A.nrules; ++i) { std::string s = aut.ToString(mkTrans(U::Univ<NS>::rule(i), y)); obs += s.size(); }     // also for rules that are not in the automaton
  CHECK(n == nr, 1);
#elif CALL == 7
  Serialization::TimbukSerializer ser; Parsing::TimbukParser parser;
  std::string text = aut.DumpToString(ser);                 // states are called by their numbers
  Desc e = parser.ParseString(text);                        // an exception is a violation: the dump must be loadable text
  CHECK(e.transitions.size() == nr, 1); CHECK(e.finalStates.size() == nf, 2);
  for (unsigned s = 0; s < NS; ++s) CHECK(e.finalStates.count(Util::Convert::ToString(s)) == A.fin[s], 3);
  obs = text.size();
#elif CALL == 8
  Serialization::TimbukSerializer ser; Parsing::TimbukParser parser;
  AutBase::StateDict dict; fillDict(dict);
  AutBase::StateBackTranslStrict back(dict.GetReverseMap());
  std::string text = aut.DumpToString(ser, back);
  Desc e = parser.ParseString(text);
  Desc d = mkDesc(A);
  CHECK(e.transitions == d.transitions, 1); CHECK(e.finalStates == d.finalStates, 2);
  std::string text2 = aut.DumpToString(ser, dict);           // the StateDict overload (a back translator over the same map): same text
  CHECK(text2 == text, 3);
  obs = text.size();
#elif CALL == 9
  Desc e = aut.DumpToAutDesc();                             // std::string parameter overload
  CHECK(e.transitions.size() == nr, 1); CHECK(e.finalStates.size() == nf, 2);
  AutBase::StateDict dict; fillDict(dict);
  AutBase::StateBackTranslStrict back(dict.GetReverseMap());
  Desc f = aut.DumpToAutDesc(back);
  Desc d = mkDesc(A);
  CHECK(f.transitions == d.transitions, 3); CHECK(f.finalStates == d.finalStates, 4);
  obs = e.transitions.size() * 16 + f.finalStates.size();
#elif CALL == 10 || CALL == 11 || CALL == 12
  Serialization::TimbukSerializer ser; Parsing::TimbukParser parser;
  Desc d = mkDesc(A);
  std::string text = ser.Serialize(d);
#if CALL == 10
  aut.LoadFromString(parser, text);
#elif CALL == 11
  AutBase::StateDict dict; size_t cnt = 0;
  AutBase::StringToStateTranslWeak transl(dict, [&cnt](const std::string&) { return cnt++; });
  aut.LoadFromString(parser, text, transl);
#else
  AutBase::StateDict dict;
  aut.LoadFromString(parser, text, dict);
#endif
  CHECK(countTrans(aut) == nr, 1); CHECK(aut.GetFinalStates().size() == nf, 2);
#if CALL != 10
  // under the names of the dictionary: the same rules and final states
  Desc f = aut.DumpToAutDesc(dict);
  CHECK(f.transitions == d.transitions, 3); CHECK(f.finalStates == d.finalStates, 4);
  CHECK(dict.size() == popc(U::usedStates(A)), 5);
#endif
  obs = text.size();
#elif CALL == 13
  const TA& c = aut;
  const TA::AlphabetType& al = c.GetAlphabet();
  CHECK(al.get() != 0, 1); CHECK(al.get() == aut.GetAlphabet().get(), 2);
  auto back = al->GetSymbolBackTransl();
  for (unsigned k = 0; k < U::NSYM; ++k) { TA::StringRank sr = (*back)(y.s[k]); CHECK(sr.symbolStr == SN[k], 3); CHECK(sr.rank == U::RANK[k], 4); obs += sr.rank; }
#elif CALL == 14
  unsigned n = 0;
  TA::Iterator it = aut.begin(); const TA::Iterator end = aut.end();
  CHECK((it == end) == (nr == 0), 1);
  while (it != end) {
    TA::Iterator copy(it);                                  // copy construction
    CHECK(copy == it, 2); CHECK(!(copy != it), 3);
    CHECK(*copy == *it, 4);
    ++it; ++n;
    CHECK(!(copy == it), 5);                                // the copy stays where it was
    CHECK((copy == end) == false, 6);
  }
  TA::Iterator endCopy(end); CHECK(endCopy == it, 7); CHECK(endCopy == end, 8);
  CHECK(n == nr, 9); obs = n;
#elif CALL == 15
  unsigned want = 0; for (unsigned i = 0; i < A.nrules; ++i) want += A.pres[i] & A.fin[U::Univ<NS>::rule(i).parent];
  TA::AcceptTrans first = aut.GetAcceptTrans();
  TA::AcceptTrans acc(std::move(first));                    // move construction
  unsigned n = 0;
  TA::AcceptTrans::Iterator it = acc.begin(); const TA::AcceptTrans::Iterator end = acc.end();
  CHECK((it == end) == (want == 0), 1);
  while (it != end) {
    TA::AcceptTrans::Iterator copy(it);
    CHECK(copy == it, 2); CHECK(*copy == *it, 3);
    CHECK(aut.IsStateFinal((*it).GetParent()), 4);
    ++it; ++n;
    CHECK(!(copy == it), 5);
  }
  TA::AcceptTrans::Iterator endCopy(end); CHECK(endCopy == it, 6);
  CHECK(n == want, 7); obs = n;
#elif CALL == 16
  for (unsigned s = 0; s < NS + 1; ++s) {                   // NS: a state that does not occur
    unsigned want = 0; for (unsigned i = 0; i < A.nrules; ++i) want += A.pres[i] & (U::Univ<NS>::rule(i).parent == s);
    const TA::DownAccessor& down = aut[s];
    CHECK(down.empty() == (want == 0), 1);
    unsigned n = 0;
    TA::DownAccessor::Iterator it = down.begin(); const TA::DownAccessor::Iterator end = down.end();
    CHECK((it == end) == (want == 0), 2);
    while (it != end) {
      TA::DownAccessor::Iterator copy(it);
      CHECK(copy == it, 3); CHECK(*copy == *it, 4);
      CHECK((*it).GetParent() == s, 5);
      ++it; ++n;
      CHECK(!(copy == it), 6);
    }
    TA::DownAccessor::Iterator endCopy(end); CHECK(endCopy == it, 7);
    CHECK(n == want, 8); obs = obs * 8 + n;
  }
#else
#error unknown CALL
#endif
#ifdef VS_SELFTEST_1
  CHECK(nr != 1 || nf != 1, 99);                            // seeded wrong expectation: "no automaton has exactly one rule and one final state"
#endif
#ifdef VS_OBSERVE
  vs_observe(obs); vs_observe(nr); vs_observe(nf);
#endif
#ifdef VS_WITNESS
  vs_reach();
#endif
}

// ==================================================================================================== finite automata
#elif CALL < 40
#include <vata/explicit_finite_aut.hh>
#include <vata/parsing/timbuk_parser.hh>
#include <vata/serialization/timbuk_serializer.hh>
#include "fa_universe.h"
#include "fa_decode.h"
using namespace VATA;
#ifndef NA
#define NA 2
#endif
typedef ExplicitFiniteAut FAut;
typedef FA::SymFA<NA> SF;
typedef Util::AutDescription Desc;
static std::string qn(unsigned q) { return std::string(1, (char)('A' + q)); }
static std::string an(unsigned a) { return std::string(1, (char)('a' + a)); }
static Desc mkDesc(const SF& A) {
  Desc d; d.name = "A";
  d.symbols.insert(Desc::Symbol("x", 0)); for (unsigned a = 0; a < FA::NSYM; ++a) d.symbols.insert(Desc::Symbol(an(a), 1));
  for (unsigned q = 0; q < NA; ++q) d.states.insert(qn(q));
  for (unsigned q = 0; q < NA; ++q) if (A.fin[q]) d.finalStates.insert(qn(q));
  for (unsigned q = 0; q < NA; ++q) if (A.start[q]) d.transitions.insert(Desc::Transition(Desc::StateTuple(), "x", qn(q)));
  for (unsigned q = 0; q < NA; ++q) for (unsigned a = 0; a < FA::NSYM; ++a) for (unsigned r = 0; r < NA; ++r) if (A.edge[q][a][r]) d.transitions.insert(Desc::Transition(Desc::StateTuple(1, qn(q)), an(a), qn(r)));
  return d;
}
static bool same(const SF& X, const SF& Y) { bool e = true;
  for (unsigned q = 0; q < NA; ++q) { e = e & (X.start[q] == Y.start[q]) & (X.fin[q] == Y.fin[q]); for (unsigned a = 0; a < FA::NSYM; ++a) for (unsigned r = 0; r < NA; ++r) e = e & (X.edge[q][a][r] == Y.edge[q][a][r]); }
  return e; }
// states that occur somewhere (start, final, end point of an edge)
static unsigned occurring(const SF& A) { unsigned m = FA::startMask(A) | FA::finMask(A);
  for (unsigned q = 0; q < NA; ++q) for (unsigned a = 0; a < FA::NSYM; ++a) for (unsigned r = 0; r < NA; ++r) if (A.edge[q][a][r]) m |= (1u << q) | (1u << r);
  return m; }

extern "C" void harness(void)
{
  SF A; A.draw(FA::fullShape());
#if CALL == 21
  FA::SymFA<1> S; S.draw(FA::fullShape());                  // the smaller operand: one state (16 free bits in all)
#endif
#if CALL == 28
  bool extra[NA]; for (unsigned q = 0; q < NA; ++q) extra[q] = vs_bit();      // which of the non-start states are made start states afterwards
  bool two = vs_bit();                                                       // with one or two start symbols
#endif
  const unsigned ne = popc(A.edgeMask()), ns = popc(FA::startMask(A)), nf = popc(FA::finMask(A));
  unsigned long obs = 0;
  FAut aut; FA::Alphabet al = FA::registerAlphabet(aut);
#if CALL < 22 || CALL > 27
  A.build(aut, 0, al.sym, al.startSym);
#endif
#if CALL == 20
  bool v = FAut::CheckInclusion(aut, aut);
  CHECK(v, 1); obs = v;
#elif CALL == 21
  FAut small; S.build(small, 0, al.sym, al.startSym);       // (state numbers overlap: the dispatcher renumbers copies itself)
  bool v = FAut::CheckInclusion(small, aut);
  CHECK(v == (FA::included<1, NA>(S, A)), 1); obs = v;
#elif CALL >= 22 && CALL <= 27
  Serialization::TimbukSerializer ser; Parsing::TimbukParser parser;
  Desc d = mkDesc(A);
#if CALL >= 25
  std::string text = ser.Serialize(d);
#endif
#if CALL == 22
  aut.LoadFromAutDesc(d);                                   // (desc, params = "")
#elif CALL == 23
  AutBase::StateDict dict; size_t cnt = 0;
  AutBase::StringToStateTranslWeak transl(dict, [&cnt](const std::string&) { return cnt++; });
  aut.LoadFromAutDesc(d, transl);
#elif CALL == 24
  AutBase::StateDict dict;
  aut.LoadFromAutDesc(d, dict);
#elif CALL == 25
  aut.LoadFromString(parser, text);
#elif CALL == 26
  AutBase::StateDict dict; size_t cnt = 0;
  AutBase::StringToStateTranslWeak transl(dict, [&cnt](const std::string&) { return cnt++; });
  aut.LoadFromString(parser, text, transl);
#else
  AutBase::StateDict dict;
  aut.LoadFromString(parser, text, dict);
#endif
  CHECK(aut.GetStartStates().size() == ns, 1);
#if CALL == 22 || CALL == 25
  Desc e = parser.ParseString(aut.DumpToString(ser));       // states under their numbers
  CHECK(e.transitions.size() == ne + ns, 2); CHECK(e.finalStates.size() == nf, 3);
  obs = e.transitions.size();
#else
  FA::Decoder<NA> dec; aut.DumpToString(dec, dict);
  CHECK(dec.ok, 2); CHECK(same(dec.out, A), 3);
  CHECK(dict.size() == popc(occurring(A)), 4);
  obs = dec.nrules;
#endif
#elif CALL == 28
  FAut::SymbolSet syms; syms.insert(al.startSym); if (two) syms.insert(al.sym[0]);
  SF W = A;
  // (precondition, asserted in the sources: the state has no start symbols yet)
  for (unsigned q = 0; q < NA; ++q) if (extra[q] && !A.start[q]) { aut.SetExistingStateStart(q, syms); W.start[q] = true; }
  for (unsigned q = 0; q < NA; ++q) { bool isStart = aut.GetStartStates().count(q) != 0; CHECK(isStart == W.start[q], 1);
    if (extra[q] && !A.start[q]) CHECK(aut.GetStartSymbols(q).size() == (two ? 2u : 1u), 2); }
  SF R; CHECK(FA::decode<NA>(aut, R), 3); CHECK(same(R, W), 4);
  obs = FA::startMask(W);
#elif CALL == 29 || CALL == 30
  AutBase::StateDict dict; FA::fillStateDict(dict, NA);
  FA::Decoder<NA> dec;
#if CALL == 29
  AutBase::StateBackTranslStrict back(dict.GetReverseMap());
  aut.DumpToString(dec, back);
#else
  aut.DumpToString(dec, dict);
#endif
  CHECK(dec.ok, 1); CHECK(same(dec.out, A), 2);
  Serialization::TimbukSerializer ser; Parsing::TimbukParser parser;
#if CALL == 29
  std::string text = aut.DumpToString(ser, back);
#else
  std::string text = aut.DumpToString(ser, dict);
#endif
  Desc e = parser.ParseString(text), d = mkDesc(A);
  CHECK(e.transitions == d.transitions, 3); CHECK(e.finalStates == d.finalStates, 4);
  obs = text.size();
#elif CALL == 31
  Serialization::TimbukSerializer ser; Parsing::TimbukParser parser;
  std::string text = aut.DumpToString(ser);
  Desc e = parser.ParseString(text);
  CHECK(e.transitions.size() == ne + ns, 1); CHECK(e.finalStates.size() == nf, 2);
  for (unsigned q = 0; q < NA; ++q) CHECK(e.finalStates.count(Util::Convert::ToString(q)) == A.fin[q], 3);
  obs = text.size();
#elif CALL == 32
  const FAut& c = aut;
  const FAut::AlphabetType& ca = c.GetAlphabet();
  CHECK(ca.get() != 0, 1); CHECK(ca.get() == aut.GetAlphabet().get(), 2);
  auto back = ca->GetSymbolBackTransl();
  for (unsigned a = 0; a < FA::NSYM; ++a) { std::string s = (*back)(al.sym[a]); CHECK(s == an(a), 3); obs += s.size(); }
  CHECK((*back)(al.startSym) == "x", 4);
  { // an automaton with an alphabet of its own (not the global one): the alphabet dies with the last automaton that holds it
    FAut own;
    own.GetAlphabet() = FAut::AlphabetType(new FAut::OnTheFlyAlphabet);
    FA::Alphabet al2 = FA::registerAlphabet(own);
    A.build(own, 0, al2.sym, al2.startSym);
    const FAut& co = own; CHECK(co.GetAlphabet().get() != ca.get(), 5);
    FAut copy(own);                                         // shares the alphabet
    CHECK(copy.GetAlphabet().get() == co.GetAlphabet().get(), 6);
    SF R; CHECK(FA::decode<NA>(copy, R), 7); CHECK(same(R, A), 8);
  }
#else
#error unknown CALL
#endif
#ifdef VS_SELFTEST_1
  CHECK(ne != 1 || nf != 1, 99);                            // seeded wrong expectation: "no automaton has exactly one edge and one final state"
#endif
#ifdef VS_OBSERVE
  vs_observe(obs); vs_observe(ne); vs_observe(ns); vs_observe(nf);
#endif
#ifdef VS_WITNESS
  vs_reach();
#endif
}

// ================================================================================================= BDD tree automata
#elif CALL < 80
#include "bddaut.h"
#include <vata/parsing/timbuk_parser.hh>
#include <vata/serialization/timbuk_serializer.hh>
using namespace VATA;
#if CALL < 60
typedef BDDBottomUpTreeAut AutT;
#define BC (CALL - 40)
#define TOPDOWN 0
#else
typedef BDDTopDownTreeAut AutT;
#define BC (CALL - 60)
#define TOPDOWN 1
#endif
#if TOPDOWN && (BC > 8)
#error bottom-up only
#endif
#if !TOPDOWN && BC == 3
#error top-down only (the bottom-up facade declares no DumpToString(serializer, StateBackTranslStrict))
#endif
typedef Util::AutDescription Desc;
typedef BA::Aut<NS> MA;
// cube pool (16 symbol variables; this is how examples/example16-symbolic_incl.cc writes symbols): leaf rules cube -> q,
// unary rules cube(q) -> r
enum { NCUBE = 2 };
static const char* const CUBE[NCUBE] = {"XXXXXXXXXXXXXXXX", "0000XXXXXXXXXXX1"};
struct CubeAut {
  bool leaf[NCUBE][NS], un[NCUBE][NS][NS], fin[NS];
  void draw() { for (unsigned c = 0; c < NCUBE; ++c) for (unsigned s = 0; s < NS; ++s) leaf[c][s] = vs_bit();
    for (unsigned c = 0; c < NCUBE; ++c) for (unsigned s = 0; s < NS; ++s) for (unsigned t = 0; t < NS; ++t) un[c][s][t] = vs_bit();
    for (unsigned s = 0; s < NS; ++s) fin[s] = vs_bit(); }
  unsigned finMask() const { unsigned m = 0; for (unsigned s = 0; s < NS; ++s) m |= (unsigned)fin[s] << s; return m; }
  unsigned rules() const { unsigned n = 0; for (unsigned c = 0; c < NCUBE; ++c) for (unsigned s = 0; s < NS; ++s) { n += leaf[c][s]; for (unsigned t = 0; t < NS; ++t) n += un[c][s][t]; } return n; }
  // states that are final or occur in a rule
  unsigned occurring() const { unsigned m = finMask(); for (unsigned c = 0; c < NCUBE; ++c) for (unsigned s = 0; s < NS; ++s) { m |= (unsigned)leaf[c][s] << s; for (unsigned t = 0; t < NS; ++t) if (un[c][s][t]) m |= (1u << s) | (1u << t); } return m; }
  // through AddTransition(children, SymbolicVarAsgn, parent) and SetStateFinal
  void build(AutT& aut) const {
    for (unsigned c = 0; c < NCUBE; ++c) for (unsigned s = 0; s < NS; ++s) if (leaf[c][s]) aut.AddTransition(AutT::StateTuple(), SymbolicVarAsgn(std::string(CUBE[c])), s);
    for (unsigned c = 0; c < NCUBE; ++c) for (unsigned s = 0; s < NS; ++s) for (unsigned t = 0; t < NS; ++t) if (un[c][s][t]) aut.AddTransition(AutT::StateTuple(1, s), SymbolicVarAsgn(std::string(CUBE[c])), t);
    for (unsigned s = 0; s < NS; ++s) if (fin[s]) aut.SetStateFinal(s);
  }
  Desc desc() const { Desc d; d.name = "A";
    for (unsigned s = 0; s < NS; ++s) d.states.insert(BA::QN[s]);
    for (unsigned s = 0; s < NS; ++s) if (fin[s]) d.finalStates.insert(BA::QN[s]);
    for (unsigned c = 0; c < NCUBE; ++c) for (unsigned s = 0; s < NS; ++s) if (leaf[c][s]) d.transitions.insert(Desc::Transition(Desc::StateTuple(), CUBE[c], BA::QN[s]));
    for (unsigned c = 0; c < NCUBE; ++c) for (unsigned s = 0; s < NS; ++s) for (unsigned t = 0; t < NS; ++t) if (un[c][s][t]) d.transitions.insert(Desc::Transition(Desc::StateTuple(1, BA::QN[s]), CUBE[c], BA::QN[t]));
    return d; }
};
// what a set of rules says, by meaning (the MTBDD may split or join cubes): per (kind, child, parent) the set of assignments
// of the variables that the pool tests (REL; all other variables are don't care everywhere) on which some rule applies
enum { NREL = 5 };
static const unsigned REL[NREL] = {0, 1, 2, 3, 15};
static bool cubeMask(const std::string& cube, unsigned& mask) {     // false: not a cube over the tested variables
  mask = 0; if (cube.size() != 16) return false;
  for (unsigned i = 0; i < 16; ++i) { bool rel = false; for (unsigned k = 0; k < NREL; ++k) rel = rel || REL[k] == i; if (!rel && cube[i] != 'X') return false; }
  for (unsigned a = 0; a < (1u << NREL); ++a) { bool cov = true; for (unsigned k = 0; k < NREL; ++k) { char c = cube[REL[k]]; if (c != 'X' && c != (((a >> k) & 1) ? '1' : '0')) cov = false; } if (cov) mask |= 1u << a; }
  return true;
}
struct Meaning { unsigned leaf[NS], un[NS][NS]; bool alien;
  void clear() { alien = false; for (unsigned s = 0; s < NS; ++s) { leaf[s] = 0; for (unsigned t = 0; t < NS; ++t) un[s][t] = 0; } }
  void of(const CubeAut& A) { clear(); for (unsigned c = 0; c < NCUBE; ++c) { unsigned m; cubeMask(CUBE[c], m); for (unsigned s = 0; s < NS; ++s) { if (A.leaf[c][s]) leaf[s] |= m; for (unsigned t = 0; t < NS; ++t) if (A.un[c][s][t]) un[s][t] |= m; } } }
  // of a parsed dump whose states are called by their numbers
  void of(const Desc& d) { clear();
    for (const Desc::Transition& t : d.transitions) {
      unsigned p = NS, c = NS; for (unsigned s = 0; s < NS; ++s) { if (t.third == Util::Convert::ToString(s)) p = s; if (t.first.size() == 1 && t.first[0] == Util::Convert::ToString(s)) c = s; }
      unsigned m;
      if (p == NS || t.first.size() > 1 || (t.first.size() == 1 && c == NS) || !cubeMask(t.second, m)) { alien = true; continue; }
      if (t.first.empty()) leaf[p] |= m; else un[c][p] |= m; } }
  bool operator==(const Meaning& o) const { bool e = alien == o.alien; for (unsigned s = 0; s < NS; ++s) { e = e & (leaf[s] == o.leaf[s]); for (unsigned t = 0; t < NS; ++t) e = e & (un[s][t] == o.un[s][t]); } return e; }
};

extern "C" void harness(void)
{
  unsigned long obs = 0;
  Serialization::TimbukSerializer ser; Parsing::TimbukParser parser;
#if BC == 3 || BC == 6 || BC == 7 || BC == 12 || BC == 13
  // ---- explicit symbol mode: mask automata over the rule universe
  MA A; A.draw();
#if BC == 13
  BA::Aut<1> S; S.draw();                                   // the smaller operand: one state (11 free bits in all)
#endif
  const unsigned nr = popc(A.ruleMask()), nf = popc(A.finalMask());
  AutT aut;
#if BC == 3
  BA::StateDict dict; BA::seedDict(dict, 0, NS); BA::load(aut, A, dict);
  AutBase::StateBackTranslStrict back(dict.GetReverseMap());
  BA::Decoder<NS> dec; aut.DumpToString(dec, back);
  CHECK(dec.out.ok, 1);
  for (unsigned i = 0; i < MA::NR; ++i) CHECK(dec.out.aut.pres[i] == A.pres[i], 2);
  for (unsigned s = 0; s < NS; ++s) CHECK(dec.out.aut.fin[s] == A.fin[s], 3);
  std::string text = aut.DumpToString(ser, back);
  Desc e = parser.ParseString(text);
  CHECK(e.transitions.size() == nr, 4); CHECK(e.finalStates.size() == nf, 5);
  obs = text.size();
#elif BC == 6
  Desc d; BA::makeDesc(A, d); BA::FixedParser P(d);
  aut.LoadFromString(P, std::string());                    // no dictionary
  Desc e = parser.ParseString(aut.DumpToString(ser));      // states under their numbers
  CHECK(e.transitions.size() == nr, 1); CHECK(e.finalStates.size() == nf, 2);
  CHECK(aut.GetFinalStates().size() == nf, 3);
  obs = e.transitions.size();
#elif BC == 7
  Desc d; BA::makeDesc(A, d); BA::FixedParser P(d);
  BA::StateDict dict; size_t cnt = 0;
  AutBase::StringToStateTranslWeak transl(dict, [&cnt](const std::string&) { return cnt++; });
  aut.LoadFromString(P, std::string(), transl);
  BA::Dump<NS> out = BA::dump<NS>(aut, dict);
  CHECK(out.ok, 1);
  for (unsigned i = 0; i < MA::NR; ++i) CHECK(out.aut.pres[i] == A.pres[i], 2);
  for (unsigned s = 0; s < NS; ++s) CHECK(out.aut.fin[s] == A.fin[s], 3);
  CHECK(dict.size() == popc(BA::occurring(A)), 4); CHECK(cnt == dict.size(), 5);
  obs = cnt;
#elif BC == 12
  BA::StateDict dict; BA::seedDict(dict, 0, NS); BA::load(aut, A, dict);
  bool v = AutT::CheckInclusion(aut, aut);
  CHECK(v, 1); obs = v;
#elif BC == 13
  BA::StateDict dictA, dictS; BA::seedDict(dictA, 0, NS); BA::seedDict(dictS, NS, NS + 1);
  AutT small; BA::load(aut, A, dictA); BA::load(small, S, dictS, NS);
  bool v = AutT::CheckInclusion(small, aut);
  CHECK(v == (BA::included<1, NS>(S, A)), 1); obs = v;
#endif
#ifdef VS_SELFTEST_1
  CHECK(nr != 1 || nf != 1, 99);                            // seeded wrong expectation
#endif
#ifdef VS_OBSERVE
  vs_observe(obs); vs_observe(nr); vs_observe(nf);
#endif
#else
  // ---- symbolic symbol mode: rules labelled by cubes
  CubeAut A; A.draw();
  const unsigned nf = popc(A.finMask());
  Meaning want; want.of(A);
  AutT aut;
#if BC != 4 && BC != 5
  A.build(aut);
#endif
#if BC == 0
  for (unsigned s = 0; s < NS + 1; ++s) CHECK(aut.IsStateFinal(s) == (s < NS && A.fin[s]), 1);
  const AutT::FinalStateSet& fs = aut.GetFinalStates();
  CHECK(fs.size() == nf, 2);
  for (unsigned s = 0; s < NS; ++s) CHECK(fs.count(s) == A.fin[s], 3);
  obs = fs.size();
#elif BC == 1 || BC == 4 || BC == 5 || BC == 8
#if BC == 4
  aut.LoadFromString(parser, ser.Serialize(A.desc()), "symbolic");       // no dictionary: states are numbered in order of appearance
#elif BC == 5
  BA::StateDict dict; size_t cnt = 0;
  AutBase::StringToStateTranslWeak transl(dict, [&cnt](const std::string&) { return cnt++; });
  aut.LoadFromString(parser, ser.Serialize(A.desc()), transl, "symbolic");
  CHECK(dict.size() == popc(A.occurring()), 10); CHECK(cnt == dict.size(), 11);
#endif
  CHECK(aut.GetFinalStates().size() == nf, 1);
#if BC == 8
  AutT moved(std::move(aut));                               // move construction; `aut` is only destroyed afterwards
  AutT& subject = moved;
  for (unsigned s = 0; s < NS; ++s) CHECK(subject.IsStateFinal(s) == A.fin[s], 2);
#else
  AutT& subject = aut;
#endif
#if TOPDOWN && BC == 1
  // the symbolic dump of the top-down encoding is not implemented (BDDTDTreeAutCore::dumpToAutDescSymbolic throws
  // NotImplementedException): the exception is the expected outcome, anything else must at least be loadable text
#ifdef VS_WITNESS
  vs_reach();               // (the call below always throws today, so the witness sits in front of it)
#define WITNESS_DONE
#endif
  vs_allow_throw(1);
  std::string text = subject.DumpToString(ser, "symbolic");
  vs_allow_throw(0);
  Desc e = parser.ParseString(text);
  obs = e.finalStates.size();
#elif TOPDOWN
  // (no symbolic dump for this encoding, see k = 1: the explicit one shows the states and the final states)
  std::string text = subject.DumpToString(ser);
  Desc e = parser.ParseString(text);
  CHECK(e.finalStates.size() == nf, 3);
  obs = e.finalStates.size();
#else
  std::string text = subject.DumpToString(ser, "symbolic");  // no dictionary: states under their numbers
  Desc e = parser.ParseString(text);                        // an exception is a violation: the dump must be loadable text
  CHECK(e.finalStates.size() == nf, 3);
#if BC == 1 || BC == 8
  // the states carry the numbers the harness gave them: the dumped rules mean what was added
  Meaning got; got.of(e);
  CHECK(!got.alien, 4); CHECK(got == want, 5);
  for (unsigned s = 0; s < NS; ++s) CHECK(e.finalStates.count(Util::Convert::ToString(s)) == A.fin[s], 6);
#endif
  obs = e.finalStates.size();
#endif
#elif BC == 2
  BA::primeAlphabet(aut, 1);                                // the alphabet knows the explicit symbols "a", "b" (16-bit codes 0, 1)
  std::string text = aut.DumpToString(ser);                 // explicit symbol mode: the rules that apply to the symbols the alphabet knows
  Desc e = parser.ParseString(text);
  CHECK(e.finalStates.size() == nf, 1);
  for (unsigned s = 0; s < NS; ++s) CHECK(e.finalStates.count(Util::Convert::ToString(s)) == A.fin[s], 2);
  obs = e.finalStates.size();
#elif BC == 9
#ifdef VS_WITNESS
  vs_reach();               // (the call below always throws today, so the witness sits in front of it)
#define WITNESS_DONE
#endif
  vs_allow_throw(1);        // BDDBottomUpTreeAut::GetCandidateTree: throw NotImplementedException(__func__)
  AutT cand = aut.GetCandidateTree();
  vs_allow_throw(0);
  obs = cand.GetFinalStates().size();
#elif BC == 10
  std::string dot = aut.DumpToDot();
  CHECK(dot.size() >= 17, 1);                               // "digraph mtbdd {\n" ... "}"
  CHECK(dot.compare(0, 16, "digraph mtbdd {\n") == 0, 2); CHECK(dot[dot.size() - 1] == '}', 3);
  obs = 1;                                                  // (the text contains node addresses)
#elif BC == 11
  AutT::StateTuple none, t0(1, 0), t1(1, 1), unknown(2, 5);
  uintptr_t m[4] = { aut.GetTransMTBDDForTuple(none), aut.GetTransMTBDDForTuple(t0), aut.GetTransMTBDDForTuple(t1), aut.GetTransMTBDDForTuple(unknown) };
  for (unsigned i = 0; i < 4; ++i) CHECK(m[i] != 0, 1);
  CHECK(aut.GetTransMTBDDForTuple(none) == m[0], 2);        // stable while the automaton is not modified
  CHECK(m[0] != m[1] || m[0] == m[3], 3);                   // two tuples with rules have different diagrams objects (or both are the default one)
  obs = 4;                                                  // (addresses are not comparable between engine and native twin)
#elif BC == 14
  bool v = AutT::CheckInclusion(aut, aut);
  CHECK(v, 1); obs = v;
#else
#error unknown CALL
#endif
#ifdef VS_SELFTEST_1
  CHECK(A.rules() != 1 || nf != 1, 99);                     // seeded wrong expectation
#endif
#ifdef VS_OBSERVE
  vs_observe(obs); vs_observe(A.rules()); vs_observe(nf);
#endif
#endif
#if defined(VS_WITNESS) && !defined(WITNESS_DONE)
  vs_reach();
#endif
}

// ====================================================================================== labelled transition systems
#elif CALL == 80
#include <vata/explicit_lts.hh>
#include "lts_universe.h"
using namespace VATA;
#ifndef NQ
#define NQ 2
#endif
#ifndef NL
#define NL 2
#endif
#ifndef MULT
#define MULT 0
#endif
typedef LU::SymLTS<NQ, NL> SL;
extern "C" void harness(void)
{
  SL T; T.draw(~0ul, MULT);
  ExplicitLTS lts(NQ);                                      // NQ states whatever the edges mention (the engine needs a non-empty state set)
  T.build(lts);
  lts.init();
  CHECK(lts.states() == NQ, 1);
  Util::BinaryRelation res = lts.computeSimulation();       // output size = number of states
  bool S[NQ][NQ]; for (unsigned q = 0; q < NQ; ++q) for (unsigned r = 0; r < NQ; ++r) S[q][r] = true;
  LU::greatestSimulation<NQ, NL>(T, S);
  CHECK(res.size() == NQ, 2);
  unsigned long got = 0;
  for (unsigned q = 0; q < NQ; ++q) for (unsigned r = 0; r < NQ; ++r) { bool g = res.get(q, r); CHECK(g == S[q][r], 3); got |= (unsigned long)g << (q * NQ + r); }
  CHECK(lts.states() == NQ, 4);
#ifdef VS_SELFTEST_1
  CHECK(T.edgeMask() != 1, 99);                             // seeded wrong expectation
#endif
#ifdef VS_OBSERVE
  vs_observe(got); vs_observe(T.edgeMask());
#endif
#ifdef VS_WITNESS
  vs_reach();
#endif
}
#else
#error unknown CALL
#endif
