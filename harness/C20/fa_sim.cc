// C20: the simulation entry points of the finite-automata encoding on symbolic NFAs.  Whatever a selection does - compute
// a relation or report that it is not implemented by an exception - it must not execute undefined behaviour.
//   DIR 0: ComputeSimulation(SimParam{FA_FORWARD, n})   DIR 1: ComputeSimulation(SimParam{FA_BACKWARD, n})
//   DIR 2: ComputeSimulation(SimParam{FA_FORWARD}) without a number of states
#include <vata/explicit_finite_aut.hh>
#include <vata/sim_param.hh>
#include "fa_universe.h"
#include "fa_decode.h"
using namespace VATA;
#ifndef NA
#define NA 2
#endif
#ifndef DIR
#define DIR 0
#endif
extern "C" void harness(void)
{
  FA::Shape sa = { ~0ul, ~0u, 0, ~0u, 0 };
  FA::SymFA<NA> A; A.draw(sa);
  ExplicitFiniteAut a; FA::Alphabet al = FA::registerAlphabet(a);
  A.build(a, 0, al.sym, al.startSym);
  SimParam sp;
  sp.SetRelation(DIR == 1 ? SimParam::e_sim_relation::FA_BACKWARD : SimParam::e_sim_relation::FA_FORWARD);
#if DIR != 2
  sp.SetNumStates(NA);
#endif
#ifdef VS_WITNESS
  vs_reach();               // (the call below may legitimately always throw, so the witness sits in front of it)
#endif
  vs_allow_throw(1);        // "not implemented" is reported by an exception
  AutBase::StateDiscontBinaryRelation sim = a.ComputeSimulation(sp);
  vs_allow_throw(0);
#ifdef VS_OBSERVE
  vs_observe(1);
#endif
}
