// C20 self-test harness: the engine's memory-safety / UB detectors must fire on deliberately faulty code that uses
// the real library objects (each VS_SELFTEST_* plants one fault on some inputs only), and stay silent without them.
#include <vata/explicit_tree_aut.hh>
#include "universe.h"
using namespace VATA;
extern "C" void harness(void)
{
  U::SymAut<NS> A; A.draw();
  ExplicitTreeAut* aut = new ExplicitTreeAut(); A.build(*aut);
  ExplicitTreeAut trimmed = aut->RemoveUselessStates();
  unsigned n = 0; for (const ExplicitTreeAut::Transition& t : trimmed) { (void)t; ++n; }
  int* p = new int[4]; for (int i = 0; i < 4; ++i) p[i] = i;
  unsigned idx = n & 3;
#ifdef VS_SELFTEST_OOB
  if (A.pres[0] && A.fin[0]) idx = 4 + (n & 1);            // heap overflow on some inputs only
#endif
  int v = p[idx];
#ifdef VS_SELFTEST_UAF
  if (A.pres[1]) { delete aut; aut = 0; delete[] p; v += p[1]; p = new int[4]; }   // read after free
#endif
#ifdef VS_SELFTEST_UNINIT
  { int* q = new int[2]; if (A.pres[0]) q[0] = 1; v += p[q[0] & 3]; delete[] q; }      // address depends on an uninitialised heap word
#endif
#ifdef VS_SELFTEST_DOUBLEFREE
  if (A.fin[1] && !A.pres[0]) { delete[] p; }
#endif
  delete[] p;
  CHECK(v >= 0, 1);
  delete aut;
#ifdef VS_OBSERVE
  vs_observe(n);
#endif
#ifdef VS_WITNESS
  vs_reach();
#endif
}
