// Engine probe: libstdc++ container idioms whose object code reads whole words that are only partly initialised
// (std::vector<bool> growth).  The results must be exact (no dependence on uninitialised bits is to be reported).
#include "vs.h"
#include <vector>
#ifndef NBITS
#define NBITS 4
#endif
extern "C" void harness(void)
{
  bool b[NBITS]; for (unsigned i = 0; i < NBITS; ++i) b[i] = vs_bit();
  std::vector<bool> m;
#if MODE == 0
  for (unsigned i = 0; i < NBITS; ++i) { if (i >= m.size()) m.resize(i + 1, false); m[i] = b[i]; }
#else
  // symbolic index order: element k is written at position perm(k)
  bool sw = vs_bit();
  for (unsigned i = 0; i < NBITS; ++i) { unsigned idx = sw ? NBITS - 1 - i : i; if (idx >= m.size()) m.resize(idx + 1, false); m[idx] = b[idx]; }
#endif
  unsigned cnt = 0, ref = 0;
  for (unsigned i = 0; i < m.size(); ++i) if (m[i]) ++cnt;
  for (unsigned i = 0; i < NBITS; ++i) ref += b[i];
  CHECK(cnt == ref, 1);
  CHECK(m.size() == NBITS, 2);
#ifdef VS_OBSERVE
  vs_observe(cnt);
#endif
#ifdef VS_WITNESS
  vs_reach();
#endif
}
