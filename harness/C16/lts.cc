// C16: ExplicitLTS::computeSimulation on a symbolic LTS over the edge universe U(NQ states, NL labels) restricted to EMASK.
// MODE 0: computeSimulation(outputSize)            -> greatest simulation preorder of the system
// MODE 1: computeSimulation(partition, relation, outputSize) with a symbolic partition of the states into blocks and a
//         symbolic reflexive, transitive relation on the blocks -> greatest simulation inside the induced state relation
// Solver variables: presence bits of the edges (two per edge with MULT=1: parallel edges / varied insertion order),
// the output size (OUTSYM=1), the block of every state (restricted-growth numbering), block order reversal (REV=1), and the
// off-diagonal bits of the block relation.
#include <vata/explicit_lts.hh>
#include "lts_universe.h"
using namespace VATA;
#ifndef NQ
#define NQ 2
#endif
#ifndef NL
#define NL 1
#endif
#ifndef MODE
#define MODE 0
#endif
#ifndef MULT
#define MULT 0
#endif
#ifndef EMASK
#define EMASK (~0ul)
#endif
#ifndef OUTSYM
#define OUTSYM 1
#endif
#ifndef REV
#define REV 0
#endif
#ifndef CT
#define CT NQ      // constructor argument "least number of states"; with CT < NQ the number of states follows from the edges
#endif
#ifndef FILL
#define FILL 0     // number of additional concrete "filler" states NQ..NQ+FILL-1, each with one self loop on label 0: they are
#endif             // disconnected from the symbolic core (so the core's simulation is unchanged) but make the engine use
                   // several counter rows (a row holds 31 (label,state) pairs with outgoing transitions)
#if FILL && MODE == 1
#error filler states are not put into the supplied partition: FILL needs MODE 0
#endif
typedef LU::SymLTS<NQ, NL> SL;

extern "C" void harness(void)
{
  // ---- inputs
  SL T; T.draw(EMASK, MULT);
#if defined(FILLFIRST) && OUTSYM
#error FILLFIRST needs OUTSYM=0 (the whole relation is requested)
#endif
#ifdef OUTFIX      // a fixed output size between NQ and the number of states (e.g. 16 = one row of the result's bit matrix)
  unsigned out = OUTFIX;
#elif defined(FILLFIRST)
  unsigned out = NQ + FILL;
#else
  unsigned out = OUTSYM ? vs_range(NQ + 1) : NQ;
#endif
#if MODE == 1
  unsigned blk[NQ]; unsigned B = 1; blk[0] = 0;                 // restricted growth string: blocks numbered by their least state
  for (unsigned q = 1; q < NQ; ++q) { blk[q] = vs_range(q + 1); vs_assume(blk[q] <= B); B = blk[q] == B ? B + 1 : B; }
  bool rev = REV ? vs_bit() : false;
  bool R[NQ][NQ];                                                // relation on blocks (index = position in the partition vector)
  for (unsigned i = 0; i < NQ; ++i) for (unsigned j = 0; j < NQ; ++j) R[i][j] = i == j ? true : vs_bit();
  for (unsigned i = 0; i < NQ; ++i) for (unsigned j = 0; j < NQ; ++j) if (i != j) vs_assume(!R[i][j] | ((i < B) & (j < B)));   // unused bits are 0
  for (unsigned i = 0; i < NQ; ++i) for (unsigned j = 0; j < NQ; ++j) for (unsigned k = 0; k < NQ; ++k) vs_assume(!(R[i][j] & R[j][k]) | R[i][k]);   // transitive
#endif
  // number of states: the constructor argument, raised by the edges
  unsigned ns = T.usedStates();
#ifndef REUSED
  ns = ns < CT ? CT : ns;
#endif
  if (FILL) ns = NQ + FILL;
  vs_assume(ns >= 1);            // the engine requires a non-empty state set (documented by its assertions)
  vs_assume(out <= ns);

  // ---- the system under test
#ifdef FILLFIRST
  ExplicitLTS lts(NQ + FILL);      // the core states are the last ones: they exist even if no edge mentions them
#else
  ExplicitLTS lts(CT);
#endif
#ifdef FILLFIRST   // the filler states take the numbers 0..FILL-1, the symbolic core follows (the core's counters then sit behind the fillers')
  enum { COFF = FILL, FOFF = 0 };
#else
  enum { COFF = 0, FOFF = NQ };
#endif
#ifdef REUSED   // the object held another system before (more labels, more states, other edges) and was cleared: clear() leaves no trace
  // (the number of states then comes from the edges alone)
  lts.addTransition(0, NL + 1, 1); lts.addTransition(1, 0, 0); lts.addTransition(NQ + 1, NL, 0); lts.addTransition(NQ, 0, NQ + 1); lts.init(); lts.clear();
#endif
  T.build(lts, COFF);
#ifdef FILLBOTH    // the filler states carry self loops on labels 0 AND 1: the counters of both labels span several rows, with overlapping row ranges
  for (unsigned i = 0; i < FILL; ++i) { lts.addTransition(FOFF + i, 0, FOFF + i); lts.addTransition(FOFF + i, 1, FOFF + i); }
#elif defined(FILLCHAIN)   // the filler states form a chain NQ -> NQ+1 -> ... (label 0): pairwise different, so the partition grows to FILL blocks one split at a time
  for (unsigned i = 0; i + 1 < FILL; ++i) lts.addTransition(FOFF + i, 0, FOFF + i + 1);
#else
  for (unsigned i = 0; i < FILL; ++i) lts.addTransition(FOFF + i, 0, FOFF + i);
#endif
  lts.init();
  CHECK(lts.states() == ns, 1);

  // ---- oracle
  bool S[NQ][NQ];
#if MODE == 0
  for (unsigned q = 0; q < NQ; ++q) for (unsigned r = 0; r < NQ; ++r) S[q][r] = true;
  Util::BinaryRelation res = lts.computeSimulation(out);
#else
  // position of block b in the partition vector, and order of the states inside a block
  unsigned pos[NQ]; for (unsigned q = 0; q < NQ; ++q) pos[q] = rev ? B - 1 - blk[q] : blk[q];
  for (unsigned q = 0; q < NQ; ++q) for (unsigned r = 0; r < NQ; ++r) { bool v = false;
    for (unsigned i = 0; i < NQ; ++i) for (unsigned j = 0; j < NQ; ++j) v |= (pos[q] == i) & (pos[r] == j) & R[i][j];
    S[q][r] = v; }
  std::vector<std::vector<size_t>> part;
  for (unsigned b = 0; b < NQ; ++b) if (b < B) {
    part.push_back(std::vector<size_t>());
    for (unsigned k = 0; k < NQ; ++k) { unsigned q = rev ? NQ - 1 - k : k; if (pos[q] == b) part.back().push_back(q); }
  }
  Util::BinaryRelation rel(B, false);
  for (unsigned i = 0; i < NQ; ++i) for (unsigned j = 0; j < NQ; ++j) if ((i < B) & (j < B)) rel.set(i, j, R[i][j]);
  Util::BinaryRelation res = lts.computeSimulation(part, rel, out);
#endif
#ifdef VS_SELFTEST_1
  LU::greatestSimulation<NQ, NL>(T, S, 0);       // seeded wrong oracle: label 0 ignored -> too large a relation expected
#else
  LU::greatestSimulation<NQ, NL>(T, S);
#endif

  // ---- the property
  CHECK(res.size() == out, 2);
  unsigned long got = 0, want = 0;
  for (unsigned q = 0; q < NQ; ++q) for (unsigned r = 0; r < NQ; ++r) if ((COFF + q < out) & (COFF + r < out)) {
    bool g = res.get(COFF + q, COFF + r);
#ifdef VS_SELFTEST_2
    bool w = S[r][q];                         // seeded wrong expectation: direction of the relation swapped
#else
    bool w = S[q][r];
#endif
    CHECK(g == w, 3);
    got |= (unsigned long)g << (q * NQ + r); want |= (unsigned long)w << (q * NQ + r);
  }
  // the system itself is not modified by the computation
  CHECK(lts.states() == ns, 4);
#ifdef VS_OBSERVE
  vs_observe(ns); vs_observe(out); vs_observe(got); vs_observe(want); vs_observe(T.edgeMask());
#endif
#ifdef VS_WITNESS
  vs_reach();
#endif
}
