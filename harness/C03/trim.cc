// C03: RemoveUnreachableStates / RemoveUselessStates / IsLangEmpty on a symbolic automaton over the universe U(NS, SYM_RANKS).
// Solver variables: one presence bit per universe rule, one finality bit per state.
#include <vata/explicit_tree_aut.hh>
#include "universe.h"
using namespace VATA;
typedef U::SymAut<NS> SA;

// decode a library automaton over states < NS back into masks by iterating it; returns false if something outside U occurs
// (the result is read under A's state numbers: the statement speaks of the states / rules that REMAIN resp. STILL OCCUR, i.e.
// the operations remove, they do not rename - the library's own optional out-map of both operations is the identity)
static bool decode(const ExplicitTreeAut& aut, SA& out)
{
  out.nrules = U::Univ<NS>::count();
  for (unsigned i = 0; i < out.nrules; ++i) out.pres[i] = false;
  bool ok = true;
  for (const ExplicitTreeAut::Transition& t : aut) {
    bool matched = false;
    for (unsigned i = 0; i < out.nrules; ++i) {
      U::Rule r = U::Univ<NS>::rule(i);
      bool m = t.GetSymbol() == U::symnum(r.sym) && t.GetParent() == r.parent && t.GetChildren().size() == r.rank;
      for (unsigned k = 0; k < r.rank; ++k) m = m && t.GetChildren()[k] == r.child[k];
      out.pres[i] = out.pres[i] | m; matched = matched | m;
    }
    ok = ok & matched;
  }
  for (unsigned s = 0; s < NS; ++s) out.fin[s] = aut.IsStateFinal(s);
  for (const auto& s : aut.GetFinalStates()) ok = ok & (s < NS);
  return ok;
}

// states that occur in a rule (as parent or child) or are final
static unsigned occurring(const SA& a)
{
  unsigned m = U::finalMask(a);
  for (unsigned i = 0; i < a.nrules; ++i) { U::Rule r = U::Univ<NS>::rule(i); m |= (unsigned)a.pres[i] << r.parent; for (unsigned k = 0; k < r.rank; ++k) m |= (unsigned)a.pres[i] << r.child[k]; }
  return m;
}

// MAPMODE: the optional out-map of both operations: 0 none (nullptr), 1 an empty map, 2 a map that already holds identity
// entries for a symbolic subset of the states (a map left over from an earlier trimming call, of this or another
// automaton); the statement must hold whatever map is passed
#ifndef MAPMODE
#define MAPMODE 0
#endif
extern "C" void harness(void)
{
#ifdef RMASK
  SA A; A.draw(RMASK);      // sub-universe: only the rules of the mask are candidates
#else
  SA A; A.draw();
#endif
#if MAPMODE == 2
  bool pre[NS]; for (unsigned s = 0; s < NS; ++s) pre[s] = vs_bit();
#endif
#ifdef KF_EXCLUDE_UNREACH_SHORTCUT
  // known finding C03-1 (see known_findings.json): excluded so that any *other* violation is still reported
  vs_assume(!SHAPE_UNREACH_SHORTCUT(A));
#endif
  ExplicitTreeAut aut; A.build(aut);
  const unsigned prod = U::productive(A), fin = U::finalMask(A), reach = U::reachableTD(A), useful = U::usefulStates(A);

#if OP == 0   // ---- RemoveUselessStates + IsLangEmpty
#if MAPMODE
  AutBase::StateToStateMap trMap;
#if MAPMODE == 2
  for (unsigned s = 0; s < NS; ++s) if (pre[s]) trMap.insert(std::make_pair(s, s));
#endif
  ExplicitTreeAut res = aut.RemoveUselessStates(&trMap);
#else
  ExplicitTreeAut res = aut.RemoveUselessStates();
#endif
  SA R; CHECK(decode(res, R), 1);
  // every remaining rule takes part in an accepting run: parent useful, children productive
  for (unsigned i = 0; i < R.nrules; ++i) { U::Rule r = U::Univ<NS>::rule(i); bool good = A.pres[i] && ((useful >> r.parent) & 1);
    for (unsigned k = 0; k < r.rank; ++k) good = good && ((prod >> r.child[k]) & 1);
#ifdef VS_SELFTEST_1
    if (i == 1) good = false;     // seeded wrong oracle (a useful rule declared useless): must be reported
#endif
    CHECK(!R.pres[i] || good, 2); }
  for (unsigned s = 0; s < NS; ++s) CHECK(!R.fin[s] || (A.fin[s] && ((useful >> s) & 1)), 3);
  // the statement itself, read on the RESULT (ids 2/3 relate the result to A's useful part, which does not exclude a result
  // that dropped a rule and thereby left another one dangling): every state and rule of R takes part in an accepting run of R
  { const unsigned prodR = U::productive(R), usefulR = U::usefulStates(R);
    CHECK((occurring(R) & ~usefulR) == 0, 7);
    for (unsigned i = 0; i < R.nrules; ++i) { U::Rule r = U::Univ<NS>::rule(i); bool good = (usefulR >> r.parent) & 1;
      for (unsigned k = 0; k < r.rank; ++k) good = good && ((prodR >> r.child[k]) & 1);
      CHECK(!R.pres[i] || good, 8); } }
  // same language (both inclusions, independent macro-state oracle)
  CHECK((U::included<NS, NS>(A, R)), 4); CHECK((U::included<NS, NS>(R, A)), 5);
  CHECK(aut.IsLangEmpty() == U::langEmpty(A), 6);
#else         // ---- RemoveUnreachableStates
#if MAPMODE
  AutBase::StateToStateMap trMap;
#if MAPMODE == 2
  for (unsigned s = 0; s < NS; ++s) if (pre[s]) trMap.insert(std::make_pair(s, s));
#endif
  ExplicitTreeAut res = aut.RemoveUnreachableStates(&trMap);
#else
  ExplicitTreeAut res = aut.RemoveUnreachableStates();
#endif
  SA R; CHECK(decode(res, R), 11);
  for (unsigned i = 0; i < R.nrules; ++i) { U::Rule r = U::Univ<NS>::rule(i);
    // every state that still occurs is reachable top-down from a final state (parent reachable => children reachable)
    CHECK(!R.pres[i] || (A.pres[i] && ((reach >> r.parent) & 1)), 12); }
  for (unsigned s = 0; s < NS; ++s) CHECK(!R.fin[s] || A.fin[s], 13);     // no invented final state (language equality is checked below)
  // the statement itself, read on the RESULT: every state that occurs in R is reachable top-down from a final state of R
  CHECK((occurring(R) & ~U::reachableTD(R)) == 0, 16);
  CHECK((U::included<NS, NS>(A, R)), 14); CHECK((U::included<NS, NS>(R, A)), 15);
#endif
#if MAPMODE && defined(STRICT_IMPL)
  // (not part of the statement, never defined in a registered query) the out-map of the current implementation: identity entries only, one for every state that still occurs in the result; the caller's entries are kept
  { unsigned keys = 0; bool ident = true;
    for (const auto& kv : trMap) { ident = ident && kv.first == kv.second && kv.first < NS; if (kv.first < NS) keys |= 1u << kv.first; }
    CHECK(ident, 30); CHECK((occurring(R) & ~keys) == 0, 31);
#if MAPMODE == 2
    for (unsigned s = 0; s < NS; ++s) CHECK(!pre[s] || ((keys >> s) & 1), 32);
#endif
  }
#endif
  // operand unchanged
  SA A2; CHECK(decode(aut, A2), 20);
  for (unsigned i = 0; i < A.nrules; ++i) CHECK(A2.pres[i] == A.pres[i], 21);
  for (unsigned s = 0; s < NS; ++s) CHECK(A2.fin[s] == A.fin[s], 22);
#ifdef VS_OBSERVE
  { unsigned long m = 0; for (unsigned i = 0; i < R.nrules; ++i) m |= (unsigned long)R.pres[i] << i; vs_observe(m); vs_observe(U::finalMask(R)); vs_observe(prod); vs_observe(reach); vs_observe(useful); }
#endif
#ifdef VS_WITNESS
  vs_reach();
#endif
}
