// C17 (construction / evaluation / equality): OndriksMTBDD(asgn, value, default), OndriksMTBDD(value), GetValue on total
// and partial assignments, GetDefaultValue, GetPaths, operator== / operator!=, for every cube (ternary assignment with
// don't-care positions) over the variables VBASE..VBASE+NV-1, every leaf value and default value in [0, NVAL).
// Oracle: the function table of a cube (value where the cube matches, default elsewhere), written over bit masks.
//   MODE 0: one cube + an arbitrary (partial) query assignment, paths, constant diagrams
//   MODE 1: two cubes built in the same unique tables: equal handles <=> equal functions, also for a re-construction
//           after other diagrams exist (canonicity across the construction history)
#include "mtbdd_univ.h"
using namespace MU;
#ifndef MODE
#define MODE 0
#endif

extern "C" void harness(void)
{
#if MODE == 0
  Cube c; c.draw(); const Val value = pick(NVAL), dflt = pick(NVAL);
  Cube q; q.draw();
  const Tab t = c.tab(value, dflt);
  MTBDD f(c.asgn(), value, dflt);
  // the value for a total assignment is the value the diagram was built with
  Tab d = decode(f);
  for (unsigned a = 0; a < NA; ++a) CHECK(d.v[a] == t.v[a], 1);
  CHECK(f.GetDefaultValue() == dflt, 2);
  // partial assignment: the value of some total assignment it covers
  { Val got = f.GetValue(q.asgn()); bool some = false;
    for (unsigned a = 0; a < NA; ++a) some = some | (q.matches(a) & (got == t.v[a]));
#ifdef VS_SELFTEST_1
    some = some & (got == value);    // seeded wrong expectation (the default value is never returned): must be reported
#endif
    CHECK(some, 3); }
#ifdef VS_SELFTEST_2
  checkPaths(f, t, true);            // seeded wrong expectation (assignment 1 covered by two paths): must be reported
#else
  checkPaths(f, t, false);
#endif
  // constant diagram; it is the same diagram as f exactly when f is constantly `value`
  MTBDD k(value);
  for (unsigned a = 0; a < NA; ++a) CHECK(k.GetValue(totalAsgn(a)) == value, 4);
  CHECK(k.GetDefaultValue() == value, 5);
  { Tab tk; tk.fill(value); CHECK((k == f) == tk.same(t), 6); CHECK((k != f) == !tk.same(t), 7); }
  // the paths of a constant: one path, constrained nowhere, carrying the value (that the current sources report it with an
  // assignment of length 0 rather than with don't-cares is not part of any contract: only checked with -DSTRICT_IMPL)
  { MTBDD::SymVarToValueList pk = k.GetPaths(); CHECK(pk.size() == 1 && pk[0].second == value, 8);
    bool free = true; for (unsigned i = 0; i < ALEN; ++i) if (i < pk[0].first.length()) free = free & (pk[0].first.GetIthVariableValue(i) == Asgn::DONT_CARE);
    CHECK(free && pk[0].first.length() <= ALEN, 8);
#ifdef STRICT_IMPL
    CHECK(pk[0].first.length() == 0, 8);
#endif
  }
  // a copy denotes the same function and is the same diagram
  MTBDD f2(f); CHECK(f2 == f, 9);
  Tab d2 = decode(f2); for (unsigned a = 0; a < NA; ++a) CHECK(d2.v[a] == t.v[a], 10);
#ifdef VS_OBSERVE
  vs_observe(d.code()); vs_observe(f.GetValue(q.asgn())); vs_observe(f.GetPaths().size()); vs_observe(k == f);
#endif
#else   // ---- MODE 1
  Cube c1, c2; c1.draw(); const Val v1 = pick(NVAL), d1 = pick(NVAL);
  c2.draw(); const Val v2 = pick(NVAL);
#ifdef ONE_DEFAULT
  const Val d2 = d1;
#else
  const Val d2 = pick(NVAL);
#endif
  const Tab t1 = c1.tab(v1, d1), t2 = c2.tab(v2, d2);
  MTBDD f(c1.asgn(), v1, d1);
  MTBDD g(c2.asgn(), v2, d2);
  Tab df = decode(f), dg = decode(g);
  for (unsigned a = 0; a < NA; ++a) { CHECK(df.v[a] == t1.v[a], 11); CHECK(dg.v[a] == t2.v[a], 12); }
  bool same = t1.same(t2);
#ifdef VS_SELFTEST_1
  same = same & (d1 == d2);          // seeded wrong oracle (equal functions with different default values declared different)
#endif
  CHECK((f == g) == same, 13); CHECK((g == f) == same, 14); CHECK((f != g) == !same, 15);
  CHECK(f == f, 16);
  // the same cube built again, now that g exists in the unique tables, is the same diagram
  { MTBDD f3(c1.asgn(), v1, d1); CHECK(f3 == f, 17); CHECK((f3 == g) == same, 18); }
  // ... and once more after the temporary is gone
  { MTBDD g3(c2.asgn(), v2, d2); CHECK(g3 == g, 19); }
  Tab df2 = decode(f); for (unsigned a = 0; a < NA; ++a) CHECK(df2.v[a] == t1.v[a], 20);
#ifdef VS_OBSERVE
  vs_observe(df.code()); vs_observe(dg.code()); vs_observe(f == g);
#endif
#endif
#ifdef VS_WITNESS
  vs_reach();
#endif
}
