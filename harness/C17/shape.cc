// C17 (projection / renaming / prefix extension / prefix selection): OndriksMTBDD::Project, Rename, ExtendWith and
// GetMtbddForPrefix on every function of the configured universe (see apply.cc for the operand sources), with the
// removed-variable set, the renaming, the prefix cube and the offset drawn as well.  Oracle: the denoted function,
// computed on function tables.
//   KIND 0: Project(pred, op)   op idempotent (PRJOP 1 max, 2 min): value = op over all values of the removed variables;
//                               PRJOP 0 (plus mod NVAL, not idempotent): the documented node-wise meaning - the two
//                               cofactors are combined exactly where the function depends on the removed variable
//   KIND 1: Rename(m)           m strictly monotone on the variables: result(b) = f(a) with a_i = b_m(i)
//   KIND 2: ExtendWith(p, off)  result(a, b) = f(a) if the prefix cube p covers b (variables off, off+1, ...), else default
//   KIND 3: GetMtbddForPrefix(p, off)  result(a) = f(a_0..a_off-1, p) with don't-care positions of p read as 0
#include "mtbdd_univ.h"
using namespace MU;
using namespace VATA::MTBDDPkg;
#ifndef KIND
#define KIND 0
#endif
#ifndef FSRC
#define FSRC 'T'
#endif
#ifndef PRJOP
#define PRJOP 1
#endif
#ifndef ORDER
#define ORDER 0
#endif
static inline Val op2(unsigned o, Val a, Val b) { return o == 0 ? (a + b) % NVAL : o == 1 ? (a > b ? a : b) : (a < b ? a : b); }
struct F2 : public Apply2Functor<F2, Val, Val, Val> { unsigned o; explicit F2(unsigned o_) : o(o_) {} Val ApplyOperation(const Val& a, const Val& b) { return op2(o, a, b); } };

extern "C" void harness(void)
{
  Fun f; f.draw(FSRC);
#if KIND == 0
  unsigned removed = 0; for (unsigned i = 0; i < NV; ++i) removed |= (unsigned)vs_bit() << i;
#elif KIND == 1
  unsigned m[NV]; { unsigned shift = 0; for (unsigned i = 0; i < NV; ++i) { shift += vs_bit(); m[i] = i + shift; } }
#elif KIND == 2
  Cube p; p.draw(); const unsigned off = NV + vs_bit();
#elif KIND == 3
  Cube p; p.draw(); const unsigned off = pick(NV + 1);
#endif
  MTBDD mf = f.make(ORDER);
  sameFunction(mf, f.t, 1);

#if KIND == 0
  F2 fn(PRJOP);
  MTBDD r = mf.Project([removed](size_t var) { return ((removed >> (var - VBASE)) & 1) != 0; }, fn);
  Tab want;
#if PRJOP == 0
  projectRef(f.t.v, NV, removed, [](Val a, Val b) { return op2(PRJOP, a, b); }, want.v);
#else
  for (unsigned a = 0; a < NA; ++a) { Val acc = f.t.v[a];
    for (unsigned b = 0; b < NA; ++b) { Val c = op2(PRJOP, acc, f.t.v[b]); acc = (((a ^ b) & ~removed) == 0) ? c : acc; }
    want.v[a] = acc; }
#endif
#ifdef VS_SELFTEST_1
  want.v[0] = f.t.v[0];              // seeded wrong oracle (entry 0 not projected): must be reported
#endif
  sameFunction(r, want, 10);
  CHECK(r.GetDefaultValue() == f.dflt, 11);
  { MTBDD again = build(want, 0, ORDER ^ 1); CHECK(again == r, 12); }
  CHECK((r == mf) == want.same(f.t), 13);
  checkPaths(r, want);
#ifdef VS_OBSERVE
  vs_observe(decode(r).code()); vs_observe(r == mf); vs_observe(r.GetPaths().size());
#endif

#elif KIND == 1
  MTBDD r = mf.Rename([&m](size_t var) { size_t res = var; for (unsigned i = 0; i < NV; ++i) if (var == VBASE + i) res = VBASE + m[i]; return res; });
  unsigned long code = 0;
  for (unsigned b = 0; b < (1u << (2 * NV)); ++b) {
    unsigned a = 0;
    for (unsigned i = 0; i < NV; ++i) for (unsigned q = 0; q < 2 * NV; ++q) a |= (m[i] == q ? (b >> q) & 1 : 0u) << i;
    Val want = 0; for (unsigned k = 0; k < NA; ++k) want = (a == k) ? f.t.v[k] : want;
#ifdef VS_SELFTEST_1
    if (b == (1u << (2 * NV)) - 1) want = (want + 1) % NVAL;    // seeded wrong oracle: must be reported
#endif
    Val got = r.GetValue(totalAsgn(b, VBASE + 2 * NV, VBASE, 2 * NV));
    CHECK(got == want, 10); code = code * 5 + got;
  }
  CHECK(r.GetDefaultValue() == f.dflt, 11);
  // the identity renaming yields the very same diagram; renaming twice the same way as well
  { bool ident = true; for (unsigned i = 0; i < NV; ++i) ident = ident & (m[i] == i); if (ident) CHECK(r == mf, 12); }
  { MTBDD r2 = mf.Rename([&m](size_t var) { size_t res = var; for (unsigned i = 0; i < NV; ++i) if (var == VBASE + i) res = VBASE + m[i]; return res; }); CHECK(r2 == r, 13); }
#ifdef VS_OBSERVE
  vs_observe(code); vs_observe(r == mf); vs_observe(r.GetPaths().size());
#endif

#elif KIND == 2
  const size_t offset = VBASE + off;
  MTBDD r = mf.ExtendWith(p.asgn(NV, 0), offset);
  unsigned long code = 0;
  for (unsigned a = 0; a < NA; ++a) for (unsigned b = 0; b < NA; ++b) {
    Asgn s(VBASE + 2 * NV + 1);
    for (unsigned i = 0; i < NV; ++i) { s.SetIthVariableValue(VBASE + i, ((a >> i) & 1) ? Asgn::ONE : Asgn::ZERO); s.SetIthVariableValue(offset + i, ((b >> i) & 1) ? Asgn::ONE : Asgn::ZERO); }
    Val want = p.matches(b) ? f.t.v[a] : f.dflt;
#ifdef VS_SELFTEST_1
    if (a == 0 && b == 0) want = f.t.v[0];          // seeded wrong oracle (prefix 0..0 always covered): must be reported
#endif
    Val got = r.GetValue(s); CHECK(got == want, 10); code = code * 5 + got;
  }
  CHECK(r.GetDefaultValue() == f.dflt, 11);
  { MTBDD r2 = mf.ExtendWith(p.asgn(NV, 0), offset); CHECK(r2 == r, 12); }
  // canonical: when the extension denotes a constant function (f constant and equal to its default value) it is that constant's diagram
  { bool cst = true; for (unsigned a = 0; a < NA; ++a) cst = cst & (f.t.v[a] == f.dflt); if (cst) { MTBDD k(f.dflt); CHECK(r == k, 15); CHECK(r.GetPaths().size() == k.GetPaths().size(), 16); } }
  // extension by the all-don't-care prefix is the diagram itself
  { bool allx = true; for (unsigned i = 0; i < NV; ++i) allx = allx & (p.t[i] == 2); if (allx) CHECK(r == mf, 13); }
  // prefix selection undoes prefix extension on a covered prefix
  { unsigned b0 = 0; for (unsigned i = 0; i < NV; ++i) b0 |= (p.t[i] == 1 ? 1u : 0u) << i;
    MTBDD back = r.GetMtbddForPrefix(totalAsgn(b0, NV, 0, NV), offset); CHECK(back == mf, 14); }
#ifdef VS_OBSERVE
  vs_observe(code); vs_observe(r == mf); vs_observe(r.GetPaths().size());
#endif

#elif KIND == 3
  const size_t offset = VBASE + off;
  MTBDD r = mf.GetMtbddForPrefix(p.asgn(NV, 0), offset);
  unsigned hi = 0; for (unsigned i = 0; i < NV; ++i) hi |= (p.t[i] == 1 ? 1u : 0u) << i;    // don't care reads as 0
  Tab want;
  for (unsigned a = 0; a < NA; ++a) {
    unsigned idx = ((a & ((1u << off) - 1)) | (hi << off)) & (NA - 1);
    Val w = 0; for (unsigned k = 0; k < NA; ++k) w = (idx == k) ? f.t.v[k] : w;
    want.v[a] = w;
  }
#ifdef VS_SELFTEST_1
  want.v[NA - 1] = f.t.v[0];         // seeded wrong oracle: must be reported
#endif
  sameFunction(r, want, 10);
  CHECK(r.GetDefaultValue() == f.dflt, 11);
  { MTBDD again = build(want, 0, ORDER ^ 1); CHECK(again == r, 12); }
  CHECK((r == mf) == want.same(f.t), 13);
#ifdef VS_OBSERVE
  vs_observe(decode(r).code()); vs_observe(r == mf); vs_observe(r.GetPaths().size());
#endif
#endif
  // the operand is unchanged
  sameFunction(mf, f.t, 20); CHECK(mf.GetDefaultValue() == f.dflt, 21);
#ifdef VS_WITNESS
  vs_reach();
#endif
}
