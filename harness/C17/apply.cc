// C17 (apply): Apply1Functor / Apply2Functor / Apply3Functor / VoidApply1Functor / VoidApply2Functor on diagrams built in
// one process-wide node store.  Operands are drawn as function tables (SRC 'T': every function over NV variables with
// values < NVAL, assembled from minterm diagrams), as cubes with don't-care positions (SRC 'C': value on the cube, 0
// elsewhere) or as constants (SRC 'K').  Oracle: the leaf operation applied entry by entry to the operand tables.
// Canonicity: the diagram of the oracle table, assembled independently in another order, must be the very same root.
//   KIND 0: binary apply      KIND 1: unary apply      KIND 2: ternary apply
//   KIND 3: operation tree  o2( o1(f), o3(g, f) ) and apply of a diagram with itself
//   KIND 4: void unary / binary apply visit exactly the reachable leaves / leaf pairs (each once: only with -DSTRICT_IMPL)
// OPSEL >= 0 fixes the leaf operation, OPSEL < 0 draws it (2 input bits per operation).
#include "mtbdd_univ.h"
using namespace MU;
using namespace VATA::MTBDDPkg;
#ifndef KIND
#define KIND 0
#endif
#ifndef OPSEL
#define OPSEL 0
#endif
#ifndef FSRC
#define FSRC 'T'
#endif
#ifndef GSRC
#define GSRC 'C'
#endif
#ifndef HSRC
#define HSRC 'K'
#endif
#ifndef ORDER
#define ORDER 0
#endif

// ---- leaf operations: one definition shared by the functor (executed by libvata) and by the table oracle
static inline Val op1(unsigned o, Val a) { return o == 0 ? NVAL - 1 - a : o == 1 ? a / 2 : o == 2 ? (a & 1) : (a + 1) % NVAL; }
static inline Val op2(unsigned o, Val a, Val b) { return o == 0 ? (a + b) % NVAL : o == 1 ? (a > b ? a : b) : o == 2 ? (a < b ? a : b) : (a ^ b); }
static inline Val op3(unsigned o, Val a, Val b, Val c) {
  return o == 0 ? ((a & 1) ? b : c) : o == 1 ? (a + b + c) % NVAL : o == 2 ? (a > b ? (b > c ? b : (a > c ? c : a)) : (a > c ? a : (b > c ? c : b))) : (a == b ? c : a); }
struct F1 : public Apply1Functor<F1, Val, Val> { unsigned o; explicit F1(unsigned o_) : o(o_) {} Val ApplyOperation(const Val& a) { return op1(o, a); } };
struct F2 : public Apply2Functor<F2, Val, Val, Val> { unsigned o; explicit F2(unsigned o_) : o(o_) {} Val ApplyOperation(const Val& a, const Val& b) { return op2(o, a, b); } };
struct F3 : public Apply3Functor<F3, Val, Val, Val, Val> { unsigned o; explicit F3(unsigned o_) : o(o_) {} Val ApplyOperation(const Val& a, const Val& b, const Val& c) { return op3(o, a, b, c); } };
struct V1 : public VoidApply1Functor<V1, Val> { unsigned seen, twice; V1() : seen(0), twice(0) {}
  void ApplyOperation(const Val& a) { twice |= seen & (1u << a); seen |= 1u << a; } };
struct V2 : public VoidApply2Functor<V2, Val, Val> { unsigned seen, twice; V2() : seen(0), twice(0) {}
  void ApplyOperation(const Val& a, const Val& b) { unsigned m = 1u << (a * NVAL + b); twice |= seen & m; seen |= m; } };

// a void binary functor that ends the traversal early: it stops at the first leaf pair whose left value is `stopAt` (NVAL: never)
struct V2S : public VoidApply2Functor<V2S, Val, Val> { unsigned seen; unsigned stopAt; V2S() : seen(0), stopAt(NVAL) {}
  void ApplyOperation(const Val& a, const Val& b) { seen |= 1u << (a * NVAL + b); if (a == stopAt) this->stopProcessing(); } };

static inline unsigned drawOp() { return OPSEL >= 0 ? (unsigned)(OPSEL) : pick(4); }
static void same(const MTBDD& m, const Tab& t, int id) { sameFunction(m, t, id); }

extern "C" void harness(void)
{
  Fun f, g; f.draw(FSRC); g.draw(GSRC);
#if KIND == 2
  Fun h; h.draw(HSRC);
#endif
  const unsigned oa = drawOp();
#if KIND == 3
  const unsigned ob = drawOp(), oc = drawOp();
#endif
  MTBDD mf = f.make(ORDER), mg = g.make(ORDER ^ 1);
  same(mf, f.t, 1); same(mg, g.t, 2);
  CHECK((mf == mg) == f.t.same(g.t), 3);
  Tab want; Val wantDflt = 0;
#if KIND == 0
  F2 fn(oa); MTBDD r = fn(mf, mg);
  for (unsigned a = 0; a < NA; ++a) want.v[a] = op2(oa, f.t.v[a], g.t.v[a]);
  wantDflt = op2(oa, f.dflt, g.dflt);
#elif KIND == 1
  F1 fn(oa); MTBDD r = fn(mf);
  for (unsigned a = 0; a < NA; ++a) want.v[a] = op1(oa, f.t.v[a]);
  wantDflt = op1(oa, f.dflt);
  // a second unary apply on the other operand with the same functor object (its cache is per call)
  { MTBDD r2 = fn(mg); Tab w2; for (unsigned a = 0; a < NA; ++a) w2.v[a] = op1(oa, g.t.v[a]); same(r2, w2, 20); CHECK((r2 == r) == w2.same(want), 21); }
  // ... and a third one after the parameter of the functor object has changed: every apply is pointwise for the functor as it is then
  { const unsigned ob = (oa + 1 + pick(3)) & 3; fn.o = ob; MTBDD r3 = fn(mf); Tab w3; for (unsigned a = 0; a < NA; ++a) w3.v[a] = op1(ob, f.t.v[a]); same(r3, w3, 24); CHECK((r3 == r) == w3.same(want), 25); fn.o = oa; }
#elif KIND == 2
  MTBDD mh = h.make(ORDER); same(mh, h.t, 22);
  F3 fn(oa); MTBDD r = fn(mf, mg, mh);
  for (unsigned a = 0; a < NA; ++a) want.v[a] = op3(oa, f.t.v[a], g.t.v[a], h.t.v[a]);
  wantDflt = op3(oa, f.dflt, g.dflt, h.dflt);
  same(mh, h.t, 23);
#elif KIND == 3
  F1 f1(oa); F2 f2(ob), f3(oc);
  MTBDD r = f2(f1(mf), f3(mg, mf));
  for (unsigned a = 0; a < NA; ++a) want.v[a] = op2(ob, op1(oa, f.t.v[a]), op2(oc, g.t.v[a], f.t.v[a]));
  wantDflt = op2(ob, op1(oa, f.dflt), op2(oc, g.dflt, f.dflt));
  // a diagram combined with itself
  { MTBDD s = f2(mf, mf); Tab ws; for (unsigned a = 0; a < NA; ++a) ws.v[a] = op2(ob, f.t.v[a], f.t.v[a]); same(s, ws, 24); CHECK((s == r) == ws.same(want), 25); }
#elif KIND == 4
  V1 v1; v1(mf); V2 v2; v2(mf, mg);
  unsigned img1 = 0, img2 = 0;
  for (unsigned a = 0; a < NA; ++a) { img1 |= 1u << f.t.v[a]; img2 |= 1u << (f.t.v[a] * NVAL + g.t.v[a]); }
#ifdef VS_SELFTEST_1
  img2 |= 1u;                        // seeded wrong oracle (the leaf pair (0,0) declared always reachable): must be reported
#endif
  // the leaf operation is applied to exactly the leaves / leaf pairs that some assignment reaches.  That none is visited twice
  // is a consequence of the traversal cache of the current sources (keyed by node / node pair, leaves included), not of the
  // pointwise meaning of apply: a traversal that caches internal nodes only is equally correct -> only with -DSTRICT_IMPL
  CHECK(v1.seen == img1, 30);
  CHECK(v2.seen == img2, 32);
#ifdef STRICT_IMPL   // never defined by the registry
  CHECK(v1.twice == 0, 31); CHECK(v2.twice == 0, 33);
#endif
  v2(mg, mg); { unsigned d = 0; for (unsigned a = 0; a < NA; ++a) d |= 1u << (g.t.v[a] * NVAL + g.t.v[a]); CHECK(v2.seen == (img2 | d), 34); }
  // an early exit belongs to the call that asked for it: a functor object whose traversal was stopped (at the first leaf pair whose
  // left value is the symbolic stopAt) visits only reachable pairs in that call and, used again, applies the operation to every
  // reachable pair again (the traversal state does not survive the call)
  { V2S vs; vs.stopAt = oa; vs(mf, mg); CHECK((vs.seen & ~img2) == 0, 35); CHECK(vs.seen != 0, 36);
    bool hit = false; for (unsigned a = 0; a < NA; ++a) hit = hit || f.t.v[a] == oa;
    CHECK(hit || vs.seen == img2, 37);                 // never stopped: everything visited
    vs.seen = 0; vs.stopAt = NVAL; vs(mf, mg); CHECK(vs.seen == img2, 38);
    unsigned d = 0; for (unsigned a = 0; a < NA; ++a) d |= 1u << (g.t.v[a] * NVAL + f.t.v[a]);
    vs.seen = 0; vs.stopAt = oa; vs(mg, mf); vs.seen = 0; vs.stopAt = NVAL; vs(mg, mf); CHECK(vs.seen == d, 39); }
  MTBDD r(mf); want = f.t; wantDflt = f.dflt;
#endif
#if KIND != 4 && defined(VS_SELFTEST_1)
  want.v[NA - 1] = (want.v[NA - 1] + 1) % NVAL;   // seeded wrong oracle (last entry off by one): must be reported
#endif
  // pointwise: for every assignment the leaf operation applied to the operands' values
  same(r, want, 10);
  CHECK(r.GetDefaultValue() == wantDflt, 11);
  checkPaths(r, want);               // the paths of the result partition the assignment space and carry its values
  // canonical: the same function assembled on its own has the same root; equal roots only for equal functions
  { MTBDD again = build(want, 0, ORDER ^ 1); CHECK(again == r, 12); }
  CHECK((r == mf) == want.same(f.t), 13); CHECK((r == mg) == want.same(g.t), 14);
  // operands are unchanged
  same(mf, f.t, 15); same(mg, g.t, 16);
  CHECK(mf.GetDefaultValue() == f.dflt && mg.GetDefaultValue() == g.dflt, 17);
#ifdef VS_OBSERVE
  vs_observe(decode(r).code()); vs_observe(r == mf); vs_observe(r == mg); vs_observe(r.GetDefaultValue()); vs_observe(r.GetPaths().size());
#endif
#ifdef VS_WITNESS
  vs_reach();
#endif
}
