// C17 (assignments): SymbolicVarAsgn is the vehicle of every MTBDD construction and evaluation.  For every ternary vector
// of NVA digits (NVA = 5 or 6 crosses the 4-variables-per-byte packing): Set/Get round trip without disturbing other
// positions, the string constructor and ToString, AddVariablesUpTo, append, the enumeration of the concrete symbols a
// cube covers (each covered total assignment exactly once, nothing else), operator++ as binary increment (below all-ones),
// and operator< as a strict total order on assignments of equal length (irreflexive, asymmetric, total: MODE 1 with two vectors;
// transitive and negatively transitive: MODE 2 with three vectors).
#include <vata/vata.hh>
#include <vata/sym_var_asgn.hh>
#include <string>
#include "vs.h"
typedef VATA::SymbolicVarAsgn Asgn;
#ifndef NVA
#define NVA 5
#endif
#ifndef MODE
#define MODE 0
#endif
static unsigned pick3() { unsigned b0 = vs_nondet_bool(), b1 = vs_nondet_bool(); return b1 ? 2 : b0; }   // no input vector is rejected
static char digitChar(unsigned t) { return t == 0 ? '0' : t == 1 ? '1' : 'X'; }
static char digitCode(unsigned t) { return t == 0 ? Asgn::ZERO : t == 1 ? Asgn::ONE : Asgn::DONT_CARE; }
static bool covers(const unsigned* t, unsigned n) { bool m = true; for (unsigned i = 0; i < NVA; ++i) m = m & ((t[i] == 2) | (t[i] == ((n >> i) & 1))); return m; }
static Asgn make(const unsigned* t) { Asgn a(NVA); for (unsigned i = 0; i < NVA; ++i) a.SetIthVariableValue(i, digitCode(t[i])); return a; }

extern "C" void harness(void)
{
  unsigned t[NVA]; for (unsigned i = 0; i < NVA; ++i) t[i] = pick3();
#if MODE >= 1
  unsigned u[NVA]; for (unsigned i = 0; i < NVA; ++i) u[i] = pick3();
#endif
#if MODE == 2
  unsigned w[NVA]; for (unsigned i = 0; i < NVA; ++i) w[i] = pick3();
#endif
#if MODE == 0
  // a fresh assignment is all don't care; setting position by position never disturbs another position
  Asgn a(NVA); CHECK(a.length() == NVA, 1);
  for (unsigned i = 0; i < NVA; ++i) CHECK(a.GetIthVariableValue(i) == Asgn::DONT_CARE, 2);
  for (unsigned i = 0; i < NVA; ++i) {
    a.SetIthVariableValue(NVA - 1 - i, digitCode(t[NVA - 1 - i]));
    for (unsigned j = 0; j < NVA; ++j) CHECK(a.GetIthVariableValue(j) == (j >= NVA - 1 - i ? digitCode(t[j]) : (char)Asgn::DONT_CARE), 3);
  }
  // string constructor and ToString
  std::string s; for (unsigned i = 0; i < NVA; ++i) s += digitChar(t[i]);
  Asgn b(s); CHECK(b.length() == NVA, 4);
  for (unsigned i = 0; i < NVA; ++i) CHECK(b.GetIthVariableValue(i) == digitCode(t[i]), 5);
  CHECK(b.ToString() == s, 6); CHECK(a.ToString() == s, 7);
  // copy, assignment
  { Asgn c(a); Asgn d(1); d = c; for (unsigned i = 0; i < NVA; ++i) CHECK(c.GetIthVariableValue(i) == digitCode(t[i]) && d.GetIthVariableValue(i) == digitCode(t[i]), 8); CHECK(d.length() == NVA, 9); }
  // AddVariablesUpTo: new positions are don't care, old ones untouched; never shrinks
  { Asgn c(a); c.AddVariablesUpTo(NVA + 2); CHECK(c.length() == NVA + 3, 10);
    for (unsigned i = 0; i < NVA + 3; ++i) CHECK(c.GetIthVariableValue(i) == (i < NVA ? digitCode(t[i]) : (char)Asgn::DONT_CARE), 11);
    c.AddVariablesUpTo(1); CHECK(c.length() == NVA + 3, 12); }
  // append
  { Asgn c(std::string("10X")); c.append(a); CHECK(c.length() == NVA + 3, 13);
    CHECK(c.GetIthVariableValue(0) == Asgn::ONE && c.GetIthVariableValue(1) == Asgn::ZERO && c.GetIthVariableValue(2) == Asgn::DONT_CARE, 14);
    for (unsigned i = 0; i < NVA; ++i) CHECK(c.GetIthVariableValue(3 + i) == digitCode(t[i]), 15); }
  // the concrete symbols of the cube: every covered total assignment exactly once, nothing else
  { std::vector<Asgn> v = a.GetVectorOfConcreteSymbols();
    unsigned cnt[1u << NVA]; for (unsigned n = 0; n < (1u << NVA); ++n) cnt[n] = 0;
    for (const Asgn& c : v) { CHECK(c.length() == NVA, 16);
      unsigned n = 0; bool total = true;
      for (unsigned i = 0; i < NVA; ++i) { char x = c.GetIthVariableValue(i); total = total & (x != Asgn::DONT_CARE); n |= (x == Asgn::ONE ? 1u : 0u) << i; }
      CHECK(total, 17);
      for (unsigned k = 0; k < (1u << NVA); ++k) cnt[k] += (k == n); }
    for (unsigned n = 0; n < (1u << NVA); ++n) {
      unsigned want = covers(t, n) ? 1 : 0;
#ifdef VS_SELFTEST_1
      if (n == 3) want = 1;          // seeded wrong oracle (assignment 3 always covered): must be reported
#endif
      CHECK(cnt[n] == want, 18); }
    // the cube is unchanged by the enumeration
    for (unsigned i = 0; i < NVA; ++i) CHECK(a.GetIthVariableValue(i) == digitCode(t[i]), 19);
#ifdef VS_OBSERVE
    vs_observe(v.size());
#endif
  }
  // numeric constructor and ++ : binary counting, variable 0 least significant, wrapping
  { unsigned n = 0; for (unsigned i = 0; i < NVA; ++i) n |= (t[i] & 1) << i;
    Asgn c(NVA, n); for (unsigned i = 0; i < NVA; ++i) CHECK(c.GetIthVariableValue(i) == (((n >> i) & 1) ? Asgn::ONE : Asgn::ZERO), 20);
    Asgn old = c++; unsigned m = (n + 1) & ((1u << NVA) - 1);
    // incrementing the all-ones assignment has no documented meaning (the current sources wrap round to all zeros): with
    // -DSTRICT_IMPL only
    bool wraps = n == (1u << NVA) - 1;
#ifdef STRICT_IMPL
    wraps = false;
#endif
    for (unsigned i = 0; i < NVA; ++i) { CHECK(wraps || c.GetIthVariableValue(i) == (((m >> i) & 1) ? Asgn::ONE : Asgn::ZERO), 21); CHECK(old.GetIthVariableValue(i) == (((n >> i) & 1) ? Asgn::ONE : Asgn::ZERO), 22); }
#ifdef VS_OBSERVE
    vs_observe(n); vs_observe(m);
#endif
  }
#else
  const Asgn a = make(t), b = make(u);
  bool eq = true; for (unsigned i = 0; i < NVA; ++i) eq = eq & (t[i] == u[i]);
  const bool ab = a < b, ba = b < a;
  CHECK(!(a < a), 30); CHECK(!(ab && ba), 31);
#ifdef VS_SELFTEST_1
  CHECK(ab || ba, 32);               // seeded wrong expectation (equal assignments ordered): must be reported
#else
  CHECK((ab || ba) == !eq, 32);
#endif
  // assignments of different lengths are different keys: ordered one way or the other (that the shorter one is the smaller
  // one is a choice of the current sources, checked with -DSTRICT_IMPL only)
  { Asgn c(std::string("1")); CHECK((c < a) != (a < c), 33);
#ifdef STRICT_IMPL
    CHECK(c < a && !(a < c), 33);
#endif
  }
#if MODE == 2
  // transitive (so that std::map / std::set keyed by assignments are well defined)
  { const Asgn c = make(w); const bool bc = b < c, ac = a < c; if (ab && bc) CHECK(ac, 34); if (!ab && !bc) CHECK(!ac, 35); }
#endif
#ifdef VS_OBSERVE
  vs_observe(ab); vs_observe(ba);
#endif
#endif
#ifdef VS_WITNESS
  vs_reach();
#endif
}
