// C05: ExplicitTreeAut::Reduce() on a symbolic automaton over the rule universe U(NS, SYM_RANKS) (sub-universe RMASK),
// built with the concrete state numbers RENAME (a brace list: dense, permuted or sparse numbering), optionally composed
// with a symbolic permutation (PERM=1).  The result is decoded by iterating it and compared with the input:
// same language (both inclusions, macro-state oracle), no more states, no more rules, every state of the result is a
// state of the input (the representative that the input states were mapped to), operand unchanged.
// Solver variables: rule presence bits, finality bits, permutation bits.
#include <vata/explicit_tree_aut.hh>
#include "sim_oracle.h"
using namespace VATA;
#ifndef RENAME
#define RENAME {0, 1, 2, 3}
#endif
#ifndef PERM
#define PERM 0
#endif
#ifndef RMASK
#define RMASK (~0ul)
#endif
typedef U::SymAut<NS> SA;
static const unsigned RENAME_TAB[] = RENAME;

// decode a library automaton whose states are ren[0..NS-1] back into masks over the canonical universe by iterating it;
// returns false if a rule or final state outside the renamed universe occurs
static bool decode(const ExplicitTreeAut& aut, const unsigned* ren, SA& out)
{
  out.nrules = U::Univ<NS>::count();
  for (unsigned i = 0; i < out.nrules; ++i) out.pres[i] = false;
  bool ok = true;
  for (const ExplicitTreeAut::Transition& t : aut) {
    bool matched = false;
    for (unsigned i = 0; i < out.nrules; ++i) {
      U::Rule r = U::Univ<NS>::rule(i);
      bool m = t.GetSymbol() == r.sym && t.GetParent() == ren[r.parent] && t.GetChildren().size() == r.rank;
      for (unsigned k = 0; k < r.rank; ++k) m = m && t.GetChildren()[k] == ren[r.child[k]];
      out.pres[i] = out.pres[i] | m; matched = matched | m;
    }
    ok = ok & matched;
  }
  for (unsigned s = 0; s < NS; ++s) out.fin[s] = false;
  for (const auto& f : aut.GetFinalStates()) { bool hit = false; for (unsigned s = 0; s < NS; ++s) { bool m = f == ren[s]; out.fin[s] = out.fin[s] | m; hit = hit | m; } ok = ok & hit; }
  return ok;
}
static unsigned popcount(unsigned long m) { unsigned c = 0; for (unsigned i = 0; i < 64; ++i) c += (m >> i) & 1; return c; }
static unsigned long ruleMask(const SA& a) { unsigned long m = 0; for (unsigned i = 0; i < a.nrules; ++i) m |= (unsigned long)a.pres[i] << i; return m; }

extern "C" void harness(void)
{
  // ---- inputs
  SA A; U::drawMasked<NS>(A, RMASK);
  U::Perm<NS> P; if (PERM) P.draw(); else P.identity();
  unsigned ren[NS]; for (unsigned q = 0; q < NS; ++q) { ren[q] = 0; for (unsigned v = 0; v < NS; ++v) ren[q] = P.p[q] == v ? RENAME_TAB[v] : ren[q]; }

  // ---- operation under test
  ExplicitTreeAut aut; A.build(aut, ren);
  ExplicitTreeAut res = aut.Reduce();

  // ---- the property
  SA R; CHECK(decode(res, ren, R), 1);                      // only rules over states of A, symbols of A
  const unsigned occA = U::occurring(A), occR = U::occurring(R);
  // ids 1 + 2 are the image clause of the statement ("every state [of the result] is the image of at least one state of A"):
  // Reduce reports no state map, so the only non-vacuous reading is that the quotient projection maps states of A to states
  // of A and the result lives on those representatives, i.e. states(result) is a subset of states(A).  This is deliberately
  // NOT relaxed to a numbering-independent decoding: a Reduce whose result carries numbers that are no states of A (seeded
  // defect C05-m3: internal 0..n-1 indices for sparsely numbered input) violates the clause although language and sizes are fine.
  CHECK((occR & ~occA) == 0, 2);                            // every state of the result is (the representative of) a state of A
#ifdef VS_SELFTEST_1
  CHECK(popcount(occR) < popcount(occA) || occA == 0, 3);   // seeded wrong expectation: "always strictly fewer states"
#else
  CHECK(popcount(occR) <= popcount(occA), 3);
#endif
  CHECK(popcount(ruleMask(R)) <= popcount(ruleMask(A)), 4);
  SA A2 = A;
#ifdef VS_SELFTEST_2
  A2.fin[0] = false;                                        // seeded wrong oracle: state 0 never accepting
#endif
  CHECK((U::included<NS, NS>(A2, R)), 5); CHECK((U::included<NS, NS>(R, A2)), 6);
  // operand unchanged
  SA A3; CHECK(decode(aut, ren, A3), 7);
  for (unsigned i = 0; i < A.nrules; ++i) CHECK(A3.pres[i] == A.pres[i], 8);
  for (unsigned s = 0; s < NS; ++s) CHECK(A3.fin[s] == A.fin[s], 9);
#ifdef VS_OBSERVE
  // order-independent: the choice of the representatives depends on hash-table iteration order, the sizes do not
  vs_observe(popcount(ruleMask(R))); vs_observe(popcount(U::finalMask(R))); vs_observe(popcount(occR)); vs_observe(occA); vs_observe(U::langEmpty(A));
#endif
#ifdef VS_WITNESS
  vs_reach();
#endif
}
