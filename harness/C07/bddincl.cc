// C07: CheckInclusion of the BDD-encoded tree automata (ENC 0 = bottom-up, 1 = top-down) under the parameter selection
// SEL on a symbolic pair (A over NA states, B over NB states, universe U(.., SYM_RANKS)), against the macro-state oracle.
//   SEL: bit 0 = simulation, bits 1..2: 0 upward, 1 downward non-recursive, 2 downward recursive, 3 downward recursive
//        with the implication cache
//   The operands are prepared as the command line tool does it (cli/operations.hh): SanitizeAutsForInclusion, and for
//   sim=yes a simulation relation handed over through InclParam::SetSimulation:
//   SIMSRC 0: computed as the tool does (ComputeSimulation on UnionDisjointStates(smaller, bigger)),
//   SIMSRC 1: the identity relation (a simulation of every automaton), so that the selections whose simulation the tool
//             cannot compute are exercised as well.
// A selection that is not implemented must end in an exception or (should it get implemented) in the exact verdict - never
// in a wrong one; every other selection must return the exact verdict.
// Solver variables: presence bits of A's (AFREE) and B's (BFREE) universe rules, finality bits.
#include "bddaut.h"
#include <vata/incl_param.hh>
#include <vata/sim_param.hh>
using namespace VATA;
#ifndef ENC
#define ENC 0
#endif
#ifndef NA
#define NA 1
#endif
#ifndef NB
#define NB 1
#endif
#ifndef SEL
#define SEL 0
#endif
#ifndef SIMSRC
#define SIMSRC 0
#endif
#ifndef SEED
#define SEED 1
#endif
#ifndef PRIME
#define PRIME 0
#endif
#ifndef AFREE
#define AFREE ~0ul
#endif
#ifndef BFREE
#define BFREE ~0ul
#endif
#if ENC == 0
typedef BDDBottomUpTreeAut AutT;
#else
typedef BDDTopDownTreeAut AutT;
#endif
#define SIM (SEL & 1)
#define ALG (SEL >> 1)
// PRESAN 1: the caller sanitises the pair first (SanitizeAutsForInclusion, as the CLI and the unit tests do); needed when the
// caller supplies a relation over the joint numbering.  PRESAN 0: CheckInclusion is called on the automata as loaded
// (useless states, arbitrary numbers) - the selections without a supplied relation sanitise copies themselves.
#ifndef PRESAN
#define PRESAN (SIM && !(ENC == 0 && ALG == 2))
#endif
#ifndef AFIN
#define AFIN ~0u
#endif
#ifndef BFIN
#define BFIN ~0u
#endif
// which selections exist (src/bdd_bu_tree_aut_incl.cc, src/bdd_td_tree_aut_incl.cc, src/bdd_*_tree_aut_sim.cc):
//   top-down:  downward recursive (with/without cache); with simulation only if the caller has one (ComputeSimulation is not implemented)
//   bottom-up: upward without simulation; upward with a supplied relation (the upward simulation is not implemented);
//              downward recursive with simulation (computes the downward simulation itself)
#if ENC == 1
#define IMPLEMENTED ((ALG == 2 || ALG == 3) && (!SIM || SIMSRC == 1))
#else
#define IMPLEMENTED ((ALG == 0 && (!SIM || SIMSRC == 1)) || (ALG == 2 && SIM))
#endif

extern "C" void harness(void)
{
  BA::Aut<NA> A; A.draw(AFREE, AFIN);
  BA::Aut<NB> B; B.draw(BFREE, BFIN);
  bool kfShape = false;      // the input has the shape of known finding C07-1 (see below)
#if ENC == 0 && ALG == 0 && (defined(KF_EXCLUDE_BU_UP_RANK2) || defined(KF_EXPECT_BU_UP_RANK2))
  // known finding (open): the bottom-up upward algorithm (src/tree_incl_up.hh) joins the macro-states known for a child
  // instead of choosing one per position; as soon as the smaller automaton has a rule of rank >= 2 it may answer
  // "included" for a pair that is not included.  EXCLUDE: exactly that failure (rule of rank >= 2 in A, verdict true, oracle
  // false) is not reported; everything else - including a wrong "not included" on such inputs - still is.  EXPECT: only that
  // shape is explored and the violation must show up again.
  { bool rank2 = false; for (unsigned i = 0; i < BA::Aut<NA>::NR; ++i) if (U::Univ<NA>::rule(i).rank >= 2) rank2 = rank2 | A.pres[i];
#ifdef KF_EXPECT_BU_UP_RANK2
    vs_assume(rank2);
#else
    kfShape = rank2;
#endif
  }
#endif
  BA::StateDict dictA, dictB;
#if SEED
  BA::seedDict(dictA, 0, NA); BA::seedDict(dictB, NA, NA + NB);
#endif
  AutT smaller, bigger;
  BA::primeAlphabet(smaller, PRIME);
  BA::load(smaller, A, dictA); BA::load(bigger, B, dictB, NA);
  bool expect = BA::included(A, B);
#ifdef VS_SELFTEST_1
  expect = expect && !(A.pres[0] && !B.pres[0]);   // seeded wrong oracle
#endif
#if !IMPLEMENTED
  vs_allow_throw(1);
#endif
#if PRESAN
  AutBase::StateType states = AutBase::SanitizeAutsForInclusion(smaller, bigger);
#else
  AutBase::StateType states = NA + NB;
#endif
  InclParam ip;
  ip.SetAlgorithm(InclParam::e_algorithm::antichains);
  ip.SetDirection(ALG == 0 ? InclParam::e_direction::upward : InclParam::e_direction::downward);
  ip.SetUseRecursion(ALG >= 2); ip.SetUseDownwardCacheImpl(ALG == 3); ip.SetUseSimulation(SIM);
  ip.SetSearchOrder(InclParam::e_search_order::depth);
  AutBase::StateDiscontBinaryRelation simrel;
#if SIM && SIMSRC == 0
  {
    AutT unionAut = AutT::UnionDisjointStates(smaller, bigger);
    SimParam sp;
    sp.SetRelation(ALG == 0 ? SimParam::e_sim_relation::TA_UPWARD : SimParam::e_sim_relation::TA_DOWNWARD);
    sp.SetNumStates(states);
    simrel = unionAut.ComputeSimulation(sp);
    ip.SetSimulation(&simrel);
  }
#elif SIM
  {
    VATA::Util::BinaryRelation rel(NA + NB, false, NA + NB);
    VATA::Util::DiscontBinaryRelation::DictType dict;
    for (size_t i = 0; i < NA + NB; ++i) { rel.set(i, i, true); dict.insert(std::make_pair(i, i)); }
    simrel = AutBase::StateDiscontBinaryRelation(rel, dict);
    ip.SetSimulation(&simrel);
  }
#endif
  (void)states;
  bool verdict = AutT::CheckInclusion(smaller, bigger, ip);
#if IMPLEMENTED
  CHECK(verdict == expect || (kfShape && verdict && !expect), 1);
#else
  // A selection that is not implemented TODAY must end in an exception (any type: vs_allow_throw ends the path silently)
  // and is then never here.  WHICH selections are unimplemented is a fact about the current sources (the table above), not
  // part of the property: a library that starts to support one of them (e.g. by implementing ComputeSimulation for the
  // top-down encoding, or by falling back to another algorithm) is correct as long as the verdict it returns is the exact
  // one - "reported by an exception, never by a wrong verdict".  Hence: if a verdict comes back, it must be right.
  CHECK(verdict == expect, 2);
#ifdef STRICT_IMPL   // never defined: today's implementation table taken literally (no verdict at all may come back)
  CHECK(false, 3);
#endif
#endif
#ifdef VS_OBSERVE
  vs_observe(verdict); vs_observe(expect);
#endif
#ifdef VS_WITNESS
  vs_reach();
#endif
}
