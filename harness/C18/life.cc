// C18: life time of MTBDD nodes.  A drawn history of STEPS steps over three handles h0,h1,h2 (heap-allocated
// OndriksMTBDD<unsigned> objects, so that construction and destruction happen exactly where the history says), starting
// from the concrete state INIT.  Every step draws an action (3 bits) and a target handle d (one of 3):
//   0/1: d := diagram of cube A / B      2/3: d := h[d+1] / h[d+2]      4: d := d (self-assignment)
//   5: d := h[d+1] (+) h[d+2]            6: d := d (+) h[d+1]            7: destroy d
// With ACTSET 1 the action has 4 bits and 8..15 add the other operations that create diagrams (TOP = NV-1, the highest
// variable; actions that would violate a precondition of the API - a diagram that already depends on TOP - are skipped):
//   8: d := h[d+1].Project(all variables, (+))    9: d := h[d+1].Project({variable 0}, (+))
//   10: d := h[d+1].Rename(v -> v+1)              11: d := h[d+1].ExtendWith("1", TOP)     12: d := h[d+1].GetMtbddForPrefix("1", TOP)
//   13: d := unary apply (x+1 mod NVAL) of h[d+1] 14: d := ternary apply (sum mod NVAL) of d, h[d+1], h[d+2]   15: d := constant 2
// "d := x" is a construction (new handle: constructor, copy constructor) when d is empty and operator= when d is alive;
// actions whose sources are empty are skipped.  A shadow table per live handle is the reference semantics.
// After every step: every live handle denotes its shadow function (read with GetValue on all assignments), and two live
// handles are the same diagram exactly when their shadows are equal.  A diagram `keep` that shares nodes with the
// history's diagrams stays alive throughout.  At the end everything the history created is destroyed and both unique
// tables must be back to the sizes recorded before the history began, with `keep` intact.  Use after free, double free
// and invalid frees are reported by the engine itself (natively: ASan).
#include "mtbdd_univ.h"
using namespace MU;
using namespace VATA::MTBDDPkg;
#ifndef STEPS
#define STEPS 3
#endif
#ifndef INIT
#define INIT 0
#endif
#ifndef CUBES
#define CUBES 0
#endif
#ifndef OPB
#define OPB 0
#endif
#ifndef ACTSET
#define ACTSET 0
#endif
static inline Val opb(Val a, Val b) { return OPB == 0 ? (a + b) % NVAL : OPB == 1 ? (a > b ? a : b) : (a ^ b); }
struct FB : public Apply2Functor<FB, Val, Val, Val> { Val ApplyOperation(const Val& a, const Val& b) { return opb(a, b); } };
struct FU : public Apply1Functor<FU, Val, Val> { Val ApplyOperation(const Val& a) { return (a + 1) % NVAL; } };
struct FT : public Apply3Functor<FT, Val, Val, Val, Val> { Val ApplyOperation(const Val& a, const Val& b, const Val& c) { return (a + b + c) % NVAL; } };
enum { TOP = NV - 1 };

// the two concrete cubes of the configuration (ternary digits, variable 0 first), their values and default values
struct CubeDef { unsigned char t[3]; Val value, dflt; };
#if CUBES == 0      // B's diagram contains A's root as a sub-graph
static const CubeDef CA = {{1, 2, 2}, 1, 0}, CB = {{1, 1, 2}, 1, 0}, CK = {{1, 1, 1}, 1, 0};
#elif CUBES == 1    // different leaves and default values, shared sink
static const CubeDef CA = {{2, 1, 2}, 1, 0}, CB = {{0, 2, 2}, 2, 0}, CK = {{0, 1, 2}, 2, 0};
#elif CUBES == 2    // constants and a cube; default values differ
static const CubeDef CA = {{2, 2, 2}, 1, 1}, CB = {{1, 0, 2}, 1, 3}, CK = {{2, 2, 2}, 3, 3};
#else               // an all-don't-care cube whose (unused) default is a leaf that other live diagrams use
static const CubeDef CA = {{2, 2, 2}, 1, 3}, CB = {{1, 0, 2}, 3, 0}, CK = {{2, 2, 2}, 3, 3};
#endif
static Cube cubeOf(const CubeDef& c) { Cube q; for (unsigned i = 0; i < NV; ++i) q.t[i] = c.t[i]; return q; }

struct State {
  MTBDD* h[3]; bool live[3]; Tab tab[3]; Val dflt[3]; bool leaky;
#ifdef SHAREDFN      // one binary functor object serves every apply and every Project of the history (its memo table is per call)
  FB sharedFn;
#define LOCAL_FB FB& fn = sharedFn
#else
#define LOCAL_FB FB fn
#endif
  // d := (diagram m with shadow t): constructor when empty, operator= when alive
  void put(unsigned d, const MTBDD& m, const Tab& t, Val df) {
    if (live[d]) *h[d] = m; else h[d] = new MTBDD(m);
    live[d] = true; tab[d] = t; dflt[d] = df;
  }
  void cons(unsigned d, const CubeDef& c) {
    Cube q = cubeOf(c); Tab t = q.tab(c.value, c.dflt);
    if (live[d]) *h[d] = MTBDD(q.asgn(), c.value, c.dflt); else h[d] = new MTBDD(q.asgn(), c.value, c.dflt);
    live[d] = true; tab[d] = t; dflt[d] = c.dflt;
  }
  void apply(unsigned d, unsigned a, unsigned b) {
    LOCAL_FB; Tab t; for (unsigned i = 0; i < NA; ++i) t.v[i] = opb(tab[a].v[i], tab[b].v[i]);
    Val df = opb(dflt[a], dflt[b]);
    if (live[d]) *h[d] = fn(*h[a], *h[b]); else h[d] = new MTBDD(fn(*h[a], *h[b]));
    live[d] = true; tab[d] = t; dflt[d] = df;
  }
  bool dependsOnTop(unsigned a) const { bool dep = false; for (unsigned i = 0; i < NA / 2; ++i) dep = dep | (tab[a].v[i] != tab[a].v[i + NA / 2]); return dep; }
  // known finding C18-1: Project leaks the intermediate results below a removed node that has an internal child, i.e.
  // the function depends on a removed variable v in a context where one of its two cofactors is not constant
  bool projectLeakShape(unsigned a, unsigned removed) const {
    bool shape = false;
    for (unsigned v = 0; v < NV; ++v) if ((removed >> v) & 1) {
      const unsigned blk = 1u << v;               // a context = the variables above v; inside it the cofactors are blocks of size blk
      for (unsigned base = 0; base < NA; base += 2 * blk) {
        bool dep = false, c0 = true, c1 = true;
        for (unsigned i = 0; i < blk; ++i) { dep = dep | (tab[a].v[base + i] != tab[a].v[base + blk + i]); c0 = c0 & (tab[a].v[base + i] == tab[a].v[base]); c1 = c1 & (tab[a].v[base + blk + i] == tab[a].v[base + blk]); }
        shape = shape | (dep & (!c0 | !c1));
      }
    }
    return shape;
  }
  void project(unsigned d, unsigned a, unsigned removed) {
    LOCAL_FB; Tab t; projectRef(tab[a].v, NV, removed, opb, t.v); Val df = dflt[a];
    leaky = leaky | projectLeakShape(a, removed);
    put(d, h[a]->Project([removed](size_t var) { return ((removed >> var) & 1) != 0; }, fn), t, df);
  }
  void rename(unsigned d, unsigned a) {
    Tab t; for (unsigned b = 0; b < NA; ++b) t.v[b] = tab[a].v[b >> 1]; Val df = dflt[a];
    put(d, h[a]->Rename([](size_t var) { return var + 1; }), t, df);
  }
  void extend(unsigned d, unsigned a) {
    Tab t; for (unsigned b = 0; b < NA; ++b) t.v[b] = ((b >> TOP) & 1) ? tab[a].v[b] : dflt[a]; Val df = dflt[a];
    put(d, h[a]->ExtendWith(Asgn(std::string("1")), TOP), t, df);
  }
  void prefix(unsigned d, unsigned a) {
    Tab t; for (unsigned b = 0; b < NA; ++b) t.v[b] = tab[a].v[b | (1u << TOP)]; Val df = dflt[a];
    put(d, h[a]->GetMtbddForPrefix(Asgn(std::string("1")), TOP), t, df);
  }
  void prefix0(unsigned d, unsigned a) {
    Tab t; for (unsigned b = 0; b < NA; ++b) t.v[b] = tab[a].v[b & ~(1u << TOP)]; Val df = dflt[a];
    put(d, h[a]->GetMtbddForPrefix(Asgn(std::string("0")), TOP), t, df);
  }
  void unary(unsigned d, unsigned a) {
    FU fn; Tab t; for (unsigned b = 0; b < NA; ++b) t.v[b] = (tab[a].v[b] + 1) % NVAL; Val df = (dflt[a] + 1) % NVAL;
    put(d, fn(*h[a]), t, df);
  }
  void ternary(unsigned d, unsigned a, unsigned b, unsigned c) {
    FT fn; Tab t; for (unsigned i = 0; i < NA; ++i) t.v[i] = (tab[a].v[i] + tab[b].v[i] + tab[c].v[i]) % NVAL; Val df = (dflt[a] + dflt[b] + dflt[c]) % NVAL;
    put(d, fn(*h[a], *h[b], *h[c]), t, df);
  }
  void destroy(unsigned d) { delete h[d]; h[d] = 0; live[d] = false; }
  void step(unsigned act, unsigned d) {
    const unsigned s1 = (d + 1) % 3, s2 = (d + 2) % 3;
    switch (act) {
      case 0: cons(d, CA); break;
      case 1: cons(d, CB); break;
      case 2: if (live[s1]) put(d, *h[s1], tab[s1], dflt[s1]); break;
      case 3: if (live[s2]) put(d, *h[s2], tab[s2], dflt[s2]); break;
      case 4: if (live[d]) *h[d] = *h[d]; break;
      case 5: if (live[s1] && live[s2]) apply(d, s1, s2); break;
      case 6: if (live[d] && live[s1]) apply(d, d, s1); break;
      case 7: if (live[d]) destroy(d); break;
      case 8: if (live[s1]) project(d, s1, NA - 1); break;
      case 9: if (live[s1]) project(d, s1, 1); break;
      case 10: if (live[s1] && !dependsOnTop(s1)) rename(d, s1); break;
      case 11: if (live[s1] && !dependsOnTop(s1)) extend(d, s1); break;
      case 12: if (live[s1]) prefix(d, s1); break;
      case 13: if (live[s1]) unary(d, s1); break;
      case 14: if (live[d] && live[s1] && live[s2]) ternary(d, d, s1, s2); break;
#ifdef PREFIX0     // action 15 is the other cofactor: d := h[d+1] under "top variable = 0"
      default: if (live[s1]) prefix0(d, s1); break;
#else
      default: { Tab t; t.fill(2); put(d, MTBDD(2u), t, 2); } break;
#endif
    }
  }
  // every live handle still denotes its shadow function; same root <=> same function
  void check(int id) {
    for (unsigned i = 0; i < 3; ++i) if (live[i]) { sameFunction(*h[i], tab[i], id); CHECK(h[i]->GetDefaultValue() == dflt[i], id + 1); }
    for (unsigned i = 0; i < 3; ++i) for (unsigned j = i + 1; j < 3; ++j) if (live[i] && live[j]) CHECK((*h[i] == *h[j]) == tab[i].same(tab[j]), id + 2);
  }
};

extern "C" void harness(void)
{
  unsigned act[STEPS], dst[STEPS];
  for (unsigned k = 0; k < STEPS; ++k) { act[k] = pick(ACTSET ? 16 : 8); dst[k] = pick(3);
#ifdef ACTMASK     // only the actions whose bit is set (longer histories over fewer kinds of action)
    vs_assume((ACTMASK >> act[k]) & 1);
#endif
  }

  // a diagram that outlives the history and shares nodes with it
  const Cube qk = cubeOf(CK); const Tab tk = qk.tab(CK.value, CK.dflt);
  MTBDD keep(qk.asgn(), CK.value, CK.dflt);
  const size_t leaves0 = MTBDD::VerifLeafCacheSize(), internals0 = MTBDD::VerifInternalCacheSize();

  State s; for (unsigned i = 0; i < 3; ++i) { s.h[i] = 0; s.live[i] = false; } s.leaky = false;
#if INIT >= 1       // h0 = A, h1 = B
  s.cons(0, CA); s.cons(1, CB);
#endif
#if INIT >= 2       // h2 = h0 (+) h1, h1 = copy of h0 (B only survives inside h2)
  s.apply(2, 0, 1); s.put(1, *s.h[0], s.tab[0], s.dflt[0]);
#endif
  s.check(10);
  for (unsigned k = 0; k < STEPS; ++k) {
    s.step(act[k], dst[k]);
    s.check(20);
    sameFunction(keep, tk, 30);
  }
#ifdef VS_OBSERVE
  { unsigned long c = 0; for (unsigned i = 0; i < 3; ++i) c = c * 4099 + (s.live[i] ? 1 + decode(*s.h[i]).code() : 0); vs_observe(c);
    vs_observe(MTBDD::VerifLeafCacheSize()); vs_observe(MTBDD::VerifInternalCacheSize()); }
#endif
  // destroy what is left, in a drawn-history-independent order; the node store must be back where it started
#ifdef VS_SELFTEST_1
  s.live[0] = false;                 // seeded fault (handle 0 is never destroyed: its nodes stay in the tables): must be reported
#endif
  for (unsigned i = 0; i < 3; ++i) if (s.live[i]) s.destroy(i);
#ifdef KF_EXCLUDE_PROJECT_LEAK
  vs_assume(!s.leaky);               // known finding C18-1 excluded so that any other leak is still reported
#endif
#ifdef KF_EXPECT_PROJECT_LEAK
  vs_assume(s.leaky);
#endif
  CHECK(MTBDD::VerifLeafCacheSize() == leaves0, 40);
  CHECK(MTBDD::VerifInternalCacheSize() == internals0, 41);
  sameFunction(keep, tk, 42);
  { MTBDD k2(qk.asgn(), CK.value, CK.dflt); CHECK(k2 == keep, 43); }
  CHECK(MTBDD::VerifLeafCacheSize() == leaves0 && MTBDD::VerifInternalCacheSize() == internals0, 44);
#ifdef VS_WITNESS
  vs_reach();
#endif
}
