// C18 (many references): one diagram with a symbolic value table and NCOPY live handles on it (concrete filler: the
// property quantifies over any number of live handles, and a reference counter narrower than the number of handles wraps).
// A symbolic number of the copies is destroyed again; the diagram must still denote its function, both unique tables
// must keep the size they had after the diagram was built (no node released while the remaining NCOPY - k handles and
// `m` refer to it); after all copies are gone the tables are still that size, after `m` is gone they are back to the
// initial size.  The copies live in one std::vector (copy constructor NCOPY times, destructor per pop_back / clear).
#include <vector>
#include "mtbdd_univ.h"
using namespace MU;
using namespace VATA::MTBDDPkg;
#ifndef NCOPY
#define NCOPY 65537
#endif
#ifndef FSRC
#define FSRC 'T'
#endif

extern "C" void harness(void)
{
  Fun f; f.draw(FSRC);
  const unsigned k = 1 + pick(2);                 // how many copies are destroyed first
  const unsigned viaAssign = pick(2);             // the copies are copy-constructed (0) or default diagrams assigned to (1)
  const size_t leaves0 = MTBDD::VerifLeafCacheSize(), internals0 = MTBDD::VerifInternalCacheSize();
  {
    MTBDD m = f.make(0);
    sameFunction(m, f.t, 1);
    const size_t leaves1 = MTBDD::VerifLeafCacheSize(), internals1 = MTBDD::VerifInternalCacheSize();
    {
      std::vector<MTBDD> copies;
      copies.reserve(NCOPY);
      if (viaAssign) { MTBDD other((Val)0); for (unsigned i = 0; i < NCOPY; ++i) { copies.push_back(other); copies.back() = m; } }
      else for (unsigned i = 0; i < NCOPY; ++i) copies.push_back(m);
      for (unsigned i = 0; i < k; ++i) copies.pop_back();
      // nothing was released: m and the remaining copies still refer to every node
      CHECK(MTBDD::VerifLeafCacheSize() >= leaves1 && MTBDD::VerifInternalCacheSize() == internals1, 2);
      sameFunction(m, f.t, 3);
      sameFunction(copies[0], f.t, 4); sameFunction(copies.back(), f.t, 5);
      CHECK(copies[0] == m, 6);
#ifdef VS_SELFTEST_1
      CHECK(MTBDD::VerifInternalCacheSize() != internals1, 90);      // seeded wrong oracle: must be reported
#endif
    }
    CHECK(MTBDD::VerifLeafCacheSize() == leaves1 && MTBDD::VerifInternalCacheSize() == internals1, 7);
    sameFunction(m, f.t, 8);
    { MTBDD again = f.make(1); CHECK(again == m, 9); }
#ifdef VS_OBSERVE
    vs_observe(MTBDD::VerifLeafCacheSize() - leaves0); vs_observe(MTBDD::VerifInternalCacheSize() - internals0); vs_observe(decode(m).code());
#endif
  }
  CHECK(MTBDD::VerifLeafCacheSize() == leaves0 && MTBDD::VerifInternalCacheSize() == internals0, 10);
#ifdef VS_WITNESS
  vs_reach();
#endif
}
