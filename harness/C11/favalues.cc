// C11 (word automata): ExplicitFiniteAut objects are values.  Same scheme as values.cc: NH heap-allocated handles, a
// symbolic history of STEPS calls chosen from the families enabled per step by PLAN (1 copies/lifetime: copy-assign,
// self-assign, copy-construct, move-construct, move-assign, assignment back into a moved-from object, destroy;
// 2 mutations: AddTransition, SetStateFinal, SetStateStart; 4 RemoveUnreachableStates stored into any handle;
// 8 UnionDisjointStates stored into a handle and Union with translation maps kept in a separate result object;
// 16 RemoveUselessStates / Reverse stored into any handle), a value-semantics shadow per handle, every handle read back
// after every step.  Results of the trimming operations, Reverse and UnionDisjointStates (language-level contracts) are
// bounded from below and above by functions of the operand shadows and the value read becomes the shadow (see adopt()).  The facade has no getters for transitions and final states, so a handle is read through the public
// DumpToString(serializer, stateDict) with a serializer that decodes the AutDescription it is given, and through
// GetStartStates / GetStartSymbols (for every state).
// Universe: states 0..NS-1, symbols 0..NSYM-1 (registered in the alphabet as "a", "b", ...).
// Solver variables: the initial automaton in handle 0 (first INITT transitions, INITS start entries, final states) and one
// call code per step.
#include <vata/explicit_finite_aut.hh>
#include <vata/serialization/abstr_serializer.hh>
#include <utility>
#include <string>
#include "vs.h"
using namespace VATA;
typedef ExplicitFiniteAut Aut;
#ifndef NS
#define NS 2
#endif
#ifndef NSYM
#define NSYM 2
#endif
#ifndef NH
#define NH 2
#endif
#ifndef STEPS
#define STEPS 2
#endif
#ifndef PLAN
#define PLAN {3, 3}
#endif
#ifndef INITT
#define INITT 64
#endif
#ifndef INITS
#define INITS 64
#endif
#ifndef PRE
#define PRE 0        // 0 none, 1 handle 1 = copy of handle 0, 3 handle 0 over the states < NS-1 and handle 1 over the state NS-1
#endif
static const unsigned char FAM[] = PLAN;
enum { NT = NS * NSYM * NS, NST = NS * NSYM, NQ = 2 * NS };
enum OpKind { ASSIGN, COPY, MOVEC, MOVEA, REUSEC, REUSEM, DESTROY, ADD, FINAL, START, UNREACH, USELESS, REVERSE, UNIOND, UNION };
struct Tr { unsigned l, a, r; };
static Tr tr(unsigned i) { Tr t; t.l = i / (NSYM * NS); t.a = (i / NS) % NSYM; t.r = i % NS; return t; }

// a value: transitions, final states, start states, and the start-symbol map (state -> set of symbols; the library keeps
// entries of that map for states that are no longer start states after Reverse / RemoveUselessStates, and GetStartSymbols
// answers for every state, so the whole map is part of the value)
struct Val {
  bool t[NT], st[NST]; unsigned fin, start;
  void clear() { for (unsigned i = 0; i < NT; ++i) t[i] = false; for (unsigned i = 0; i < NST; ++i) st[i] = false; fin = start = 0; }
  unsigned keys() const { unsigned m = 0; for (unsigned i = 0; i < NST; ++i) m |= (unsigned)st[i] << (i / NSYM); return m; }
  unsigned used() const { unsigned m = fin | start | keys(); for (unsigned i = 0; i < NT; ++i) { Tr x = tr(i); m |= t[i] ? (1u << x.l) | (1u << x.r) : 0u; } return m; }
};
static unsigned forward(const Val& v, unsigned from)
{
  unsigned reach = from;
  for (unsigned it = 0; it < NS; ++it) for (unsigned i = 0; i < NT; ++i) { Tr x = tr(i); reach |= (unsigned)(v.t[i] & ((reach >> x.l) & 1)) << x.r; }
  return reach;
}
// reference semantics of RemoveUnreachableStates: keep what hangs on states reachable from the start states
static Val withoutUnreachable(const Val& v)
{
  unsigned reach = forward(v, v.start);
  Val r = v; r.fin = v.fin & reach;
  for (unsigned i = 0; i < NT; ++i) r.t[i] = v.t[i] & ((reach >> tr(i).l) & 1);
  return r;
}
// reference semantics of RemoveUselessStates: transitions on a path from a start state to a final state; reachable final
// states; start states from which a final state can be reached
static Val withoutUseless(const Val& v)
{
  unsigned reach = forward(v, v.start), co = v.fin & reach;
  for (unsigned it = 0; it < NS; ++it) for (unsigned i = 0; i < NT; ++i) { Tr x = tr(i); co |= (unsigned)(v.t[i] & ((reach >> x.l) & 1) & ((co >> x.r) & 1)) << x.l; }
  Val r = v; r.fin = v.fin & reach; r.start = v.start & co;
  for (unsigned i = 0; i < NT; ++i) { Tr x = tr(i); r.t[i] = v.t[i] & ((reach >> x.l) & 1) & ((co >> x.r) & 1); }
  return r;
}
// reference semantics of Reverse: every transition turned round, start and final states exchanged
static Val reversed(const Val& v)
{
  Val r = v; r.fin = v.start; r.start = v.fin;
  for (unsigned l = 0; l < NS; ++l) for (unsigned a = 0; a < NSYM; ++a) for (unsigned q = 0; q < NS; ++q) r.t[(l * NSYM + a) * NS + q] = v.t[(q * NSYM + a) * NS + l];
  return r;
}

template <class F> static unsigned enumerate(unsigned fam, F f)
{
  unsigned n = 0;
  if (fam & 1) {
    for (unsigned i = 0; i < NH; ++i) for (unsigned j = 0; j < NH; ++j) f(n++, ASSIGN, i, j, 0u);
    for (unsigned i = 0; i < NH; ++i) for (unsigned j = 0; j < NH; ++j) if (i != j) { f(n++, COPY, i, j, 0u); f(n++, MOVEC, i, j, 0u); f(n++, MOVEA, i, j, 0u); f(n++, REUSEC, i, j, 0u); f(n++, REUSEM, i, j, 0u); }
    for (unsigned i = 0; i < NH; ++i) f(n++, DESTROY, i, i, 0u);
  }
  if (fam & 2) for (unsigned i = 0; i < NH; ++i) { for (unsigned x = 0; x < NT; ++x) f(n++, ADD, i, i, x); for (unsigned s = 0; s < NS; ++s) f(n++, FINAL, i, i, s); for (unsigned x = 0; x < NST; ++x) f(n++, START, i, i, x); }
  if (fam & 4) for (unsigned i = 0; i < NH; ++i) for (unsigned j = 0; j < NH; ++j) f(n++, UNREACH, i, j, 0u);
  if (fam & 16) for (unsigned i = 0; i < NH; ++i) for (unsigned j = 0; j < NH; ++j) { f(n++, USELESS, i, j, 0u); f(n++, REVERSE, i, j, 0u); }
  if (fam & 8) for (unsigned i = 0; i < NH; ++i) for (unsigned j = 0; j < NH; ++j) { if (i != j) f(n++, UNIOND, i, j, 0u); f(n++, UNION, i, j, 0u); }
  return n;
}
struct Count { void operator()(unsigned, OpKind, unsigned, unsigned, unsigned) const {} };

static Aut* h[NH]; static Val val[NH];
static Aut* ures; static AutBase::StateToStateMap* umapL; static AutBase::StateToStateMap* umapR; static Val usnapL, usnapR;
static std::string* qname; static std::string* sname; static AutBase::StateDict* dict; static size_t symb[NSYM];
static void replace(unsigned j, Aut* n) { delete h[j]; h[j] = n; }

// serializer that decodes the description into "which (left state, symbol, right state) / final state names occur"
struct Decoder : public Serialization::AbstrSerializer {
  bool t[NQ][NSYM][NQ]; bool fin[NQ]; bool ok;
  Decoder() { ok = true; for (unsigned l = 0; l < NQ; ++l) { fin[l] = false; for (unsigned a = 0; a < NSYM; ++a) for (unsigned r = 0; r < NQ; ++r) t[l][a][r] = false; } }
  virtual std::string Serialize(const AutDescription& d)
  {
    for (const std::string& f : d.finalStates) { bool hit = false; for (unsigned q = 0; q < NQ; ++q) { bool m = f == qname[q]; fin[q] |= m; hit |= m; } ok &= hit; }
    unsigned n = 0;
    for (const AutDescription::Transition& x : d.transitions) {
      if (++n > NQ * NSYM * NQ + NQ) { ok = false; break; }
      if (x.first.size() != 1) { ok &= x.first.empty(); continue; }      // empty left side: a start state (read through the getters instead)
      bool hit = false;
      for (unsigned l = 0; l < NQ; ++l) for (unsigned a = 0; a < NSYM; ++a) for (unsigned r = 0; r < NQ; ++r) {
        bool m = x.first[0] == qname[l] && x.second == sname[a] && x.third == qname[r]; t[l][a][r] |= m; hit |= m; }
      ok &= hit;
    }
    return std::string();
  }
};

// read a handle over the states 0..NS-1 into a value
static bool readVal(const Aut& a, Val& out)
{
  out.clear(); Decoder dec; a.DumpToString(dec, *dict);
  bool ok = dec.ok;
  for (unsigned q = 0; q < NQ; ++q) { if (q < NS) out.fin |= (unsigned)dec.fin[q] << q; else ok &= !dec.fin[q]; }
  for (unsigned l = 0; l < NQ; ++l) for (unsigned s = 0; s < NSYM; ++s) for (unsigned r = 0; r < NQ; ++r) { if (l < NS && r < NS) out.t[(l * NSYM + s) * NS + r] = dec.t[l][s][r]; else ok &= !dec.t[l][s][r]; }
  for (size_t q : a.GetStartStates()) { bool hit = false; for (unsigned s = 0; s < NS; ++s) { bool m = q == s; out.start |= (unsigned)m << s; hit |= m; } ok &= hit; }
  for (unsigned s = 0; s < NS; ++s)
    for (size_t y : a.GetStartSymbols(s)) { bool known = false; for (unsigned k = 0; k < NSYM; ++k) { bool m = y == symb[k]; out.st[s * NSYM + k] |= m; known |= m; } ok &= known; }
  return ok;
}
static void same(const Aut& a, const Val& v, int id)
{
  Val got; bool ok = readVal(a, got); CHECK(ok, id + 1);
  for (unsigned i = 0; i < NT; ++i) CHECK(got.t[i] == v.t[i], id + 2);
  for (unsigned i = 0; i < NST; ++i) CHECK(got.st[i] == v.st[i], id + 3);
  CHECK(got.fin == v.fin, id + 4); CHECK(got.start == v.start, id + 5);
}

// Result of an operation whose contract is stated on the level of languages (C10: RemoveUnreachableStates, RemoveUselessStates,
// Reverse, UnionDisjointStates keep / mirror / unite the language): C11 only asks that the result is a function of the operand
// values and that it stays what it was afterwards.  So the result is *read* and becomes the shadow value of its handle (every
// later step compares the handle with this snapshot); demanded here is only what every correct implementation yields: nothing
// invented (got <= hi) and nothing lost that lies on a path from a start state to a final state (lo <= got).  Unreachable or
// dead states, their transitions and their final / start marks may be kept or dropped.  The start-symbol map of a result is
// not constrained at all (which entries Reverse / RemoveUselessStates / RemoveUnreachableStates carry over - e.g. entries of
// states that are no longer start states - is an artefact of the current sources), it is only required to stay what it was read.
// -DSTRICT_IMPL (never defined by the registry) restores the comparison with the exact structure the current sources build.
static Val adopt(const Aut& a, Val lo, const Val& hi, const Val& strict, int id)
{
  Val got; bool ok = readVal(a, got); CHECK(ok, id + 1);
#if defined(STRICT_IMPL) && !defined(VS_SELFTEST_2)
  for (unsigned i = 0; i < NT; ++i) CHECK(got.t[i] == strict.t[i], id + 2);
  for (unsigned i = 0; i < NST; ++i) CHECK(got.st[i] == strict.st[i], id + 3);
  CHECK(got.fin == strict.fin, id + 4); CHECK(got.start == strict.start, id + 5);
#else
  (void)strict;
  for (unsigned i = 0; i < NT; ++i) { CHECK(!lo.t[i] || got.t[i], id + 2); CHECK(!got.t[i] || hi.t[i], id + 3); }
  CHECK((lo.fin & ~got.fin) == 0 && (got.fin & ~hi.fin) == 0, id + 4); CHECK((lo.start & ~got.start) == 0 && (got.start & ~hi.start) == 0, id + 5);
#endif
  return got;
}
static Val unionOf(const Val& a, const Val& b) { Val r = a; for (unsigned i = 0; i < NT; ++i) r.t[i] = a.t[i] | b.t[i]; for (unsigned i = 0; i < NST; ++i) r.st[i] = a.st[i] | b.st[i]; r.fin = a.fin | b.fin; r.start = a.start | b.start; return r; }

// read the Union result through its translation maps as a pair of values (left part, right part)
static bool readUnion(Val& L, Val& R)
{
  L.clear(); R.clear();
  bool hasL[NS], hasR[NS]; size_t imgL[NS], imgR[NS]; bool ok = true;
  for (unsigned s = 0; s < NS; ++s) { auto l = umapL->find(s); hasL[s] = l != umapL->end(); imgL[s] = hasL[s] ? l->second : 0; auto r = umapR->find(s); hasR[s] = r != umapR->end(); imgR[s] = hasR[s] ? r->second : 0;
    ok &= imgL[s] < NQ && imgR[s] < NQ; }
  for (unsigned s = 0; s < NS; ++s) for (unsigned t = 0; t < NS; ++t) { ok &= !(hasL[s] & hasR[t] & (imgL[s] == imgR[t]));
    if (s != t) { ok &= !(hasL[s] & hasL[t] & (imgL[s] == imgL[t])); ok &= !(hasR[s] & hasR[t] & (imgR[s] == imgR[t])); } }
  Decoder dec; ures->DumpToString(dec, *dict); ok &= dec.ok;
  // every element of the result is the image of an element of the left or of the right operand
  for (unsigned q = 0; q < NQ; ++q) { bool hit = false; for (unsigned s = 0; s < NS; ++s) { bool l = hasL[s] && imgL[s] == q, r = hasR[s] && imgR[s] == q; L.fin |= (unsigned)(l & dec.fin[q]) << s; R.fin |= (unsigned)(r & dec.fin[q]) << s; hit |= l | r; } ok &= hit | !dec.fin[q]; }
  for (unsigned p = 0; p < NQ; ++p) for (unsigned a = 0; a < NSYM; ++a) for (unsigned q = 0; q < NQ; ++q) { bool hit = false;
    for (unsigned i = 0; i < NT; ++i) { Tr x = tr(i); if (x.a != a) continue;
      bool l = hasL[x.l] && hasL[x.r] && imgL[x.l] == p && imgL[x.r] == q, r = hasR[x.l] && hasR[x.r] && imgR[x.l] == p && imgR[x.r] == q;
      L.t[i] |= l & dec.t[p][a][q]; R.t[i] |= r & dec.t[p][a][q]; hit |= l | r; }
    ok &= hit | !dec.t[p][a][q]; }
  for (size_t q : ures->GetStartStates()) { bool hit = false;
    for (unsigned s = 0; s < NS; ++s) { bool l = hasL[s] && imgL[s] == q, r = hasR[s] && imgR[s] == q; L.start |= (unsigned)l << s; R.start |= (unsigned)r << s;
      if (l | r) for (size_t y : ures->GetStartSymbols(q)) for (unsigned k = 0; k < NSYM; ++k) { bool m = y == symb[k]; L.st[s * NSYM + k] |= l & m; R.st[s * NSYM + k] |= r & m; }
      hit |= l | r; }
    ok &= hit; }
  return ok;
}
// equality of values where only the start symbols of start states count (Union carries over nothing else)
static bool equalVal(const Val& a, const Val& b) { bool e = a.fin == b.fin && a.start == b.start; for (unsigned i = 0; i < NT; ++i) e &= a.t[i] == b.t[i];
  for (unsigned i = 0; i < NST; ++i) e &= (a.st[i] & ((a.start >> (i / NSYM)) & 1)) == (b.st[i] & ((b.start >> (i / NSYM)) & 1)); return e; }

// lo <= v <= hi on transitions, final states and start states (start symbols not constrained)
static bool between(const Val& v, const Val& lo, const Val& hi) { bool e = (lo.fin & ~v.fin) == 0 && (v.fin & ~hi.fin) == 0 && (lo.start & ~v.start) == 0 && (v.start & ~hi.start) == 0;
  for (unsigned i = 0; i < NT; ++i) e &= (!lo.t[i] || v.t[i]) && (!v.t[i] || hi.t[i]); return e; }

static void apply(OpKind op, unsigned i, unsigned j, unsigned a)
{
  switch (op) {
  case ASSIGN: *h[j] = *h[i]; val[j] = val[i]; break;
  case COPY: { Aut* n = new Aut(*h[i]); replace(j, n); val[j] = val[i]; break; }
  case MOVEC: { Aut* n = new Aut(std::move(*h[i])); replace(i, new Aut()); replace(j, n); val[j] = val[i]; val[i].clear(); break; }
  case MOVEA: *h[j] = std::move(*h[i]); replace(i, new Aut()); val[j] = val[i]; val[i].clear(); break;
  // a moved-from object is assigned to again (what std::swap does): copy-assignment resp. move-assignment into it
  case REUSEC: case REUSEM:
#ifdef KF_EXCLUDE_MOVED_FROM_ASSIGN
    vs_assume(0);                          // known finding: assignment to a moved-from object dereferences its null core_
#else
    { Aut* n = new Aut(std::move(*h[i])); replace(j, n);
      if (op == REUSEC) *h[i] = *h[j]; else { Aut tmp(*h[j]); *h[i] = std::move(tmp); }
      val[j] = val[i]; }
#endif
    break;
  case DESTROY: replace(i, new Aut()); val[i].clear(); break;
  case ADD: { Tr x = tr(a); h[i]->AddTransition(x.l, symb[x.a], x.r); val[i].t[a] = true;
#ifdef VS_SELFTEST_1
    val[(i + 1) % NH].t[a] = true;         // seeded wrong shadow: reference semantics
#endif
    break; }
  case FINAL: h[i]->SetStateFinal(a); val[i].fin |= 1u << a; break;
  case START: h[i]->SetStateStart(a / NSYM, symb[a % NSYM]); val[i].st[a] = true; val[i].start |= 1u << (a / NSYM); break;
  case UNREACH: { Aut* n = new Aut(h[i]->RemoveUnreachableStates()); Val lo = withoutUseless(val[i]), hi = val[i];
#ifdef VS_SELFTEST_2
    lo = hi;                               // seeded wrong oracle: nothing is removed
#endif
    Val v = adopt(*n, lo, hi, withoutUnreachable(val[i]), 40); replace(j, n); val[j] = v; break; }
  case USELESS: { Aut* n = new Aut(h[i]->RemoveUselessStates()); Val v = adopt(*n, withoutUseless(val[i]), val[i], withoutUseless(val[i]), 40); replace(j, n); val[j] = v; break; }
  case REVERSE: { Aut* n = new Aut(h[i]->Reverse()); Val v = adopt(*n, reversed(withoutUseless(val[i])), reversed(val[i]), reversed(val[i]), 40); replace(j, n); val[j] = v; break; }
  case UNIOND:
    if ((val[i].used() & val[j].used()) == 0) { Aut* n = new Aut(Aut::UnionDisjointStates(*h[i], *h[j])); Val all = unionOf(val[i], val[j]);
      Val v = adopt(*n, unionOf(withoutUseless(val[i]), withoutUseless(val[j])), all, all, 50); replace(j, n); val[j] = v; }
    break;
  case UNION: {
    delete ures; delete umapL; delete umapR; umapL = new AutBase::StateToStateMap(); umapR = new AutBase::StateToStateMap();
    ures = new Aut(Aut::Union(*h[i], *h[j], umapL, umapR));
    bool ok = readUnion(usnapL, usnapR); CHECK(ok, 60);
    // each part of the result, read through the reported maps, lies between the part of the operand on accepting paths and the
    // whole operand (as in harness/C10 / C02: leaving out dead states is as correct; which start symbols are carried over is
    // not constrained); the complete image only with -DSTRICT_IMPL.  What was read is the snapshot for the later steps.
#ifdef STRICT_IMPL
    CHECK(equalVal(usnapL, val[i]), 61); CHECK(equalVal(usnapR, val[j]), 62);
#else
    CHECK(between(usnapL, withoutUseless(val[i]), val[i]), 61); CHECK(between(usnapR, withoutUseless(val[j]), val[j]), 62);
#endif
    break; }
  }
}
struct IsReuse { unsigned code; bool* hit; void operator()(unsigned n, OpKind op, unsigned, unsigned, unsigned) const { if (code == n && op == REUSEC) *hit = true; } };
struct Exec { unsigned code; void operator()(unsigned n, OpKind op, unsigned i, unsigned j, unsigned a) const { if (code == n) apply(op, i, j, a); } };

static void compareAll(int id)
{
  for (unsigned i = 0; i < NH; ++i) same(*h[i], val[i], id + 10 * i);
  if (ures) { Val L, R; bool ok = readUnion(L, R); CHECK(ok, 70); CHECK(equalVal(L, usnapL), 71); CHECK(equalVal(R, usnapR), 72); }
}

extern "C" void harness(void)
{
  // ---- inputs
  bool t0[NT], s0[NST], f0[NS]; unsigned code[STEPS], ncodes[STEPS];
#if PRE == 3
  for (unsigned i = 0; i < NT; ++i) { Tr x = tr(i); bool lo = x.l < NS - 1 && x.r < NS - 1, hi = x.l == NS - 1 && x.r == NS - 1; t0[i] = (lo || hi) ? vs_bit() : false; }
  for (unsigned i = 0; i < NST; ++i) s0[i] = vs_bit();
#else
  for (unsigned i = 0; i < NT; ++i) t0[i] = i < INITT ? vs_bit() : false;
  for (unsigned i = 0; i < NST; ++i) s0[i] = i < INITS ? vs_bit() : false;
#endif
  for (unsigned s = 0; s < NS; ++s) f0[s] = vs_bit();
  for (unsigned k = 0; k < STEPS; ++k) { ncodes[k] = enumerate(FAM[k], Count()); unsigned pw = 1; while (pw < ncodes[k]) pw <<= 1; code[k] = vs_range(pw); }
  // ---- names, alphabet, initial handles
  qname = new std::string[NQ]; sname = new std::string[NSYM]; dict = new AutBase::StateDict();
  for (unsigned q = 0; q < NQ; ++q) { qname[q] = std::string("q") + (char)('0' + q); dict->insert(std::make_pair(qname[q], (size_t)q)); }
  ures = 0; umapL = umapR = 0;
  for (unsigned i = 0; i < NH; ++i) { h[i] = new Aut(); val[i].clear(); }
  { Aut::AbstractAlphabet::FwdTranslatorPtr reg = h[0]->GetAlphabet()->GetSymbolTransl();
    for (unsigned k = 0; k < NSYM; ++k) { sname[k] = std::string(1, (char)('a' + k)); symb[k] = (*reg)(sname[k]); } }
#if PRE == 3
  for (unsigned i = 0; i < NT; ++i) if (t0[i]) { Tr x = tr(i); unsigned to = x.l == NS - 1; h[to]->AddTransition(x.l, symb[x.a], x.r); val[to].t[i] = true; }
  for (unsigned i = 0; i < NST; ++i) if (s0[i]) { unsigned to = i / NSYM == NS - 1; h[to]->SetStateStart(i / NSYM, symb[i % NSYM]); val[to].st[i] = true; val[to].start |= 1u << (i / NSYM); }
  for (unsigned s = 0; s < NS; ++s) if (f0[s]) { unsigned to = s == NS - 1; h[to]->SetStateFinal(s); val[to].fin |= 1u << s; }
#else
  for (unsigned i = 0; i < NT; ++i) if (t0[i]) { Tr x = tr(i); h[0]->AddTransition(x.l, symb[x.a], x.r); val[0].t[i] = true; }
  for (unsigned i = 0; i < NST; ++i) if (s0[i]) { h[0]->SetStateStart(i / NSYM, symb[i % NSYM]); val[0].st[i] = true; val[0].start |= 1u << (i / NSYM); }
  for (unsigned s = 0; s < NS; ++s) if (f0[s]) { h[0]->SetStateFinal(s); val[0].fin |= 1u << s; }
  for (unsigned i = 1; i < (PRE == 0 ? 1 : 2); ++i) { *h[i] = *h[0]; val[i] = val[0]; }
#endif
  compareAll(100);
#ifdef KF_EXPECT_MOVED_FROM_ASSIGN
  { unsigned c = code[0]; if (c >= ncodes[0]) c -= ncodes[0]; bool hit = false; IsReuse q; q.code = c; q.hit = &hit; enumerate(FAM[0], q); vs_assume(hit); }   // only histories that start with the known shape
#endif
  // ---- symbolic history
  for (unsigned k = 0; k < STEPS; ++k) {
    unsigned c = code[k]; if (c >= ncodes[k]) c -= ncodes[k];
    Exec e; e.code = c; enumerate(FAM[k], e);
    compareAll(100 * (k + 2));
  }
  // ---- an operation repeated after all that activity depends on the value only
  for (unsigned i = 0; i < NH; ++i) { Aut t = h[i]->RemoveUnreachableStates(); adopt(t, withoutUseless(val[i]), val[i], withoutUnreachable(val[i]), 80);
#ifdef FINAL_USELESS
    { Aut u = h[i]->RemoveUselessStates(); adopt(u, withoutUseless(val[i]), val[i], withoutUseless(val[i]), 85); }
#endif
    same(*h[i], val[i], 90); }
#ifdef VS_OBSERVE
  for (unsigned i = 0; i < NH; ++i) { Val g; bool ok = readVal(*h[i], g); unsigned long m = 0; for (unsigned x = 0; x < NT; ++x) m |= (unsigned long)g.t[x] << x; unsigned long s = 0; for (unsigned x = 0; x < NST; ++x) s |= (unsigned long)g.st[x] << x;
    vs_observe(ok); vs_observe(m); vs_observe(s); vs_observe(g.fin); vs_observe(g.start); }
  vs_observe(ures != 0);
#endif
#ifdef VS_WITNESS
  vs_reach();
#endif
}
