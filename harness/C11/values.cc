// C11: ExplicitTreeAut objects are values.  NH handles (heap objects, so that their lifetime is under the control of the
// harness) go through a symbolic history of STEPS steps; every step is one call out of the families enabled for that
// step by PLAN: copies/lifetime (copy-assign, self-assign, the three copy-constructor variants, move-construct and
// move-assign with the moved-from object destroyed, move-construct followed by an assignment back into the moved-from
// object, destroy), mutations (AddTransition, SetStateFinal, EraseFinalStates, Clear), trimming results
// (RemoveUnreachableStates, RemoveUselessStates stored into any handle), unions (UnionDisjointStates stored into a
// handle, Union with translation maps kept in a separate result object) and bulk additions into an existing handle
// (ReindexStates(dst, functor), CopyTransitionsFrom).  Each handle has a shadow *value* (set of rules,
// set of final states) that is updated with value semantics; after every step every handle is read back (iteration,
// final states, ContainsTransition) and compared with its shadow, results of operations are compared with a pure function
// of the operand shadows (RemoveUnreachableStates / UnionDisjointStates, whose contract is only language-level: with a lower
// and an upper bound computed from the operand shadows, the value actually read becoming the shadow - see adopt()), and the
// kept Union result is re-read and compared with its snapshot.
// Solver variables: presence bits of the initial automaton in handle 0 (first INITR universe rules) + its final states
// (PRE=3: of two initial automata over disjoint state sets), and one call code per step.
#include <vata/explicit_tree_aut.hh>
#include <utility>
#include "ruleset.h"
using namespace VATA;
typedef ExplicitTreeAut Aut;
typedef ExplicitTreeAut::StateTuple Tuple;
#ifndef NH
#define NH 2
#endif
#ifndef STEPS
#define STEPS 2
#endif
// family mask per step: 1 copies/lifetime, 2 mutations, 4 trimming results, 8 unions, 16 bulk additions into an existing
// handle (ReindexStates(dst, functor), CopyTransitionsFrom)
#ifndef PLAN
#define PLAN {7, 7}
#endif
#ifndef INITR
#define INITR 64     // number of leading universe rules whose presence in the initial automaton is an input (others absent)
#endif
#ifndef INITF
#define INITF 1      // final states of the initial automaton are inputs (1) or empty (0)
#endif
#ifndef PRE
#define PRE 0        // prefix before the symbolic steps: 0 none, 1 handle 1 = copy of handle 0, 2 all handles = copies of handle 0,
                     // 3 handle 0 drawn over the states < NS-1 and handle 1 drawn over the state NS-1 (disjoint state sets)
#endif
#ifndef CONTAINS
#define CONTAINS 1   // also read every handle through ContainsTransition
#endif
static const unsigned char FAM[] = PLAN;
enum OpKind { ASSIGN, COPY, MOVEC, MOVEA, REUSEC, REUSEM, DESTROY, ADD, FINAL, ERASE, CLEAR, UNREACH, USELESS, UNIOND, UNION, REINDEX, COPYFROM };
enum { NR_MAX = RS::MAXR };

// enumerate the calls enabled by a family mask: f(n, op, i, j, a); returns the number of codes
template <class F> static unsigned enumerate(unsigned fam, F f)
{
  const unsigned NR = RS::count(); unsigned n = 0;
  if (fam & 1) {
    for (unsigned i = 0; i < NH; ++i) for (unsigned j = 0; j < NH; ++j) f(n++, ASSIGN, i, j, 0u);            // i == j: self-assignment
    for (unsigned i = 0; i < NH; ++i) for (unsigned j = 0; j < NH; ++j) if (i != j) {
      for (unsigned a = 0; a < 3; ++a) f(n++, COPY, i, j, a);                                                 // a: 0 everything, 1 rules only, 2 final states only
      f(n++, MOVEC, i, j, 0u); f(n++, MOVEA, i, j, 0u); f(n++, REUSEC, i, j, 0u); f(n++, REUSEM, i, j, 0u); }
    for (unsigned i = 0; i < NH; ++i) f(n++, DESTROY, i, i, 0u);
  }
  if (fam & 2) {
    for (unsigned i = 0; i < NH; ++i) { for (unsigned r = 0; r < NR; ++r) f(n++, ADD, i, i, r);
      for (unsigned s = 0; s < NS; ++s) f(n++, FINAL, i, i, s);
      f(n++, ERASE, i, i, 0u); f(n++, CLEAR, i, i, 0u); }
  }
  if (fam & 4) for (unsigned i = 0; i < NH; ++i) for (unsigned j = 0; j < NH; ++j) { f(n++, UNREACH, i, j, 0u); f(n++, USELESS, i, j, 0u); }
  if (fam & 8) for (unsigned i = 0; i < NH; ++i) for (unsigned j = 0; j < NH; ++j) { if (i != j) f(n++, UNIOND, i, j, 0u); f(n++, UNION, i, j, 0u); }
  if (fam & 16) for (unsigned i = 0; i < NH; ++i) for (unsigned j = 0; j < NH; ++j) if (i != j) for (unsigned a = 0; a < 2; ++a) { f(n++, REINDEX, i, j, a); f(n++, COPYFROM, i, j, a); }
  return n;
}
struct Count { void operator()(unsigned, OpKind, unsigned, unsigned, unsigned) const {} };

static Aut* h[NH]; static RS::Val val[NH];
// result of Union kept alive next to the handles, with the translation maps and a snapshot of what was read right after the call
static Aut* ures; static AutBase::StateToStateMap* umapL; static AutBase::StateToStateMap* umapR; static bool usnapL[NR_MAX], usnapR[NR_MAX]; static unsigned usnapFL, usnapFR;

static void replace(unsigned j, Aut* n) { delete h[j]; h[j] = n; }

// state renaming s -> (s + shift) mod NS as library functor, and its effect on a universe rule
struct Rotate : public AbstractReindexF {
  unsigned shift; explicit Rotate(unsigned sh) : shift(sh) {}
  virtual AutBase::StateType operator[](const AutBase::StateType& s) { return (s + shift) % NS; }
  virtual AutBase::StateType at(const AutBase::StateType& s) const { return (s + shift) % NS; }
};
static unsigned rotated(unsigned idx, unsigned shift)
{
  RS::Rule r = RS::rule(idx); unsigned res = RS::count();
  for (unsigned i = 0; i < RS::count(); ++i) { RS::Rule q = RS::rule(i);
    bool m = q.sym == r.sym && q.rank == r.rank && q.parent == (r.parent + shift) % NS;
    for (unsigned k = 0; k < r.rank; ++k) m = m && q.child[k] == (r.child[k] + shift) % NS;
    if (m) res = i; }
  return res;
}
// copy functor: everything (mode 0) or only the nullary rules (mode 1)
struct Pick : public Aut::AbstractCopyF {
  unsigned mode; explicit Pick(unsigned m) : mode(m) {}
  virtual bool operator()(const Aut::Transition& t) { return mode == 0 || t.GetChildren().empty(); }
};

// read a handle back and compare with a value
static void same(const Aut& a, const RS::Val& v, int id)
{
  const unsigned NR = RS::count(); bool got[NR_MAX];
  bool ok = RS::readRules(a, got); CHECK(ok, id + 1);
  for (unsigned i = 0; i < NR; ++i) CHECK(got[i] == v.pres[i], id + 2);
  unsigned m = 0; bool inside = true;
  for (size_t q : a.GetFinalStates()) { bool hit = false; for (unsigned s = 0; s < NS; ++s) { hit |= q == s; m |= (unsigned)(q == s) << s; } inside &= hit; }
  CHECK(inside, id + 3); CHECK(m == v.fin, id + 4);
#if CONTAINS
  for (unsigned i = 0; i < NR; ++i) { RS::Rule r = RS::rule(i); Tuple t; for (unsigned k = 0; k < r.rank; ++k) t.push_back(r.child[k]);
    CHECK(a.ContainsTransition(t, r.sym, r.parent) == v.pres[i], id + 5); }
#endif
}

// Result of an operation whose contract is stated on the level of languages (C03: trimming keeps the language and leaves
// no unreachable state; C02: UnionDisjointStates accepts the union): the property C11 only asks that the result is a function
// of the operand values and that it stays what it was.  So the result is *read* and becomes the shadow value of its handle
// (every later step compares the handle with this snapshot); what is demanded of it here is only what every correct
// implementation yields: nothing invented (got <= hi) and nothing lost that an accepting run needs (lo <= got).  Items in
// between (final states without rules, rules that can never be part of an accepting run) may be kept or dropped.
// -DSTRICT_IMPL (never defined by the registry) restores the comparison with the exact structure the current sources build.
static RS::Val adopt(const Aut& a, RS::Val lo, const RS::Val& hi, int id)
{
#if defined(STRICT_IMPL) && !defined(VS_SELFTEST_2)
  lo = hi;
#endif
  const unsigned NR = RS::count(); RS::Val got; got.clear();
  bool ok = RS::readRules(a, got.pres); bool inside = true;
  for (size_t q : a.GetFinalStates()) { bool hit = false; for (unsigned s = 0; s < NS; ++s) { hit |= q == s; got.fin |= (unsigned)(q == s) << s; } inside &= hit; }
  CHECK(ok && inside, id + 1);
  for (unsigned i = 0; i < NR; ++i) { CHECK(!lo.pres[i] || got.pres[i], id + 2); CHECK(!got.pres[i] || hi.pres[i], id + 3); }
  CHECK((lo.fin & ~got.fin) == 0, id + 4); CHECK((got.fin & ~hi.fin) == 0, id + 5);
  return got;
}
static RS::Val unionOf(const RS::Val& a, const RS::Val& b) { RS::Val r = a; for (unsigned i = 0; i < RS::count(); ++i) r.pres[i] = a.pres[i] | b.pres[i]; r.fin = a.fin | b.fin; return r; }

// read the Union result through its translation maps: which universe rules of the left / right operand it contains
static bool readUnion(bool* L, bool* R, unsigned& finL, unsigned& finR)
{
  const unsigned NR = RS::count();
  bool hasL[NS], hasR[NS]; size_t imgL[NS], imgR[NS];
  for (unsigned s = 0; s < NS; ++s) { auto l = umapL->find(s); hasL[s] = l != umapL->end(); imgL[s] = hasL[s] ? l->second : 0; auto r = umapR->find(s); hasR[s] = r != umapR->end(); imgR[s] = hasR[s] ? r->second : 0; }
  bool ok = true;
  // the two maps are injective and their ranges are disjoint
  for (unsigned s = 0; s < NS; ++s) for (unsigned t = 0; t < NS; ++t) { ok &= !(hasL[s] & hasR[t] & (imgL[s] == imgR[t]));
    if (s != t) { ok &= !(hasL[s] & hasL[t] & (imgL[s] == imgL[t])); ok &= !(hasR[s] & hasR[t] & (imgR[s] == imgR[t])); } }
  for (unsigned i = 0; i < NR; ++i) L[i] = R[i] = false;
  unsigned n = 0;
  for (const Aut::Transition& t : *ures) {
    if (++n > 2 * NR) { ok = false; break; }
    bool matched = false;
    for (unsigned i = 0; i < NR; ++i) { RS::Rule r = RS::rule(i);
      bool shape = t.GetSymbol() == r.sym && t.GetChildren().size() == r.rank;
      bool ml = shape && hasL[r.parent] && t.GetParent() == imgL[r.parent], mr = shape && hasR[r.parent] && t.GetParent() == imgR[r.parent];
      for (unsigned k = 0; k < r.rank; ++k) { ml = ml && hasL[r.child[k]] && t.GetChildren()[k] == imgL[r.child[k]]; mr = mr && hasR[r.child[k]] && t.GetChildren()[k] == imgR[r.child[k]]; }
      ok &= !(ml & L[i]) & !(mr & R[i]); L[i] |= ml; R[i] |= mr; matched |= ml | mr; }
    ok &= matched;
  }
  finL = finR = 0;
  for (size_t q : ures->GetFinalStates()) { bool hit = false;
    for (unsigned s = 0; s < NS; ++s) { bool l = hasL[s] && q == imgL[s], r = hasR[s] && q == imgR[s]; finL |= (unsigned)l << s; finR |= (unsigned)r << s; hit |= l | r; }
    ok &= hit; }
  return ok;
}

static void apply(OpKind op, unsigned i, unsigned j, unsigned a)
{
  const unsigned NR = RS::count();
  switch (op) {
  case ASSIGN: *h[j] = *h[i]; val[j] = val[i]; break;
  case COPY: { Aut* n = new Aut(*h[i], a != 2, a != 1); replace(j, n);
    RS::Val v; v.clear(); if (a != 2) for (unsigned r = 0; r < NR; ++r) v.pres[r] = val[i].pres[r]; if (a != 1) v.fin = val[i].fin; val[j] = v; break; }
  case MOVEC: { Aut* n = new Aut(std::move(*h[i])); replace(i, new Aut()); replace(j, n); val[j] = val[i]; val[i].clear(); break; }   // the moved-from object is only destroyed
  case MOVEA: *h[j] = std::move(*h[i]); replace(i, new Aut()); val[j] = val[i]; val[i].clear(); break;
  // a moved-from object is assigned to again (what std::swap does): copy-assignment resp. move-assignment into it
  case REUSEC: case REUSEM:
#ifdef KF_EXCLUDE_MOVED_FROM_ASSIGN
    vs_assume(0);                          // known finding: assignment to a moved-from object dereferences its null core_
#else
    { Aut* n = new Aut(std::move(*h[i])); replace(j, n);
      if (op == REUSEC) *h[i] = *h[j]; else { Aut tmp(*h[j]); *h[i] = std::move(tmp); }
      val[j] = val[i]; }
#endif
    break;
  case DESTROY: replace(i, new Aut()); val[i].clear(); break;
  case ADD: RS::addRule(*h[i], a); val[i].pres[a] = true;
#ifdef VS_SELFTEST_1
    val[(i + 1) % NH].pres[a] = true;      // seeded wrong shadow: reference semantics (the rule is expected in the other handle too)
#endif
    break;
  case FINAL: h[i]->SetStateFinal(a); val[i].fin |= 1u << a; break;
  case ERASE: h[i]->EraseFinalStates(); val[i].fin = 0; break;
  case CLEAR: h[i]->Clear(); val[i].clear(); break;
  // RemoveUnreachableStates: between the part that takes part in accepting runs and "all rules with a reachable parent, all
  // final states" (what the current sources return); e.g. final states without rules may legally be dropped
  case UNREACH: { Aut* n = new Aut(h[i]->RemoveUnreachableStates()); RS::Val lo = RS::withoutUseless(val[i]), hi = RS::withoutUnreachable(val[i]);
#ifdef VS_SELFTEST_2
    lo = hi = val[i];                      // seeded wrong oracle: nothing is removed
#endif
    RS::Val v = adopt(*n, lo, hi, 40); replace(j, n); val[j] = v; break; }
  case USELESS: { Aut* n = new Aut(h[i]->RemoveUselessStates()); RS::Val v = RS::withoutUseless(val[i]); replace(j, n); val[j] = v; break; }
  case UNIOND:   // precondition of UnionDisjointStates: disjoint state sets (otherwise the call is skipped)
    if ((val[i].used() & val[j].used()) == 0) { Aut* n = new Aut(Aut::UnionDisjointStates(*h[i], *h[j]));
      RS::Val v = adopt(*n, unionOf(RS::withoutUseless(val[i]), RS::withoutUseless(val[j])), unionOf(val[i], val[j]), 50); replace(j, n); val[j] = v; }
    break;
  case UNION: {
    delete ures; delete umapL; delete umapR; umapL = new AutBase::StateToStateMap(); umapR = new AutBase::StateToStateMap();
    ures = new Aut(Aut::Union(*h[i], *h[j], umapL, umapR));
    bool ok = readUnion(usnapL, usnapR, usnapFL, usnapFR); CHECK(ok, 60);
    // the result is the disjoint union of the two operand values, read through the reported maps: nothing invented, and nothing
    // lost that an accepting run needs (as in harness/C02: an implementation that leaves out useless rules or final states
    // without rules is as correct; the complete image rule for rule only with -DSTRICT_IMPL).  What was read is the snapshot
    // the kept result is compared with after every later step.
    { RS::Val loL = RS::withoutUseless(val[i]), loR = RS::withoutUseless(val[j]);
#ifdef STRICT_IMPL
      loL = val[i]; loR = val[j];
#endif
      for (unsigned r = 0; r < NR; ++r) { CHECK((!loL.pres[r] || usnapL[r]) && (!usnapL[r] || val[i].pres[r]), 61); CHECK((!loR.pres[r] || usnapR[r]) && (!usnapR[r] || val[j].pres[r]), 62); }
      CHECK((loL.fin & ~usnapFL) == 0 && (usnapFL & ~val[i].fin) == 0, 63); CHECK((loR.fin & ~usnapFR) == 0 && (usnapFR & ~val[j].fin) == 0, 64); }
    break; }
  case REINDEX: { Rotate f(a); h[i]->ReindexStates(*h[j], f);        // adds the renamed rules and final states of i to j
    for (unsigned r = 0; r < NR; ++r) { unsigned q = rotated(r, a); val[j].pres[q] = val[j].pres[q] | val[i].pres[r]; }
    for (unsigned s = 0; s < NS; ++s) val[j].fin |= ((val[i].fin >> s) & 1u) << ((s + a) % NS);
    break; }
  case COPYFROM: { Pick f(a); h[j]->CopyTransitionsFrom(*h[i], f);   // adds the selected rules of i to j (final states untouched)
    for (unsigned r = 0; r < NR; ++r) val[j].pres[r] = val[j].pres[r] | (val[i].pres[r] & (a == 0 || RS::rule(r).rank == 0));
    break; }
  }
}

struct IsReuse { unsigned code; bool* hit; void operator()(unsigned n, OpKind op, unsigned, unsigned, unsigned) const { if (code == n && op == REUSEC) *hit = true; } };
struct Exec { unsigned code; void operator()(unsigned n, OpKind op, unsigned i, unsigned j, unsigned a) const { if (code == n) apply(op, i, j, a); } };

static void compareAll(int id)
{
  for (unsigned i = 0; i < NH; ++i) same(*h[i], val[i], id + 10 * i);
  if (ures) { bool L[NR_MAX], R[NR_MAX]; unsigned fl, fr; bool ok = readUnion(L, R, fl, fr); CHECK(ok, 70);
    for (unsigned r = 0; r < RS::count(); ++r) { CHECK(L[r] == usnapL[r], 71); CHECK(R[r] == usnapR[r], 72); }
    CHECK(fl == usnapFL, 73); CHECK(fr == usnapFR, 74); }
}

extern "C" void harness(void)
{
  const unsigned NR = RS::count();
  // ---- inputs
  bool p0[NR_MAX], f0[NS]; unsigned code[STEPS], ncodes[STEPS];
#if PRE == 3
  for (unsigned r = 0; r < NR; ++r) { RS::Rule u = RS::rule(r); bool lo = u.parent < NS - 1, hi = u.parent == NS - 1;
    for (unsigned k = 0; k < u.rank; ++k) { lo = lo && u.child[k] < NS - 1; hi = hi && u.child[k] == NS - 1; }
    p0[r] = (lo || hi) ? vs_bit() : false; }                       // rules mixing the two state sets are initially absent
  for (unsigned s = 0; s < NS; ++s) f0[s] = vs_bit();
#else
  for (unsigned r = 0; r < NR; ++r) p0[r] = r < INITR ? vs_bit() : false;
  for (unsigned s = 0; s < NS; ++s) f0[s] = INITF ? vs_bit() : false;
#endif
  for (unsigned k = 0; k < STEPS; ++k) { ncodes[k] = enumerate(FAM[k], Count()); unsigned pw = 1; while (pw < ncodes[k]) pw <<= 1; code[k] = vs_range(pw); }
  // ---- initial handles
  ures = 0; umapL = umapR = 0;
  for (unsigned i = 0; i < NH; ++i) { h[i] = new Aut(); val[i].clear(); }
#if PRE == 3
  for (unsigned r = 0; r < NR; ++r) if (p0[r]) { unsigned to = RS::rule(r).parent == NS - 1; RS::addRule(*h[to], r); val[to].pres[r] = true; }
  for (unsigned s = 0; s < NS; ++s) if (f0[s]) { unsigned to = s == NS - 1; h[to]->SetStateFinal(s); val[to].fin |= 1u << s; }
#else
  for (unsigned r = 0; r < NR; ++r) if (p0[r]) { RS::addRule(*h[0], r); val[0].pres[r] = true; }
  for (unsigned s = 0; s < NS; ++s) if (f0[s]) { h[0]->SetStateFinal(s); val[0].fin |= 1u << s; }
  for (unsigned i = 1; i < (PRE == 0 ? 1 : PRE == 1 ? 2 : NH); ++i) { *h[i] = *h[0]; val[i] = val[0]; }
#endif
  compareAll(100);
#ifdef KF_EXPECT_MOVED_FROM_ASSIGN
  { unsigned c = code[0]; if (c >= ncodes[0]) c -= ncodes[0]; bool hit = false; IsReuse q; q.code = c; q.hit = &hit; enumerate(FAM[0], q); vs_assume(hit); }   // only histories that start with the known shape
#endif
  // ---- symbolic history
  for (unsigned k = 0; k < STEPS; ++k) {
    unsigned c = code[k]; if (c >= ncodes[k]) c -= ncodes[k];     // spare codes of the power-of-two range repeat the first calls
    Exec e; e.code = c; enumerate(FAM[k], e);
    compareAll(100 * (k + 2));
  }
  // ---- verdicts of operations after all that activity depend on the value only
  for (unsigned i = 0; i < NH; ++i) {
    CHECK(h[i]->IsLangEmpty() == ((RS::productive(val[i]) & val[i].fin) == 0), 80);
    Aut t = h[i]->RemoveUselessStates(); same(t, RS::withoutUseless(val[i]), 80);
    same(*h[i], val[i], 90);
  }
#ifdef VS_OBSERVE
  for (unsigned i = 0; i < NH; ++i) { unsigned long m = 0, n = 0; for (const Aut::Transition& t : *h[i]) { m |= 1ul << RS::position(t); ++n; } vs_observe(m); vs_observe(n);
    unsigned f = 0; for (size_t q : h[i]->GetFinalStates()) f |= 1u << q; vs_observe(f); }
  vs_observe(ures != 0); if (ures) { unsigned long n = 0; for (const Aut::Transition& t : *ures) ++n; vs_observe(n); vs_observe(ures->GetFinalStates().size()); }
#endif
#ifdef VS_WITNESS
  vs_reach();
#endif
}
