// C10: Union / UnionDisjointStates / Intersection / Reverse / RemoveUnreachableStates / RemoveUselessStates /
// GetCandidateTree of ExplicitFiniteAut on symbolic NFAs; the result is observed through DumpToString (decoder in
// fa_decode.h) and its language compared with the language the property demands (subset-construction oracle
// FA::included in both directions against textbook constructions on bit masks).
// Results are decoded independently of the state numbers the library chose for them (fa_decode.h, free = true): all these
// operations except UnionDisjointStates hand out translation maps / build a new automaton, so the numbering of the result is
// not part of the contract; only its language is compared.  Operands are re-read with their own numbers (they must be unchanged).
#include <vata/explicit_finite_aut.hh>
#include "fa_universe.h"
#include "fa_decode.h"
using namespace VATA;
#ifndef NA
#define NA 2
#endif
#ifndef NB
#define NB 1
#endif
#ifndef OP
#define OP 0
#endif
#ifndef A_EDGES
#define A_EDGES ~0ul
#endif
#ifndef A_START
#define A_START ~0u
#endif
#ifndef A_STARTFIX
#define A_STARTFIX 0
#endif
#ifndef A_FIN
#define A_FIN ~0u
#endif
#ifndef A_FINFIX
#define A_FINFIX 0
#endif
#ifndef B_EDGES
#define B_EDGES ~0ul
#endif
#ifndef B_START
#define B_START ~0u
#endif
#ifndef B_STARTFIX
#define B_STARTFIX 0
#endif
#ifndef B_FIN
#define B_FIN ~0u
#endif
#ifndef B_FINFIX
#define B_FINFIX 0
#endif
// OP: 0 Union (with translation maps, as the CLI), 1 UnionDisjointStates, 2 Intersection, 3 Reverse,
//     4 RemoveUnreachableStates, 5 RemoveUselessStates, 6 GetCandidateTree, 7 Reverse + GetCandidateTree
#ifndef PRUNE
#define PRUNE 0
#endif
// PRUNE: what the CLI switches -p / -s do to the operands before the operation: 1 RemoveUnreachableStates, 2 RemoveUselessStates
#define BINARY (OP <= 2)
#if OP == 0 || OP == 1
enum { NR = NA + NB };
#elif OP == 2
enum { NR = NA * NB };
#else
enum { NR = NA };
#endif

extern "C" void harness(void)
{
  FA::Shape sa = { A_EDGES, A_START, A_STARTFIX, A_FIN, A_FINFIX };
  FA::SymFA<NA> A; A.draw(sa);
#if BINARY
  FA::Shape sb = { B_EDGES, B_START, B_STARTFIX, B_FIN, B_FINFIX };
  FA::SymFA<NB> B; B.draw(sb);
#endif
#ifdef KF_EXCLUDE
  KF_EXCLUDE
#endif
  ExplicitFiniteAut a; FA::Alphabet al = FA::registerAlphabet(a);
  A.build(a, 0, al.sym, al.startSym);
#if BINARY
  ExplicitFiniteAut b;
  B.build(b, OP == 1 ? NA : 0, al.sym, al.startSym);   // UnionDisjointStates requires disjoint state numbers; the others get two automata numbered from 0
#endif
#if PRUNE == 1        // cli/vata.cc: autInput = autInput.RemoveUnreachableStates()
  a = a.RemoveUnreachableStates();
#if BINARY
  b = b.RemoveUnreachableStates();
#endif
#elif PRUNE == 2
  a = a.RemoveUselessStates();
#if BINARY
  b = b.RemoveUselessStates();
#endif
#endif
  FA::SymFA<NR> R; bool dec;

#if OP == 0          // ---- Union: exactly L(A) u L(B)
  AutBase::StateToStateMap m1, m2;
  ExplicitFiniteAut res = ExplicitFiniteAut::Union(a, b, &m1, &m2);
  dec = FA::decode<NR>(res, R, true); CHECK(dec, 1);
  FA::SymFA<NA + NB> P = FA::unionOf(A, B);
  bool sub = FA::included<NR, NA + NB>(R, P), supA = FA::included<NA, NR>(A, R), supB = FA::included<NB, NR>(B, R);
#ifdef VS_SELFTEST_1
  supB = supB && !(B.start[0] && B.fin[0]);      // seeded wrong expectation: pretends the empty word of B is lost
#endif
  CHECK(sub, 2); CHECK(supA, 3); CHECK(supB, 4);
#elif OP == 1        // ---- UnionDisjointStates: exactly L(A) u L(B), states keep their numbers
  ExplicitFiniteAut res = ExplicitFiniteAut::UnionDisjointStates(a, b);
  dec = FA::decode<NR>(res, R); CHECK(dec, 1);
  FA::SymFA<NA + NB> P = FA::unionOf(A, B);
  bool sub = FA::included<NR, NA + NB>(R, P), supA = FA::included<NA, NR>(A, R), supB = FA::included<NB, NR>(B, R);
#ifdef VS_SELFTEST_1
  supB = supB && !(B.start[0] && B.fin[0]);
#endif
  CHECK(sub, 2); CHECK(supA, 3); CHECK(supB, 4);
#elif OP == 2        // ---- Intersection: exactly L(A) n L(B)
  AutBase::ProductTranslMap pm;
  ExplicitFiniteAut res = ExplicitFiniteAut::Intersection(a, b, &pm);
  dec = FA::decode<NR>(res, R, true); CHECK(dec, 1);
  FA::SymFA<NA * NB> P = FA::productOf(A, B);
  bool subA = FA::included<NR, NA>(R, A), subB = FA::included<NR, NB>(R, B), sup = FA::included<NA * NB, NR>(P, R);
#ifdef VS_SELFTEST_1
  sup = sup && !(A.start[0] && A.fin[0] && B.start[0] && B.fin[0] && A.edge[0][0][0]);   // seeded wrong expectation
#endif
  CHECK(subA, 2); CHECK(subB, 3); CHECK(sup, 4);
#elif OP == 3        // ---- Reverse: exactly the mirror images
  ExplicitFiniteAut res = a.Reverse();
  dec = FA::decode<NR>(res, R, true); CHECK(dec, 1);
  FA::SymFA<NA> P = FA::mirrorOf(A);
  bool sub = FA::included<NR, NA>(R, P), sup = FA::included<NA, NR>(P, R);
#ifdef VS_SELFTEST_1
  sup = sup && !(A.edge[0][0][1] && A.start[0] && A.fin[1]);   // seeded wrong expectation: word "a" not mirrored
#endif
  CHECK(sub, 2); CHECK(sup, 3);
#elif OP == 4 || OP == 5   // ---- RemoveUnreachableStates / RemoveUselessStates: same language
  ExplicitFiniteAut res = OP == 4 ? a.RemoveUnreachableStates() : a.RemoveUselessStates();
  dec = FA::decode<NR>(res, R, true); CHECK(dec, 1);
  bool sub = FA::included<NR, NA>(R, A), sup = FA::included<NA, NR>(A, R);
#ifdef VS_SELFTEST_1
  sup = sup && !(A.start[0] && A.fin[0]);       // seeded wrong expectation: pretends the empty word is lost
#endif
  CHECK(sub, 2); CHECK(sup, 3);
#ifdef STRICT_IMPL   // never defined.  The property (and the undocumented header) only asks both calls to keep the language.
  // What follows describes the current implementation: the result is the sub-automaton induced by the reachable (useful)
  // states under the SAME state numbers (both calls take a translation-map out-parameter, so renumbering is legal; keeping a
  // harmless item such as an unreachable final state does not change the language either).
  { FA::SymFA<NR> Rs; CHECK(FA::decode<NR>(res, Rs), 1);              // decoded with the operand's own numbers
    const unsigned reach = FA::reachable(A), useful = reach & FA::coreachable(A), keep = OP == 4 ? reach : useful;
    // every transition and final state that is left lies inside the reachable (useful) part and stems from the operand
    for (unsigned q = 0; q < NA; ++q) { CHECK(!Rs.fin[q] || (A.fin[q] && ((keep >> q) & 1)), 4);
      CHECK(!Rs.start[q] || (A.start[q] && ((keep >> q) & 1)), 6);
      for (unsigned x = 0; x < FA::NSYM; ++x) for (unsigned r = 0; r < NA; ++r) CHECK(!Rs.edge[q][x][r] || (A.edge[q][x][r] && ((keep >> q) & 1) && ((keep >> r) & 1)), 5); } }
#endif
#elif OP == 7        // ---- Reverse, then GetCandidateTree of the mirror automaton (its start states carry no start symbols)
  ExplicitFiniteAut rev = a.Reverse();
  ExplicitFiniteAut res = rev.GetCandidateTree();
  dec = FA::decode<NR>(res, R, true); CHECK(dec, 1);
  FA::SymFA<NA> P = FA::mirrorOf(A);
  bool sub = FA::included<NR, NA>(R, P); bool emptyR = FA::langEmpty(R), emptyA = FA::langEmpty(A);
#ifdef VS_SELFTEST_1
  emptyA = emptyA || (A.start[0] && A.edge[0][0][0] && A.fin[0]);   // seeded wrong oracle
#endif
  CHECK(sub, 2); CHECK(emptyR == emptyA, 3);
#elif OP == 6        // ---- GetCandidateTree: L(res) subseteq L(A), empty only if L(A) is empty
  ExplicitFiniteAut res = a.GetCandidateTree();
  dec = FA::decode<NR>(res, R, true); CHECK(dec, 1);
  bool sub = FA::included<NR, NA>(R, A); bool emptyR = FA::langEmpty(R), emptyA = FA::langEmpty(A);
#ifdef VS_SELFTEST_1
  emptyA = emptyA || (A.start[0] && A.edge[0][0][0] && A.fin[0]);   // seeded wrong oracle
#endif
  CHECK(sub, 2); CHECK(emptyR == emptyA, 3);
#endif
  // operands unchanged (with PRUNE: still the same language)
  { FA::SymFA<NA> A2; CHECK(FA::decode<NA>(a, A2), 20);
#if PRUNE
    CHECK((FA::sameLang<NA, NA>(A2, A)), 21);
#else
    CHECK(A2.edgeMask() == A.edgeMask() && FA::startMask(A2) == FA::startMask(A) && FA::finMask(A2) == FA::finMask(A), 21);
#endif
  }
#if BINARY && OP != 1
  { FA::SymFA<NB> B2; CHECK(FA::decode<NB>(b, B2), 22);
#if PRUNE
    CHECK((FA::sameLang<NB, NB>(B2, B)), 23);
#else
    CHECK(B2.edgeMask() == B.edgeMask() && FA::startMask(B2) == FA::startMask(B) && FA::finMask(B2) == FA::finMask(B), 23);
#endif
  }
#elif BINARY          // UnionDisjointStates: B lives on the states NA..NA+NB-1
  { FA::SymFA<NA + NB> B2; CHECK((FA::decode<NA + NB>(b, B2)), 22); FA::SymFA<NA> E; E.clear(); FA::SymFA<NA + NB> B3 = FA::unionOf(E, B);
#if PRUNE
    CHECK((FA::sameLang<NA + NB, NA + NB>(B2, B3)), 23);
#else
    CHECK(B2.edgeMask() == B3.edgeMask() && FA::startMask(B2) == FA::startMask(B3) && FA::finMask(B2) == FA::finMask(B3), 23);
#endif
  }
#endif
#ifdef VS_OBSERVE
  vs_observe(dec); vs_observe(R.edgeMask()); vs_observe(FA::startMask(R)); vs_observe(FA::finMask(R)); vs_observe(FA::langEmpty(R)); vs_observe(FA::reachable(A));
#endif
#ifdef VS_WITNESS
  vs_reach();
#endif
}
