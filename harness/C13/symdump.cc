// C13 (load/dump of the BDD bottom-up encoding in "symbolic" mode): rules whose symbols are cubes over the 16 symbol
// variables (strings over 0/1/X) are loaded (LoadFromAutDesc / LoadFromString, params "symbolic"), dumped
// (DumpToString, params "symbolic"), and the dumped text must parse, load again in the same mode and denote the same
// rules and final states under the same state names.  The MTBDD may split or join cubes, so rules are compared by
// meaning: for every children tuple, parent and every assignment of the variables that the pool's cubes test (the
// others are don't care everywhere), "some rule covers the assignment" must agree.
#include <vata/bdd_bu_tree_aut.hh>
#include <vata/parsing/timbuk_parser.hh>
#include <vata/serialization/timbuk_serializer.hh>
#include <vata/util/aut_description.hh>
#include "vs.h"
using VATA::Util::AutDescription;
#ifndef NST
#define NST 2
#endif
#ifndef VIA_TEXT
#define VIA_TEXT 0      // 1: the first load goes through LoadFromString (serialised text) instead of LoadFromAutDesc
#endif
static const char* const STN[3] = {"q", "p", "r"};
// cube pool: trailing don't cares, leading don't cares, all don't care, fully tested ends
enum { NCUBE = 4, NREL = 5 };
static const char* const CUBE[NCUBE] = {"XXXXXXXXXXXXXXXX", "00X1XXXXXXXXXXXX", "1XXXXXXXXXXXXXX0", "XXXXXXXXXXXXXXX1"};
static const unsigned REL[NREL] = {0, 1, 2, 3, 15};       // the variables tested by some cube of the pool
static bool covers(const std::string& cube, unsigned asg) {   // asg: bit k = value of variable REL[k]; a cube of the wrong length covers nothing
  if (cube.size() != 16) return false;
  for (unsigned k = 0; k < NREL; ++k) { char c = cube[REL[k]]; if (c != 'X' && c != (((asg >> k) & 1) ? '1' : '0')) return false; }
  for (unsigned i = 0; i < 16; ++i) { bool rel = false; for (unsigned k = 0; k < NREL; ++k) rel = rel || REL[k] == i; if (!rel && cube[i] != 'X') return false; }
  return true;
}
// meaning of a description: bit (asg) of M[arity kind][child][parent]
struct Meaning { unsigned leaf[NST]; unsigned un[NST][NST]; unsigned fin; bool alien;
  void of(const AutDescription& d) {
    for (unsigned s = 0; s < NST; ++s) { leaf[s] = 0; for (unsigned t = 0; t < NST; ++t) un[s][t] = 0; } fin = 0; alien = false;
    for (const AutDescription::Transition& t : d.transitions) {
      int p = -1, c = -1; for (int s = 0; s < NST; ++s) { if (t.third == STN[s]) p = s; if (t.first.size() == 1 && t.first[0] == STN[s]) c = s; }
      if (p < 0 || t.first.size() > 1 || (t.first.size() == 1 && c < 0) || t.second.size() != 16) { alien = true; continue; }
      unsigned m = 0; for (unsigned a = 0; a < (1u << NREL); ++a) if (covers(t.second, a)) m |= 1u << a;
      if (t.first.empty()) leaf[p] |= m; else un[c][p] |= m; }
    for (const std::string& f : d.finalStates) { bool known = false; for (int s = 0; s < NST; ++s) if (f == STN[s]) { fin |= 1u << s; known = true; } if (!known) alien = true; }
  }
  bool operator==(const Meaning& o) const { bool e = fin == o.fin && alien == o.alien; for (unsigned s = 0; s < NST; ++s) { e = e && leaf[s] == o.leaf[s]; for (unsigned t = 0; t < NST; ++t) e = e && un[s][t] == o.un[s][t]; } return e; }
};
extern "C" void harness(void)
{
  AutDescription d; d.name = "A";
  for (int s = 0; s < NST; ++s) d.states.insert(STN[s]);
  bool fin[NST]; for (int s = 0; s < NST; ++s) { fin[s] = vs_bit(); if (fin[s]) d.finalStates.insert(STN[s]); }
  for (int c = 0; c < NCUBE; ++c) for (int s = 0; s < NST; ++s) if (((LEAFMASK >> (c * NST + s)) & 1) && vs_bit()) d.transitions.insert(AutDescription::Transition(AutDescription::StateTuple(), CUBE[c], STN[s]));
  for (int c = 0; c < NCUBE; ++c) for (int s = 0; s < NST; ++s) for (int t = 0; t < NST; ++t) if (((UNMASK >> ((c * NST + s) * NST + t)) & 1) && vs_bit()) d.transitions.insert(AutDescription::Transition(AutDescription::StateTuple(1, STN[s]), CUBE[c], STN[t]));
  Meaning md; md.of(d);
  // states that occur in no rule and are not final are not part of an automaton: the final states of d that the dump must show are all of them
  VATA::Parsing::TimbukParser parser; VATA::Serialization::TimbukSerializer ser;
  VATA::BDDBottomUpTreeAut aut; VATA::AutBase::StateDict dict;
#if VIA_TEXT
  aut.LoadFromString(parser, ser.Serialize(d), dict, "symbolic");
#else
  aut.LoadFromAutDesc(d, dict, "symbolic");
#endif
  std::string text = aut.DumpToString(ser, dict, "symbolic");
  AutDescription e = parser.ParseString(text);            // an exception is a violation: the dump must be loadable text
  Meaning me; me.of(e);
#ifdef VS_SELFTEST_1
  md.leaf[0] &= ~1u;                                       // seeded wrong expectation
#endif
  CHECK(!me.alien, 1);                                     // every dumped rule is over the known states, has rank <= 1 and a 16-character symbol
  CHECK(me == md, 2);                                      // same rules and final states under the same state names
  VATA::BDDBottomUpTreeAut again; VATA::AutBase::StateDict dict2;
  again.LoadFromString(parser, text, dict2, "symbolic"); // loading the dumped text again must succeed ...
  AutDescription f = parser.ParseString(again.DumpToString(ser, dict2, "symbolic"));
  Meaning mf; mf.of(f);
  CHECK(mf == md, 3);                                      // ... and yield the same rules and final states
#ifdef VS_OBSERVE
  vs_observe(e.transitions.size()); vs_observe(me.fin); vs_observe(f.transitions.size());
#endif
#ifdef VS_WITNESS
  vs_reach();
#endif
}
