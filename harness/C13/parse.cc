// C13 (sub-claim): TimbukParser::ParseString on a text whose tail is symbolic: TAIL_K characters, each drawn from a small
// alphabet that contains a representative of every character class the parser distinguishes (all six white-space
// characters, '(', ')', ',', '-', '>', ':', a digit, letters that are declared state/symbol names, another letter).  The parser must either return or
// throw std::runtime_error; every memory-safety / UB obligation of the engine applies to the parser code.  On success
// the result must be well-formed: every transition has a non-empty symbol and a non-empty, blank-free right-hand side.
#include <vata/parsing/timbuk_parser.hh>
#include <vata/util/aut_description.hh>
#include "vs.h"
#ifndef TAIL_K
#define TAIL_K 4
#endif
#ifndef HEAD_SEL
#define HEAD_SEL 0
#endif
// 16 characters: every white-space character of the "C" locale, every punctuation character the format uses, a digit,
// the declared names and an undeclared letter
#ifndef ALPHA_N
#define ALPHA_N 16
#endif
static const char ALPHA[16] = {' ', '\n', '(', ')', ',', '-', '>', 'q', '\t', '\r', '\f', '\v', ':', '1', 'a', 'x'};
struct Frame_ { const char* head; const char* tail; };
static const Frame_ FRAMES[] = {
  {"Ops a f\nAutomaton A\nStates q\nFinal States q\nTransitions\n", ""},             // 0: the free part is read in transition mode
  {"Ops a\nAutomaton A\nStates q\nFinal States q\nTransitions\na -> q\nf(q", ""},     // 1: ... continues a transition
  {"Ops a\nAutomaton A\nStates q\nFinal States ", "\nTransitions\n"},                 // 2: ... is in the Final States line
  {"Ops ", "\nAutomaton A\nStates q\nFinal States q\nTransitions\na -> q\n"},         // 3: ... is in the Ops line
  {"Ops a\nAutomaton A\nStates ", "\nFinal States q\nTransitions\na -> q\n"},         // 4: ... is in the States line
  {"Ops a\nAutomaton ", "\nStates q\nFinal States q\nTransitions\na -> q\n"},         // 5: ... is in the Automaton line
  {"Ops a\nAutomaton A\nStates q\nFinal States q\nTransitions\na", "-> q\n"},         // 6: ... sits between the symbol of a rule and its arrow: a() a( ) a () ...
  {"Ops a\nAutomaton A\nStates q\n", "Transitions\na -> q\n"},                        // 7: ... is a line of its own before the Transitions keyword
};
extern "C" void harness(void)
{
  unsigned idx[TAIL_K]; for (int i = 0; i < TAIL_K; ++i) idx[i] = vs_range(ALPHA_N);
  std::string text(FRAMES[HEAD_SEL].head);
  for (int i = 0; i < TAIL_K; ++i) text.push_back(ALPHA[idx[i]]);
  text += FRAMES[HEAD_SEL].tail;
  VATA::Parsing::TimbukParser parser;
  vs_allow_throw(1);
  VATA::Util::AutDescription d = parser.ParseString(text);
  vs_allow_throw(0);
  unsigned ntrans = 0; bool wellformed = true;
  bool oneEmptyChild = false;
  for (const auto& t : d.transitions) { ++ntrans; wellformed = wellformed && !t.second.empty() && !t.third.empty(); for (char c : t.third) wellformed = wellformed && !(c == ' ' || (c >= '\t' && c <= '\r'));
    if (t.first.size() == 1 && t.first[0].empty()) oneEmptyChild = true; }
#ifdef VS_SELFTEST_1
  wellformed = wellformed && ntrans == 0;     // seeded wrong expectation: some tail yields a transition
#endif
  CHECK(wellformed, 1);
  // "nullary rules written with or without parentheses": a pair of parentheses that holds nothing but white space is the
  // nullary notation; a successful parse never turns it into a unary rule over a state with the empty name
  CHECK(!oneEmptyChild, 5);
#ifdef VS_OBSERVE
  vs_observe(ntrans); vs_observe(d.states.size()); vs_observe(d.finalStates.size());
#endif
#ifdef VS_WITNESS
  vs_reach();
#endif
}
