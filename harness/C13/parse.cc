// C13 (sub-claim): TimbukParser::ParseString on a text whose tail is symbolic: TAIL_K characters, each drawn from a small
// alphabet that contains a representative of every character class the parser distinguishes (blank, newline, '(',
// ')', ',', '-', '>', a letter that is a declared state/symbol, another letter).  The parser must either return or
// throw std::runtime_error; every memory-safety / UB obligation of the engine applies to the parser code.  On success
// the result must be well-formed: every transition has a non-empty symbol and a non-empty, blank-free right-hand side.
#include <vata/parsing/timbuk_parser.hh>
#include <vata/util/aut_description.hh>
#include "vs.h"
#ifndef TAIL_K
#define TAIL_K 4
#endif
#ifndef HEAD_SEL
#define HEAD_SEL 0
#endif
static const char ALPHA[8] = {' ', '\n', '(', ')', ',', '-', '>', 'q'};
static const char* const HEADS[] = {
  "Ops a f\nAutomaton A\nStates q\nFinal States q\nTransitions\n",   // tail is read in transition mode
  "Ops a\nAutomaton A\nStates q\nFinal States q\nTransitions\na -> q\nf(q",   // tail continues a transition
  "Ops a\nAutomaton A\nStates q\nFinal States ",                         // tail is read in header mode
};
extern "C" void harness(void)
{
  unsigned idx[TAIL_K]; for (int i = 0; i < TAIL_K; ++i) idx[i] = vs_range(8);
  std::string text(HEADS[HEAD_SEL]);
  for (int i = 0; i < TAIL_K; ++i) text.push_back(ALPHA[idx[i]]);
#if HEAD_SEL == 2
  text += "\nTransitions\n";
#endif
  VATA::Parsing::TimbukParser parser;
  vs_allow_throw(1);
  VATA::Util::AutDescription d = parser.ParseString(text);
  vs_allow_throw(0);
  unsigned ntrans = 0; bool wellformed = true;
  for (const auto& t : d.transitions) { ++ntrans; wellformed = wellformed && !t.second.empty() && !t.third.empty(); for (char c : t.third) wellformed = wellformed && c != ' ' && c != '\n'; }
#ifdef VS_SELFTEST_1
  wellformed = wellformed && ntrans == 0;     // seeded wrong expectation: some tail yields a transition
#endif
  CHECK(wellformed, 1);
#ifdef VS_OBSERVE
  vs_observe(ntrans); vs_observe(d.states.size()); vs_observe(d.finalStates.size());
#endif
#ifdef VS_WITNESS
  vs_reach();
#endif
}
