// C13 (round trip): for every automaton description over a concrete pool of names (presence bit per symbol, state,
// final state and transition) TimbukParser::ParseString(TimbukSerializer::Serialize(d)) gives back the same final states
// and transitions (AutDescription::operator==); the declared symbols / states and the name only with -DSTRICT_IMPL.
// Then the description is loaded into an ExplicitTreeAut (LoadFromAutDesc), dumped (DumpToAutDesc) with the same
// dictionaries and must again denote the same rules and final states (LOADDUMP=1).
#include <vata/parsing/timbuk_parser.hh>
#include <vata/serialization/timbuk_serializer.hh>
#include <vata/util/aut_description.hh>
#include <vata/explicit_tree_aut.hh>
#include "vs.h"
#ifndef NST
#define NST 2
#endif
#ifndef LOADDUMP
#define LOADDUMP 0
#endif
#ifndef LD_ALPHA
#define LD_ALPHA 0
#endif
#ifndef LD_ENC
#define LD_ENC 0
#endif
#ifndef LD_AGAIN
#define LD_AGAIN (LD_ENC == 1)
#endif
#if LD_ENC == 1
#include <vata/explicit_finite_aut.hh>
#define LD_AUT VATA::ExplicitFiniteAut
#elif LD_ENC == 2
#include <vata/bdd_bu_tree_aut.hh>
#define LD_AUT VATA::BDDBottomUpTreeAut
#elif LD_ENC == 3
#include <vata/bdd_td_tree_aut.hh>
#define LD_AUT VATA::BDDTopDownTreeAut
#endif
using VATA::Util::AutDescription;
#ifdef SHARED_NAMES   // a state is called like the nullary symbol and another one like the unary symbol (names are per section)
static const char* const STN[3] = {"a", "f", "r"};
#else
static const char* const STN[3] = {"q", "p1", "r"};
#endif
// symbol pool: name, rank
static const char* const SYN[3] = {"a", "f", "g2"}; static const int SYR[3] = {0, 1, 2};
#ifndef NSY
#define NSY 2
#endif
extern "C" void harness(void)
{
  bool symDecl[NSY], stDecl[NST], fin[NST];
#ifdef DECL_FIXED      // every symbol and state is declared (the declaration lists are not part of the property; saves NSY + NST free bits)
  for (int i = 0; i < NSY; ++i) symDecl[i] = true;
  for (int i = 0; i < NST; ++i) stDecl[i] = true;
#else
  for (int i = 0; i < NSY; ++i) symDecl[i] = vs_bit();
  for (int i = 0; i < NST; ++i) stDecl[i] = vs_bit();
#endif
  for (int i = 0; i < NST; ++i) fin[i] = vs_bit();
  // transitions: leaf a->s (with or without parentheses is a parser matter, the serializer writes none), f(s)->t, g2(s,t)->u restricted
  bool tl[NST]; for (int s = 0; s < NST; ++s) tl[s] = vs_bit();
  bool tf[NST][NST]; for (int s = 0; s < NST; ++s) for (int t = 0; t < NST; ++t) tf[s][t] = (NSY > 1) ? vs_bit() : false;
  bool tg[NST]; for (int s = 0; s < NST; ++s) tg[s] = (NSY > 2) ? vs_bit() : false;      // g2(s, q) -> s
  bool tb[NST]; for (int s = 0; s < NST; ++s) tb[s] = (LD_ENC == 1) ? vs_bit() : false;  // finite automata: a second start symbol  b -> s
  AutDescription d; d.name = "A";
  if (LD_ENC == 1) d.symbols.insert(AutDescription::Symbol("b", 0));
  for (int s = 0; s < NST; ++s) if (tb[s]) d.transitions.insert(AutDescription::Transition(AutDescription::StateTuple(), "b", STN[s]));
  for (int i = 0; i < NSY; ++i) if (symDecl[i]) d.symbols.insert(AutDescription::Symbol(SYN[i], SYR[i]));
  for (int i = 0; i < NST; ++i) if (stDecl[i]) d.states.insert(STN[i]);
  for (int i = 0; i < NST; ++i) if (fin[i]) d.finalStates.insert(STN[i]);
  for (int s = 0; s < NST; ++s) if (tl[s]) d.transitions.insert(AutDescription::Transition(AutDescription::StateTuple(), SYN[0], STN[s]));
  for (int s = 0; s < NST; ++s) for (int t = 0; t < NST; ++t) if (tf[s][t]) d.transitions.insert(AutDescription::Transition(AutDescription::StateTuple(1, STN[s]), SYN[1], STN[t]));
  for (int s = 0; s < NST; ++s) if (tg[s]) { AutDescription::StateTuple tup; tup.push_back(STN[s]); tup.push_back(STN[0]); d.transitions.insert(AutDescription::Transition(tup, SYN[2], STN[s])); }

  VATA::Serialization::TimbukSerializer ser;
  std::string text = ser.Serialize(d);
  VATA::Parsing::TimbukParser parser;
  AutDescription e = parser.ParseString(text);          // an exception here is a violation (vs_allow_throw is off)
  bool same = (e.finalStates == d.finalStates) && (e.transitions == d.transitions);
#ifdef VS_SELFTEST_1
  same = same && e.transitions.size() < 2;             // seeded wrong expectation
#endif
  CHECK(same, 1);
  // The property (and AutDescription::operator==) speaks of final states and rules only.  The declaration lists and the
  // automaton name are not part of it: a serializer that also declares the states / symbols that are used but were not
  // declared, or omits unused declarations, or a parser that collects the used names, is equally correct.  The exact
  // round trip of these three components (what AutDescription::StrictlyEqual adds) is an artefact of the current sources.
#ifdef STRICT_IMPL   // never defined by the registry
  CHECK(e.symbols == d.symbols, 2);
  CHECK(e.states == d.states, 3);
  CHECK(e.name == d.name, 4);
#endif
#if LOADDUMP && LD_ENC != 0
  { // load + dump through one of the other encodings (1 finite automaton: leaf rules are start rules; 2 / 3 BDD bottom-up /
    // top-down, explicit symbol mode): text out, text in, same rules and final states under the same state names
    LD_AUT aut; VATA::AutBase::StateDict stateDict;
#if LD_ENC == 3        // (the top-down encoding declares LoadFromAutDesc but defines only LoadFromString)
    aut.LoadFromString(parser, text, stateDict);
#else
    aut.LoadFromAutDesc(e, stateDict);
#endif
    std::string dumped = aut.DumpToString(ser, stateDict);
    AutDescription f = parser.ParseString(dumped);
    CHECK(f.transitions == d.transitions, 10);
    CHECK(f.finalStates == d.finalStates, 11);
#if LD_AGAIN
    LD_AUT again; VATA::AutBase::StateDict dict2;        // and once more from the dumped text through LoadFromString
    again.LoadFromString(parser, dumped, dict2);
    AutDescription g = parser.ParseString(again.DumpToString(ser, dict2));
    CHECK(g.transitions == d.transitions, 12);
    CHECK(g.finalStates == d.finalStates, 13);
#endif
  }
#elif LOADDUMP
  { // load + dump through the explicit encoding: same rules and final states under the same state names
    VATA::ExplicitTreeAut aut;
    VATA::ExplicitTreeAut::StateDict stateDict;
#if LD_ALPHA   // the automaton gets a COPY of an alphabet that already knows one symbol (and has handed out one number)
    VATA::ExplicitTreeAut first; VATA::ExplicitTreeAut::StateDict firstDict;
    { AutDescription one; one.name = "B"; one.symbols.insert(AutDescription::Symbol(SYN[0], SYR[0])); one.states.insert(STN[0]);
      one.transitions.insert(AutDescription::Transition(AutDescription::StateTuple(), SYN[0], STN[0])); first.LoadFromAutDesc(one, firstDict); }
    typedef VATA::ExplicitTreeAut::OnTheFlyAlphabet OTF;
    VATA::ExplicitTreeAut::AlphabetType copy(new OTF(static_cast<const OTF&>(*first.GetAlphabet())));
    aut.SetAlphabet(copy);
#endif
    aut.LoadFromAutDesc(e, stateDict);
    AutDescription f = aut.DumpToAutDesc(stateDict);
    // rules are kept exactly; final states exactly (states that occur nowhere are not part of an automaton)
    CHECK(f.transitions == d.transitions, 10);
    CHECK(f.finalStates == d.finalStates, 11);
  }
#endif
#ifdef VS_OBSERVE
  vs_observe(text.size()); vs_observe(e.transitions.size()); vs_observe(e.finalStates.size());
#endif
#ifdef VS_WITNESS
  vs_reach();
#endif
}
