// C09: ExplicitFiniteAut::CheckInclusion under the algorithm selection SEL on a symbolic pair of NFAs (A over NA states,
// B over NB states, letters 0..FA_NSYM-1), operands prepared exactly as cli/operations.hh does (each automaton numbered
// from 0 as if loaded from its own file, then AutBase::SanitizeAutsForInclusion), against the subset-construction oracle
// FA::included.  Solver variables: edge / start / final bits of A and B inside the shapes given by the configuration.
#include <vata/explicit_finite_aut.hh>
#include <vata/incl_param.hh>
#include "fa_universe.h"
using namespace VATA;
#ifndef NA
#define NA 1
#endif
#ifndef NB
#define NB 2
#endif
#ifndef SEL
#define SEL 0
#endif
#ifndef A_EDGES
#define A_EDGES ~0ul
#endif
#ifndef A_START
#define A_START ~0u
#endif
#ifndef A_STARTFIX
#define A_STARTFIX 0
#endif
#ifndef A_FIN
#define A_FIN ~0u
#endif
#ifndef A_FINFIX
#define A_FINFIX 0
#endif
#ifndef B_EDGES
#define B_EDGES ~0ul
#endif
#ifndef B_START
#define B_START ~0u
#endif
#ifndef B_STARTFIX
#define B_STARTFIX 0
#endif
#ifndef B_FIN
#define B_FIN ~0u
#endif
#ifndef B_FINFIX
#define B_FINFIX 0
#endif
#ifndef PREP
#define PREP 1
#endif
// SEL: 0 antichains (the only implemented order: depth), 1 congruence depth-first, 2 congruence breadth-first
static bool run(const ExplicitFiniteAut& a, const ExplicitFiniteAut& b, unsigned sel)
{
  ExplicitFiniteAut smaller(a), bigger(b);
#if PREP
  AutBase::SanitizeAutsForInclusion(smaller, bigger);     // cli/operations.hh: CheckInclusion
#endif
  InclParam ip;
  ip.SetAlgorithm(sel == 0 ? InclParam::e_algorithm::antichains : InclParam::e_algorithm::congruences);
  ip.SetDirection(InclParam::e_direction::upward);        // CLI default "dir=up"; the only direction implemented for word automata
  ip.SetUseRecursion(false); ip.SetUseDownwardCacheImpl(false); ip.SetUseSimulation(false);
  ip.SetSearchOrder(sel == 2 ? InclParam::e_search_order::breadth : InclParam::e_search_order::depth);
  return ExplicitFiniteAut::CheckInclusion(smaller, bigger, ip);
}

extern "C" void harness(void)
{
  FA::Shape sa = { A_EDGES, A_START, A_STARTFIX, A_FIN, A_FINFIX }, sb = { B_EDGES, B_START, B_STARTFIX, B_FIN, B_FINFIX };
  FA::SymFA<NA> A; A.draw(sa);
  FA::SymFA<NB> B; B.draw(sb);
#ifdef KF_EXCLUDE
  KF_EXCLUDE
#endif
  ExplicitFiniteAut a, b;
#if PREP
  A.build(a, 0); B.build(b, 0);          // two files, two state dictionaries: both numbered from 0
#else
  A.build(a, 0); B.build(b, NA);         // direct library call on operands with disjoint state numbers
#endif
  bool expect = FA::included<NA, NB>(A, B);
#ifdef VS_SELFTEST_1
  expect = expect && !(A.edge[0][0][0] && !B.edge[0][0][0]);   // seeded wrong oracle: demands edge-wise containment
#endif
#ifdef VS_SELFTEST_2
  expect = expect || (A.start[0] && A.fin[0]);                 // seeded wrong oracle: forgets the empty word
#endif
#if SEL == 3   // all selections on the same pair: each exact, hence all agree
  bool v0 = run(a, b, 0), v1 = run(a, b, 1), v2 = run(a, b, 2);
  CHECK(v0 == expect, 1); CHECK(v1 == expect, 2); CHECK(v2 == expect, 3);
  CHECK(v0 == v1 && v1 == v2, 4);
  bool verdict = v0;
#else
  bool verdict = run(a, b, SEL);
  CHECK(verdict == expect, 1);
#endif
#ifdef VS_OBSERVE
  vs_observe(verdict); vs_observe(expect); vs_observe(FA::reachable(A)); vs_observe(FA::coreachable(B));
#endif
#ifdef VS_WITNESS
#ifdef WITNESS_VERDICT          // manual non-degeneracy probe of a universe: both verdicts must be reachable
  vs_assume(verdict == (bool)WITNESS_VERDICT);
#endif
  vs_reach();
#endif
}
