// C02: Union / UnionDisjointStates / Intersection / IntersectionBU on a symbolic pair (A over NA states, B over NB states,
// same ranked alphabet SYM_RANKS).  Solver variables: presence bit per universe rule and finality bit per state of A and B
// (+ for PREFILL: which states are pre-entered in the caller's translation maps and with which target numbers).
//   OP 0 Union (operands use the overlapping state numbers 0..NA-1 / 0..NB-1), 1 UnionDisjointStates (B's state q is NA+q),
//      2 Intersection (top-down product), 3 IntersectionBU (bottom-up product)
//   MAPS 1 (default): caller-supplied translation maps are passed and checked; MAPS 0: nullptr (library-internal maps)
//   PREFILL k > 0 (OP 0 only): the caller's maps already translate one state of A / one state of B (one bit each whether, the
//      state itself symbolic) to a symbolic number < k
//   ALIAS 1 (NA == NB): B is A and the library object b is a copy of a (shares its storage); no separate bits for B
// Order of the checks: result decodable (1) -> language semantics (20..22, independent macro-state oracle) -> translation
// maps (2..12) -> exact shape of the result w.r.t. the maps (13) -> operands unchanged (30..33).
#include <vata/explicit_tree_aut.hh>
#include "universe.h"
#include "decode.h"
using namespace VATA;
#ifndef NA
#define NA 1
#endif
#ifndef NB
#define NB 1
#endif
#ifndef OP
#define OP 0
#endif
#ifndef MAPS
#define MAPS 1
#endif
#ifndef PREFILL
#define PREFILL 0
#endif
#ifndef ALIAS
#define ALIAS 0
#endif
enum { NONE = 0xFFFF };
#if OP <= 1
enum { NR = NA + NB + (PREFILL ? PREFILL - 1 : 0) };   // a fresh counter that avoids the pre-entered numbers never has to go beyond this
#else
enum { NR = NA * NB };
#endif
typedef U::SymAut<NA> SA; typedef U::SymAut<NB> SB; typedef U::SymAut<NR> SR; typedef U::SymAut<NA + NB> SAB; typedef U::SymAut<NA * NB> SP;

// read a state -> state map into arrays over the keys < N; false if a key outside occurs
template <unsigned N> static bool readMap(const AutBase::StateToStateMap& m, bool* has, unsigned* val)
{
  bool ok = true;
  for (unsigned s = 0; s < N; ++s) { has[s] = false; val[s] = NONE; }
  for (const auto& kv : m) { bool in = false;
    for (unsigned s = 0; s < N; ++s) { bool e = (kv.first == s); has[s] = has[s] | e; val[s] = e ? (unsigned)kv.second : val[s]; in = in | e; }
    ok = ok & in & (kv.second < NONE); }
  return ok;
}
// L(R) = L(A) u L(B): both operands included in R, R included in the mask-level disjoint union AB
static void checkUnionLanguage(const SA& A, const SB& B, const SAB& AB, const SR& R)
{
  bool l1 = U::included<NA, NR>(A, R), l2 = U::included<NB, NR>(B, R), l3 = U::included<NR, NA + NB>(R, AB);
#ifdef VS_SELFTEST_1
  l3 = l3 && !(B.pres[0] && B.fin[0]);   // seeded wrong oracle: pretends a tree of B must not be accepted
#endif
  CHECK(l1, 20); CHECK(l2, 21); CHECK(l3, 22);
}
// L(R) = L(A) n L(B): R included in both operands, the full mask-level product P included in R
static void checkIsectLanguage(const SA& A, const SB& B, const SP& P, const SR& R)
{
  bool l1 = U::included<NR, NA>(R, A), l2 = U::included<NR, NB>(R, B), l3 = U::included<NA * NB, NR>(P, R);
#ifdef VS_SELFTEST_1
  l3 = l3 && !(A.pres[0] && A.fin[0] && B.pres[0] && B.fin[0]);
#endif
  CHECK(l1, 20); CHECK(l2, 21); CHECK(l3, 22);
}

extern "C" void harness(void)
{
  SA A; A.draw();
#if ALIAS
  SB B = A;
#else
  SB B; B.draw();
#endif
#if PREFILL
  const bool preL = vs_bit(); const unsigned preLs = vs_range(NA), preLv = vs_range(PREFILL);
  const bool preR = vs_bit(); const unsigned preRs = vs_range(NB), preRv = vs_range(PREFILL);
  // a sensible caller does not ask for two different states to be merged
  vs_assume(!(preL && preR) || preLv != preRv);
#ifdef KF_EXCLUDE_UNION_PREFILL
  // finding C02-1 (fixed in /repo by 1680988d; macro only defined if the finding is re-opened in known_findings.json): the
  // fresh numbers of Union (counter restarted at 0) collided with numbers already present in the caller's maps.
  // Excluded shape: some map is pre-filled (the rest of the space is still verified).
  vs_assume(!(preL || preR));
#endif
#endif
  ExplicitTreeAut a, b; A.build(a);
#if OP == 1
  unsigned shift[NB]; for (unsigned s = 0; s < NB; ++s) shift[s] = NA + s;
  B.build(b, shift);
#elif ALIAS
  b = a;                       // copy: shares the transition storage (copy on write)
#else
  B.build(b);
#endif
  const unsigned usedA = U::usedStates(A), usedB = U::usedStates(B);
  SR R;

#if OP == 0   // ------------------------------------------------------------------ Union
  SAB AB; U::disjointUnion<NA, NB>(A, B, AB);
  AutBase::StateToStateMap mL, mR;
#if PREFILL
  if (preL) mL.insert(std::make_pair((AutBase::StateType)preLs, (AutBase::StateType)preLv));
  if (preR) mR.insert(std::make_pair((AutBase::StateType)preRs, (AutBase::StateType)preRv));
#endif
#if MAPS
  ExplicitTreeAut res = ExplicitTreeAut::Union(a, b, &mL, &mR);
#else
  ExplicitTreeAut res = ExplicitTreeAut::Union(a, b);
#endif
  CHECK((U::decode<NR>(res, R)), 1);
  checkUnionLanguage(A, B, AB, R);
#if MAPS
  bool hasL[NA], hasR[NB]; unsigned valL[NA], valR[NB];
  CHECK((readMap<NA>(mL, hasL, valL)), 2); CHECK((readMap<NB>(mR, hasR, valR)), 3);
  // the maps translate exactly the states that occur in the operand (+ what the caller had entered), to numbers < NR
  for (unsigned s = 0; s < NA; ++s) { bool pre = false;
#if PREFILL
    pre = preL && s == preLs; CHECK(!pre || valL[s] == preLv, 4);
#endif
    CHECK(hasL[s] == (((usedA >> s) & 1) || pre), 5); CHECK(!hasL[s] || valL[s] < NR, 6); }
  for (unsigned s = 0; s < NB; ++s) { bool pre = false;
#if PREFILL
    pre = preR && s == preRs; CHECK(!pre || valR[s] == preRv, 7);
#endif
    CHECK(hasR[s] == (((usedB >> s) & 1) || pre), 8); CHECK(!hasR[s] || valR[s] < NR, 9); }
  // no two operand states share a result state: the union is disjoint
  for (unsigned s = 0; s < NA; ++s) for (unsigned t = s + 1; t < NA; ++t) CHECK(!(hasL[s] && hasL[t]) || valL[s] != valL[t], 10);
  for (unsigned s = 0; s < NB; ++s) for (unsigned t = s + 1; t < NB; ++t) CHECK(!(hasR[s] && hasR[t]) || valR[s] != valR[t], 11);
  for (unsigned s = 0; s < NA; ++s) for (unsigned t = 0; t < NB; ++t) CHECK(!(hasL[s] && hasR[t]) || valL[s] != valR[t], 12);
  // the result is exactly the image of A under mL together with the image of B under mR (so every result state is named)
  { SR E; U::clear(E); U::imageAdd<NA, NR>(A, valL, E); U::imageAdd<NB, NR>(B, valR, E);
#ifdef VS_SELFTEST_2
    E.pres[0] = false;           // seeded wrong expectation
#endif
    CHECK((U::sameAut<NR>(R, E)), 13); }
#endif
#elif OP == 1 // ------------------------------------------------------------------ UnionDisjointStates
  SAB AB; U::disjointUnion<NA, NB>(A, B, AB);
  ExplicitTreeAut res = ExplicitTreeAut::UnionDisjointStates(a, b);
  CHECK((U::decode<NR>(res, R)), 1);
  checkUnionLanguage(A, B, AB, R);
  { bool same = U::sameAut<NR>(R, AB);     // no renaming at all: rule for rule the two operands
#ifdef VS_SELFTEST_2
    same = same && !R.pres[0];
#endif
    CHECK(same, 13); }
#else         // ------------------------------------------------------------------ Intersection / IntersectionBU
  SP P; U::fullProduct<NA, NB>(A, B, P);
  AutBase::ProductTranslMap pm;
#if MAPS
  AutBase::ProductTranslMap* ppm = &pm;
#else
  AutBase::ProductTranslMap* ppm = nullptr;
#endif
#if OP == 2
  ExplicitTreeAut res = ExplicitTreeAut::Intersection(a, b, ppm);
#else
  ExplicitTreeAut res = ExplicitTreeAut::IntersectionBU(a, b, ppm);
#endif
  CHECK((U::decode<NR>(res, R)), 1);
  checkIsectLanguage(A, B, P, R);
#if MAPS
  // read the product map: pair (p, q) is product state p * NB + q of the reference product P
  bool has[NA * NB]; unsigned val[NA * NB]; bool keysOk = true;
  for (unsigned s = 0; s < NA * NB; ++s) { has[s] = false; val[s] = NONE; }
  for (const auto& kv : pm) { bool in = false;
    for (unsigned s = 0; s < NA * NB; ++s) { bool e = (kv.first.first == s / NB) & (kv.first.second == s % NB); has[s] = has[s] | e; val[s] = e ? (unsigned)kv.second : val[s]; in = in | e; }
    keysOk = keysOk & in; }
  CHECK(keysOk, 2);
  for (unsigned s = 0; s < NA * NB; ++s) CHECK(!has[s] || val[s] < NR, 6);
  for (unsigned s = 0; s < NA * NB; ++s) for (unsigned t = s + 1; t < NA * NB; ++t) CHECK(!(has[s] && has[t]) || val[s] != val[t], 10);
  // every state of the result is named by the map
  { unsigned usedR = U::usedStates(R), named = 0; for (unsigned s = 0; s < NA * NB; ++s) for (unsigned r = 0; r < NR; ++r) named |= (unsigned)(has[s] & (val[s] == r)) << r;
    CHECK((usedR & ~named) == 0, 12); }
  // the result is exactly the part of the product P that the named pairs induce, renamed through the map
  { SR E; U::clear(E); SP Pd = P;
    for (unsigned i = 0; i < Pd.nrules; ++i) { U::Rule r = U::Univ<NA * NB>::rule(i); bool in = has[r.parent]; for (unsigned k = 0; k < r.rank; ++k) in = in & has[r.child[k]]; Pd.pres[i] = Pd.pres[i] & in; }
    for (unsigned s = 0; s < NA * NB; ++s) Pd.fin[s] = Pd.fin[s] & has[s];
    U::imageAdd<NA * NB, NR>(Pd, val, E);
#ifdef VS_SELFTEST_2
    E.pres[0] = false;
#endif
    CHECK((U::sameAut<NR>(R, E)), 13); }
#endif
#endif

  // ---- operands unchanged
  { SA A2; CHECK((U::decode<NA>(a, A2)), 30); CHECK((U::sameAut<NA>(A, A2)), 31); }
#if OP == 1
  { SAB B2, BE; SA none; U::clear(none); U::disjointUnion<NA, NB>(none, B, BE); CHECK((U::decode<NA + NB>(b, B2)), 32); CHECK((U::sameAut<NA + NB>(BE, B2)), 33); }
#else
  { SB B2; CHECK((U::decode<NB>(b, B2)), 32); CHECK((U::sameAut<NB>(B, B2)), 33); }
#endif
#ifdef VS_OBSERVE
  // order-independent, numbering-independent observations
  vs_observe(U::countRules(R)); { unsigned f = U::finalMask(R), c = 0; for (unsigned s = 0; s < NR; ++s) c += (f >> s) & 1; vs_observe(c); }
  vs_observe(U::langEmpty(R)); vs_observe(U::productive(A)); vs_observe(U::productive(B));
#endif
#ifdef VS_WITNESS
  vs_reach();
#endif
}
