// C02: Union / UnionDisjointStates / Intersection / IntersectionBU on a symbolic pair (A over NA states, B over NB states,
// same ranked alphabet SYM_RANKS).  Solver variables: presence bit per universe rule and finality bit per state of A and B
// (+ for PREFILL: which states are pre-entered in the caller's translation maps and with which target numbers).
//   OP 0 Union (operands use the overlapping state numbers 0..NA-1 / 0..NB-1), 1 UnionDisjointStates (B's state q is NA+q),
//      2 Intersection (top-down product), 3 IntersectionBU (bottom-up product)
//   MAPS 1 (default): caller-supplied translation maps are passed and checked; MAPS 0: nullptr (library-internal maps)
//   PREFILL k > 0 (OP 0 only): the caller's maps already translate one state of A / one state of B (one bit each whether, the
//      state itself symbolic) to a symbolic number < k
//   ALIAS 1 (NA == NB): B is A and the library object b is a copy of a (shares its storage); no separate bits for B
// The result is never decoded through its state NUMBERS (how the library numbers the states of a union / product is not
// part of the contract): with MAPS=1 it is decoded through the translation maps the library reports (abstract state i of
// the reference disjoint union / full product is the library state the map gives for it; a rule or final state of the
// result that uses a state no map entry names is "not decodable", id 1 = "the maps name every state of the result"); with
// MAPS=0 and for UnionDisjointStates (no maps) through a slot table of the distinct state numbers (decode_free.h).
// Order of the checks: result decodable / every state named (1) -> language semantics (20..22, independent macro-state
// oracle) -> translation maps (2..12) -> the result is a sub-automaton of the named reference construction (13) ->
// operands unchanged (30..33).  What only the CURRENT implementation guarantees (dense numbering, a map entry for every
// operand state even if a trimming implementation would drop it, the result being the COMPLETE image rule for rule) is
// kept under STRICT_IMPL, which is never defined by the registry.
#include <vata/explicit_tree_aut.hh>
#include "universe.h"
#include "decode.h"
#include "decode_free.h"
using namespace VATA;
#ifndef NA
#define NA 1
#endif
#ifndef NB
#define NB 1
#endif
#ifndef OP
#define OP 0
#endif
#ifndef MAPS
#define MAPS 1
#endif
#ifndef PREFILL
#define PREFILL 0
#endif
#ifndef ALIAS
#define ALIAS 0
#endif
static const unsigned long NONE = ~0ul;     // "no entry" (never a state number)
#if OP <= 1
enum { NR = NA + NB };      // abstract states of the result: those of the reference disjoint union
enum { NDENSE = NA + NB + (PREFILL ? PREFILL - 1 : 0) };   // STRICT_IMPL only: a fresh counter that avoids the pre-entered numbers stays below this
#else
enum { NR = NA * NB };      // abstract states of the result: those of the reference full product
enum { NDENSE = NA * NB };
#endif
typedef U::SymAut<NA> SA; typedef U::SymAut<NB> SB; typedef U::SymAut<NR> SR; typedef U::SymAut<NA + NB> SAB; typedef U::SymAut<NA * NB> SP;

// read a state -> state map into arrays over the keys < N; false if a key outside occurs (a key that is no operand state)
template <unsigned N> static bool readMap(const AutBase::StateToStateMap& m, bool* has, unsigned long* val)
{
  bool ok = true;
  for (unsigned s = 0; s < N; ++s) { has[s] = false; val[s] = NONE; }
  for (const auto& kv : m) { bool in = false;
    for (unsigned s = 0; s < N; ++s) { bool e = (kv.first == s); has[s] = has[s] | e; val[s] = e ? (unsigned long)kv.second : val[s]; in = in | e; }
    ok = ok & in; }
  return ok;
}
// R is a sub-automaton of the reference construction X (same abstract states): every rule / final state of R is one of X
template <unsigned N> static bool subAut(const U::SymAut<N>& R, const U::SymAut<N>& X)
{
  bool sub = true;
  for (unsigned i = 0; i < R.nrules; ++i) sub = sub & (!R.pres[i] | X.pres[i]);
  for (unsigned s = 0; s < N; ++s) sub = sub & (!R.fin[s] | X.fin[s]);
  return sub;
}
// each state of the result is named by ONE abstract state: no two abstract states that occur in the decoded result share a name
// (id: 10 both in A / any two pairs, 11 both in B, 12 one in A and one in B)
template <unsigned N> static void checkNamesDistinct(const U::SymAut<N>& R, const unsigned long* names, unsigned split)
{
  const unsigned usedR = U::usedStates(R);
  for (unsigned s = 0; s < N; ++s) for (unsigned t = s + 1; t < N; ++t) { bool both = ((usedR >> s) & 1) & ((usedR >> t) & 1);
    if (t < split) CHECK(!both || names[s] != names[t], 10); else if (s >= split) CHECK(!both || names[s] != names[t], 11); else CHECK(!both || names[s] != names[t], 12); }
}
// L(R) = L(A) u L(B): both operands included in R, R included in the mask-level disjoint union AB
static void checkUnionLanguage(const SA& A, const SB& B, const SAB& AB, const SR& R)
{
  bool l1 = U::included<NA, NR>(A, R), l2 = U::included<NB, NR>(B, R), l3 = U::included<NR, NA + NB>(R, AB);
#ifdef VS_SELFTEST_1
  l3 = l3 && !(B.pres[0] && B.fin[0]);   // seeded wrong oracle: pretends a tree of B must not be accepted
#endif
  CHECK(l1, 20); CHECK(l2, 21); CHECK(l3, 22);
}
// L(R) = L(A) n L(B): R included in both operands, the full mask-level product P included in R
static void checkIsectLanguage(const SA& A, const SB& B, const SP& P, const SR& R)
{
  bool l1 = U::included<NR, NA>(R, A), l2 = U::included<NR, NB>(R, B), l3 = U::included<NA * NB, NR>(P, R);
#ifdef VS_SELFTEST_1
  l3 = l3 && !(A.pres[0] && A.fin[0] && B.pres[0] && B.fin[0]);
#endif
  CHECK(l1, 20); CHECK(l2, 21); CHECK(l3, 22);
}

extern "C" void harness(void)
{
  SA A; A.draw();
#if ALIAS
  SB B = A;
#else
  SB B; B.draw();
#endif
#if PREFILL
  const bool preL = vs_bit(); const unsigned preLs = vs_range(NA), preLv = vs_range(PREFILL);
  const bool preR = vs_bit(); const unsigned preRs = vs_range(NB), preRv = vs_range(PREFILL);
  // a sensible caller does not ask for two different states to be merged
  vs_assume(!(preL && preR) || preLv != preRv);
#ifdef KF_EXCLUDE_UNION_PREFILL
  // finding C02-1 (fixed in /repo by 1680988d; macro only defined if the finding is re-opened in known_findings.json): the
  // fresh numbers of Union (counter restarted at 0) collided with numbers already present in the caller's maps.
  // Excluded shape: some map is pre-filled (the rest of the space is still verified).
  vs_assume(!(preL || preR));
#endif
#endif
  ExplicitTreeAut a, b; A.build(a);
#if OP == 1
  unsigned shift[NB]; for (unsigned s = 0; s < NB; ++s) shift[s] = NA + s;
  B.build(b, shift);
#elif ALIAS
  b = a;                       // copy: shares the transition storage (copy on write)
#else
  B.build(b);
#endif
  const unsigned usedA = U::usedStates(A), usedB = U::usedStates(B); (void)usedA; (void)usedB;
  SR R;

#if OP == 0   // ------------------------------------------------------------------ Union
  SAB AB; U::disjointUnion<NA, NB>(A, B, AB);
  AutBase::StateToStateMap mL, mR;
#if PREFILL
  if (preL) mL.insert(std::make_pair((AutBase::StateType)preLs, (AutBase::StateType)preLv));
  if (preR) mR.insert(std::make_pair((AutBase::StateType)preRs, (AutBase::StateType)preRv));
#endif
#if MAPS
  ExplicitTreeAut res = ExplicitTreeAut::Union(a, b, &mL, &mR);
  bool hasL[NA], hasR[NB]; unsigned long valL[NA], valR[NB];
  const bool keysL = readMap<NA>(mL, hasL, valL), keysR = readMap<NB>(mR, hasR, valR);
  // abstract state i < NA of the disjoint union is named mL[i], abstract state NA + j is named mR[j]
  unsigned long names[NR]; for (unsigned s = 0; s < NA; ++s) names[s] = hasL[s] ? valL[s] : NONE; for (unsigned s = 0; s < NB; ++s) names[NA + s] = hasR[s] ? valR[s] : NONE;
  CHECK((U::decode<NR>(res, R, names)), 1);          // every rule / final state of the result is over states the maps name (and universe symbols)
#else
  ExplicitTreeAut res = ExplicitTreeAut::Union(a, b);
  U::Slots<NR> slots; CHECK((U::decodeFree<NR>(res, R, slots)), 1);   // at most NA + NB distinct states, any numbering
#endif
  checkUnionLanguage(A, B, AB, R);
#if MAPS
  CHECK(keysL, 2); CHECK(keysR, 3);                   // the maps translate operand states only
#if PREFILL
  // what the caller had entered is kept (in/out dictionary)
  for (unsigned s = 0; s < NA; ++s) CHECK(!(preL && s == preLs) || (hasL[s] && valL[s] == preLv), 4);
  for (unsigned s = 0; s < NB; ++s) CHECK(!(preR && s == preRs) || (hasR[s] && valR[s] == preRv), 7);
#endif
  // no two operand states share a state of the result: the union is disjoint
  checkNamesDistinct<NR>(R, names, NA);
  // every rule / final state of the result is the image (under mL resp. mR) of a rule / final state of the operand whose
  // states name it.  NOT demanded: that every operand rule is present (the language checks 20..22 decide what must be
  // there; an implementation that leaves out useless rules or rule-less final states is as correct).
  { SAB X = AB;
#ifdef VS_SELFTEST_2
    X.pres[0] = false;           // seeded wrong expectation: the first rule of A is declared foreign
#endif
    CHECK((subAut<NR>(R, X)), 13); }
#ifdef STRICT_IMPL   // never defined: details of the current implementation (rename everything, number densely)
  for (unsigned s = 0; s < NA; ++s) { bool pre = false;
#if PREFILL
    pre = preL && s == preLs;
#endif
    CHECK(hasL[s] == (((usedA >> s) & 1) || pre), 5); CHECK(!hasL[s] || valL[s] < NDENSE, 6); }
  for (unsigned s = 0; s < NB; ++s) { bool pre = false;
#if PREFILL
    pre = preR && s == preRs;
#endif
    CHECK(hasR[s] == (((usedB >> s) & 1) || pre), 8); CHECK(!hasR[s] || valR[s] < NDENSE, 9); }
  CHECK((U::sameAut<NR>(R, AB)), 13);
#endif
#endif
#elif OP == 1 // ------------------------------------------------------------------ UnionDisjointStates
  SAB AB; U::disjointUnion<NA, NB>(A, B, AB);
  ExplicitTreeAut res = ExplicitTreeAut::UnionDisjointStates(a, b);
  // no translation map is reported and only the language is specified: decoded up to the numbering of the states
  U::Slots<NR> slots; CHECK((U::decodeFree<NR>(res, R, slots)), 1);   // at most NA + NB distinct states
  checkUnionLanguage(A, B, AB, R);
#ifdef STRICT_IMPL   // never defined: the current implementation keeps the operands' numbers and copies rule for rule
  { SR Rid; CHECK((U::decode<NR>(res, Rid)), 1); CHECK((U::sameAut<NR>(Rid, AB)), 13); }
#endif
#else         // ------------------------------------------------------------------ Intersection / IntersectionBU
  SP P; U::fullProduct<NA, NB>(A, B, P);
  AutBase::ProductTranslMap pm;
#if MAPS
  AutBase::ProductTranslMap* ppm = &pm;
#else
  AutBase::ProductTranslMap* ppm = nullptr;
#endif
#if OP == 2
  ExplicitTreeAut res = ExplicitTreeAut::Intersection(a, b, ppm);
#else
  ExplicitTreeAut res = ExplicitTreeAut::IntersectionBU(a, b, ppm);
#endif
#if MAPS
  // read the product map: pair (p, q) is product state p * NB + q of the reference product P
  bool has[NR]; unsigned long names[NR]; bool keysOk = true;
  for (unsigned s = 0; s < NR; ++s) { has[s] = false; names[s] = NONE; }
  for (const auto& kv : pm) { bool in = false;
    for (unsigned s = 0; s < NR; ++s) { bool e = (kv.first.first == s / NB) & (kv.first.second == s % NB); has[s] = has[s] | e; names[s] = e ? (unsigned long)kv.second : names[s]; in = in | e; }
    keysOk = keysOk & in; }
  CHECK((U::decode<NR>(res, R, names)), 1);          // every rule / final state of the result is over states the map names (and universe symbols)
#else
  U::Slots<NR> slots; CHECK((U::decodeFree<NR>(res, R, slots)), 1);   // at most NA * NB distinct states, any numbering
#endif
  checkIsectLanguage(A, B, P, R);
#if MAPS
  CHECK(keysOk, 2);                                   // the map names pairs of operand states only
  // no two pairs share a state of the result
  checkNamesDistinct<NR>(R, names, NR);
  // every rule / final state of the result is a rule / final state of the product of the pairs that name it.  NOT demanded:
  // that every product rule among the named pairs is present (the language checks 20..22 decide what must be there).
  { SP X = P;
#ifdef VS_SELFTEST_2
    X.pres[0] = false;           // seeded wrong expectation: the first rule of the product is declared foreign
#endif
    CHECK((subAut<NR>(R, X)), 13); }
#ifdef STRICT_IMPL   // never defined: details of the current implementations (dense numbering, complete induced sub-product)
  for (unsigned s = 0; s < NR; ++s) CHECK(!has[s] || names[s] < NDENSE, 6);
  { SP Pd = P;
    for (unsigned i = 0; i < Pd.nrules; ++i) { U::Rule r = U::Univ<NA * NB>::rule(i); bool in = has[r.parent]; for (unsigned k = 0; k < r.rank; ++k) in = in & has[r.child[k]]; Pd.pres[i] = Pd.pres[i] & in; }
    for (unsigned s = 0; s < NR; ++s) Pd.fin[s] = Pd.fin[s] & has[s];
    CHECK((U::sameAut<NR>(R, Pd)), 13); }
#endif
#endif
#endif

  // ---- operands unchanged
  { SA A2; CHECK((U::decode<NA>(a, A2)), 30); CHECK((U::sameAut<NA>(A, A2)), 31); }
#if OP == 1
  { SAB B2, BE; SA none; U::clear(none); U::disjointUnion<NA, NB>(none, B, BE); CHECK((U::decode<NA + NB>(b, B2)), 32); CHECK((U::sameAut<NA + NB>(BE, B2)), 33); }
#else
  { SB B2; CHECK((U::decode<NB>(b, B2)), 32); CHECK((U::sameAut<NB>(B, B2)), 33); }
#endif
#ifdef VS_OBSERVE
  // order-independent, numbering-independent observations
  vs_observe(U::countRules(R)); { unsigned f = U::finalMask(R), c = 0; for (unsigned s = 0; s < NR; ++s) c += (f >> s) & 1; vs_observe(c); }
  vs_observe(U::langEmpty(R)); vs_observe(U::productive(A)); vs_observe(U::productive(B));
#endif
#ifdef VS_WITNESS
  vs_reach();
#endif
}
