// C15: ExplicitTreeAut::GetCandidateTree on a symbolic automaton A over the universe U(NS, SYM_RANKS).
// Solver variables: one presence bit per universe rule (CHAIN: only leaf rules and unary/binary rules whose child states are
// at most one apart from the parent, which keeps deep 4- and 5-state chains within the bit budget), one finality bit per state.
// Property: L(W) subseteq L(A) for the returned automaton W, and L(W) is empty only if L(A) is.
#include <vata/explicit_tree_aut.hh>
#include "universe.h"
#include "decode.h"
#include "decode_free.h"
using namespace VATA;
typedef U::SymAut<NS> SA;
static bool drawn(const U::Rule& r)
{
#ifdef CHAIN   // 1: children at most one state away from the parent; 2: children are the parent state or the one below it
  for (unsigned k = 0; k < r.rank; ++k) { int d = (int)r.parent - (int)r.child[k]; if (d > 1 || d < (CHAIN == 2 ? 0 : -1)) return false; }
#endif
  return true;
}
extern "C" void harness(void)
{
  SA A; A.nrules = U::Univ<NS>::count();
#ifndef RMASK
#define RMASK ~0ul      // candidate rules (bit i = universe rule i)
#endif
  for (unsigned i = 0; i < A.nrules; ++i) A.pres[i] = (drawn(U::Univ<NS>::rule(i)) && (i >= 64 || ((RMASK >> i) & 1))) ? vs_bit() : false;
  for (unsigned s = 0; s < NS; ++s) A.fin[s] = vs_bit();
#ifdef KF_EXCLUDE
  KF_EXCLUDE
#endif
  ExplicitTreeAut a; A.build(a);
  ExplicitTreeAut w = a.GetCandidateTree();
  // The witness automaton is a new object whose state numbers are the library's choice (no translation map is returned):
  // it is decoded independently of them (decode_free.h: slots in order of first occurrence; at most NS distinct states, only
  // universe symbols with their rank).  Only its LANGUAGE enters the property.
  SA W; U::Slots<NS> slots; CHECK((U::decodeFree<NS>(w, W, slots)), 1);

  // every tree accepted by the witness automaton is accepted by A (independent macro-state inclusion oracle)
  { SA Ao = A;
#ifdef VS_SELFTEST_2
    Ao.pres[0] = false;        // seeded wrong oracle: pretends that A lacks its first leaf rule
#endif
    CHECK((U::included<NS, NS>(W, Ao)), 2); }
  // the witness language is empty only if L(A) is (naive productivity fixpoint on both sides)
  { bool emptyA = U::langEmpty(A), emptyW = U::langEmpty(W);
#ifdef VS_SELFTEST_1
    emptyA = emptyA || (A.pres[0] && !A.fin[0]);   // seeded wrong oracle
#endif
    CHECK(emptyW == emptyA, 3); }
#ifdef STRICT_IMPL   // never defined.  The property speaks about the language of the returned automaton only; the following
  // describes HOW the current implementation gets there (it returns a part of A under A's own state numbers and drops what
  // the final states do not reach).  Another valid witness - a different choice of rules, a freshly numbered automaton
  // for one accepted tree, a harmless leftover rule - satisfies the property and fails these.
  { SA Ws; CHECK((U::decode<NS>(w, Ws)), 1);                          // decoded under A's numbers
    // it is a sub-automaton: no invented rules or final states (how the sub-language property comes about)
    for (unsigned i = 0; i < Ws.nrules; ++i) CHECK(!Ws.pres[i] || A.pres[i], 4);
    for (unsigned s = 0; s < NS; ++s) CHECK(!Ws.fin[s] || A.fin[s], 5);
    // whatever is left is reachable from a final state of W
    unsigned reachW = U::reachableTD(Ws); for (unsigned i = 0; i < Ws.nrules; ++i) CHECK(!Ws.pres[i] || ((reachW >> U::Univ<NS>::rule(i).parent) & 1), 6); }
#endif
  // operand unchanged
  { SA A2; CHECK((U::decode<NS>(a, A2)), 20); CHECK((U::sameAut<NS>(A, A2)), 21); }
#ifdef VS_OBSERVE
  // which rules are kept depends on the iteration order of libstdc++'s hash tables, which engine and native twin share
  vs_observe(U::ruleMask(W)); vs_observe(U::finalMask(W)); vs_observe(U::langEmpty(W)); vs_observe(U::langEmpty(A)); vs_observe(U::productive(A));
#endif
#ifdef VS_WITNESS
  vs_reach();
#endif
}
