// C19 (c): verdicts on arbitrary (symbolic) automata obey the laws of language inclusion, under selection SEL.
// Operands are built as twins (symbolic insertion order, concrete permutation PERM of the states of A; see twin.h), so
// the laws are checked on differently numbered/ordered presentations as well.
//   LAW 0: A <= A
//   LAW 1: A <= A u B, B <= A u B; and the converse direction is exact: (A u B <= A) == (B <= A)   [oracle on (B, A)]
//   LAW 2: A n B <= A, A n B <= B; and (A <= A n B) == (A <= B)                                    [oracle on (A, B)]
//   LAW 3: transitivity on three automata: A <= B and B <= C implies A <= C (verdicts of the library only)
//   LAW 4: A is equivalent (both inclusions hold) to Reduce(A), RemoveUselessStates(A), RemoveUnreachableStates(A) and
//          to A re-indexed through a weak translator
//   LAW 5: A is equivalent to its dumped-and-reloaded form (DumpToAutDesc with a state dictionary -> LoadFromAutDesc)
// Solver variables: presence/finality bits of the operands, insertion-order bits.
#include <vata/explicit_tree_aut.hh>
#include <string>
#include "universe.h"
#include "incl_prep.h"
#include "twin.h"
using namespace VATA;
#ifndef NA
#define NA 1
#endif
#ifndef NB
#define NB 1
#endif
#ifndef NC
#define NC 1
#endif
#ifndef SEL
#define SEL 0
#endif
#ifndef LAW
#define LAW 0
#endif
#ifndef NORD
#define NORD 2
#endif
#ifndef PERM
#define PERM 0
#endif
// SEL: bit0 = sim, bits 1..2: 0 up, 1 down non-recursive, 2 down recursive, 3 down recursive + implication cache
static bool incl(const ExplicitTreeAut& a, const ExplicitTreeAut& b) {
  const bool sim = SEL & 1; const unsigned alg = SEL >> 1;
  return prepared_inclusion<ExplicitTreeAut>(a, b, alg == 0, alg >= 2, alg == 3, sim);
}
extern "C" void harness(void)
{
  U::SymAut<NA> A; A.draw();
#if LAW == 1 || LAW == 2 || LAW == 3
  U::SymAut<NB> B; B.draw();
#endif
#if LAW == 3
  U::SymAut<NC> C; C.draw();
#endif
  const unsigned ord = vs_range(NORD);
#if LAW == 5
  // register the universe symbols (name = letter, with its rank) in the alphabet first and build the twin with whatever
  // numbers the alphabet handed out: which numbers those are (today 0, 1, .. in registration order) is the alphabet's business
  ExplicitTreeAut a; unsigned symNum[U::NSYM];
  { ExplicitTreeAut::AbstractAlphabet::FwdTranslatorPtr reg = a.GetAlphabet()->GetSymbolTransl();
    for (unsigned k = 0; k < U::NSYM; ++k) symNum[k] = (unsigned)(*reg)(ExplicitTreeAut::StringRank(std::string(1, (char)('a' + k)), U::RANK[k])); }
  TW::build<NA>(A, a, PERM, ord, NORD, 0, 1, symNum);
#else
  ExplicitTreeAut a; TW::build<NA>(A, a, PERM, ord, NORD);
#endif
#if LAW == 1 || LAW == 2 || LAW == 3
  ExplicitTreeAut b; TW::build<NB>(B, b, 0, ord, NORD);
#endif
#if LAW == 0
  bool v = incl(a, a);
#ifdef VS_SELFTEST_1
  v = v && !(A.pres[0] && ord == NORD - 1);     // seeded: reflexivity "fails" for one insertion order
#endif
  CHECK(v, 1);
#ifdef VS_OBSERVE
  vs_observe(v);
#endif
#elif LAW == 1
  ExplicitTreeAut u = ExplicitTreeAut::Union(a, b);
  const bool v1 = incl(a, u), v2 = incl(b, u), v3 = incl(u, a);
  bool e3 = U::included<NB, NA>(B, A);
#ifdef VS_SELFTEST_1
  e3 = e3 || (B.pres[0] && !A.pres[0]);         // seeded wrong oracle
#endif
  CHECK(v1, 11); CHECK(v2, 12); CHECK(v3 == e3, 13);
#ifdef VS_OBSERVE
  vs_observe(v1); vs_observe(v2); vs_observe(v3);
#endif
#elif LAW == 2
  ExplicitTreeAut i = ExplicitTreeAut::Intersection(a, b);
  const bool v1 = incl(i, a), v2 = incl(i, b), v3 = incl(a, i);
  bool e3 = U::included<NA, NB>(A, B);
#ifdef VS_SELFTEST_1
  e3 = e3 && !(A.pres[0] && B.pres[0]);         // seeded wrong oracle
#endif
  CHECK(v1, 21); CHECK(v2, 22); CHECK(v3 == e3, 23);
#ifdef VS_OBSERVE
  vs_observe(v1); vs_observe(v2); vs_observe(v3);
#endif
#elif LAW == 3
  ExplicitTreeAut c; TW::build<NC>(C, c, 0, ord, NORD);
  const bool ab = incl(a, b), bc = incl(b, c); bool ac = incl(a, c);
#ifdef VS_SELFTEST_1
  ac = ac && !(ab && bc && A.pres[0]);          // seeded: a transitivity failure
#endif
  CHECK(!(ab && bc) || ac, 31);
#ifdef VS_OBSERVE
  vs_observe(ab); vs_observe(bc); vs_observe(ac);
#endif
#elif LAW == 4
  ExplicitTreeAut red = a.Reduce(), usl = a.RemoveUselessStates(), unr = a.RemoveUnreachableStates();
  AutBase::StateToStateMap m; AutBase::StateType cnt = 7;      // re-index to fresh numbers 7, 8, ... in visiting order
  AutBase::StateToStateTranslWeak tr(m, [&cnt](const AutBase::StateType&) { return cnt++; });
  ExplicitTreeAut rix = a.ReindexStates(tr);
  bool r1 = incl(a, red), r2 = incl(red, a);
#ifdef VS_SELFTEST_1
  r2 = r2 && !(A.pres[0] && A.fin[0]);          // seeded: Reduce "changes" the language
#endif
  CHECK(r1, 41); CHECK(r2, 42);
  CHECK(incl(a, usl), 43); CHECK(incl(usl, a), 44);
  CHECK(incl(a, unr), 45); CHECK(incl(unr, a), 46);
  CHECK(incl(a, rix), 47); CHECK(incl(rix, a), 48);
#ifdef VS_OBSERVE
  vs_observe(r1); vs_observe(r2);
#endif
#else
  // (id 50 used to demand that the alphabet numbers the symbols 0, 1, .. in registration order - an implementation detail of
  // OnTheFlyAlphabet; the twin is now built with the numbers the alphabet returned, see above)
  AutBase::StateDict dict;
  for (unsigned s = 0; s < NA; ++s) dict.insert(std::make_pair(std::string(1, (char)('p' + s)), (AutBase::StateType)TW::Perms<NA>::at(PERM, s)));
  AutBase::AutDescription desc = a.DumpToAutDesc(dict);
  ExplicitTreeAut re; AutBase::StateDict dict2; re.LoadFromAutDesc(desc, dict2);
  bool d1 = incl(a, re), d2 = incl(re, a);
#ifdef VS_SELFTEST_1
  d1 = d1 && !(A.pres[0] && A.fin[0]);          // seeded: reload "changes" the language
#endif
  CHECK(d1, 51); CHECK(d2, 52);
#ifdef VS_OBSERVE
  vs_observe(d1); vs_observe(d2);
#endif
#endif
#ifdef VS_WITNESS
  vs_reach();
#endif
}
