// C19 (b): simulation relations and result sizes under renaming / reordering.
// Symbolic automaton A over NS states; the library operand is a TWIN (symbolic state permutation p, symbolic insertion
// order, see twin.h).  Solver variables: presence/finality bits of A, permutation and order bits.
//   OP 0: ComputeSimulation(twin).get(pi(q), pi(r)) == numbering-free reference simulation of A at (q, r), for all states
//         q, r that occur in A.  DIR 0: greatest downward simulation; DIR 1: greatest upward simulation w.r.t. the identity
//         (precondition of the library: no useless states - assumed).  The identity/forward twin is one of the cases,
//         so the relation of every twin is the renamed image of the relation of the original.
//   OP 1: direct metamorphic form (no reference): relation of the twin == renamed image of the relation of the original.
//   FLOW 0: the library precondition "states numbered 0..n-1, n passed" is met by assuming that all NS states occur in A;
//   FLOW 1: what `vata sim` does for arbitrary numberings: ReindexStates through a weak translator (visiting order),
//           n = number of states found; the relation is then queried through the translation map.
//   OP 2: number of states of Reduce / RemoveUselessStates / RemoveUnreachableStates of the twin == that of the original
//         (counted independently of the state numbers the results use).
#include <vata/explicit_tree_aut.hh>
#include <vata/sim_param.hh>
#include "universe.h"
#include "decode.h"
#include "decode_free.h"
#include "twin.h"
using namespace VATA;
#ifndef OP
#define OP 0
#endif
#ifndef DIR
#define DIR 0
#endif
#ifndef FLOW
#define FLOW 0
#endif
#ifndef NORD
#define NORD 2
#endif
#ifndef ORDBASE
#define ORDBASE 0
#endif
typedef U::SymAut<NS> SA;

// greatest downward simulation: q D r iff every rule a(q1..qk)->q is answered by a rule a(r1..rk)->r with qi D ri
static void refDown(const SA& a, bool (&D)[NS][NS]) {
  for (unsigned q = 0; q < NS; ++q) for (unsigned r = 0; r < NS; ++r) D[q][r] = true;
  for (unsigned it = 0; it < NS * NS; ++it)
    for (unsigned q = 0; q < NS; ++q) for (unsigned r = 0; r < NS; ++r) { bool ok = true;
      for (unsigned i = 0; i < a.nrules; ++i) { U::Rule x = U::Univ<NS>::rule(i); if (x.parent != q) continue;
        bool ans = false;
        for (unsigned j = 0; j < a.nrules; ++j) { U::Rule y = U::Univ<NS>::rule(j); if (y.parent != r || y.sym != x.sym) continue;
          bool m = a.pres[j]; for (unsigned k = 0; k < x.rank; ++k) m = m & D[x.child[k]][y.child[k]]; ans |= m; }
        ok = ok & (!a.pres[i] | ans); }
      D[q][r] = D[q][r] & ok; }
}
// greatest upward simulation induced by the identity: q V r implies (q final => r final) and every rule that uses q at
// child position i is answered by a rule with the same symbol that uses r at position i, identical siblings, related parent
static void refUp(const SA& a, bool (&V)[NS][NS]) {
  for (unsigned q = 0; q < NS; ++q) for (unsigned r = 0; r < NS; ++r) V[q][r] = !a.fin[q] | a.fin[r];
  for (unsigned it = 0; it < NS * NS; ++it)
    for (unsigned q = 0; q < NS; ++q) for (unsigned r = 0; r < NS; ++r) { bool ok = true;
      for (unsigned i = 0; i < a.nrules; ++i) { U::Rule x = U::Univ<NS>::rule(i);
        for (unsigned pos = 0; pos < x.rank; ++pos) { if (x.child[pos] != q) continue;
          bool ans = false;
          for (unsigned j = 0; j < a.nrules; ++j) { U::Rule y = U::Univ<NS>::rule(j); if (y.sym != x.sym || y.child[pos] != r) continue;
            bool sib = true; for (unsigned k = 0; k < x.rank; ++k) if (k != pos && y.child[k] != x.child[k]) sib = false;
            if (!sib) continue;
            ans |= a.pres[j] & V[x.parent][y.parent]; }
          ok = ok & (!a.pres[i] | ans); } }
      V[q][r] = V[q][r] & ok; }
}
// idx[s]: the number under which library state s (< NS) is known to the returned relation
static AutBase::StateDiscontBinaryRelation simOf(const ExplicitTreeAut& aut, unsigned long (&idx)[NS]) {
  SimParam sp; sp.SetRelation(DIR == 0 ? SimParam::e_sim_relation::TA_DOWNWARD : SimParam::e_sim_relation::TA_UPWARD);
#if FLOW == 0
  for (unsigned s = 0; s < NS; ++s) idx[s] = s;
  sp.SetNumStates(NS);
  return aut.ComputeSimulation(sp);
#else
  AutBase::StateToStateMap translMap; AutBase::StateType stateCnt = 0;
  AutBase::StateToStateTranslWeak stateTransl(translMap, [&stateCnt](const AutBase::StateType&) { return stateCnt++; });
  ExplicitTreeAut re = aut.ReindexStates(stateTransl);
  for (unsigned s = 0; s < NS; ++s) idx[s] = 0;
  for (const auto& kv : translMap) for (unsigned s = 0; s < NS; ++s) if (kv.first == s) idx[s] = kv.second;
  sp.SetNumStates(stateCnt);
  return re.ComputeSimulation(sp);
#endif
}
// number of distinct states that occur in a library automaton, by iterating it.  The state numbers are only compared with
// each other (slot table of decode_free.h), so results that are renumbered (all three operations may: translation-map
// out-parameters / collapsed classes) are counted correctly; inRange = false: more than NS distinct states
static unsigned countStates(const ExplicitTreeAut& aut, bool& inRange) {
  U::Slots<NS> sl; bool hot[NS];
  for (const ExplicitTreeAut::Transition& t : aut) { sl.locate(t.GetParent(), hot); for (const auto& c : t.GetChildren()) sl.locate(c, hot); }
  for (const auto& f : aut.GetFinalStates()) sl.locate(f, hot);
  inRange &= sl.ok;
  return sl.count();
}
static unsigned popcount(unsigned m) { unsigned n = 0; for (unsigned s = 0; s < NS; ++s) n += (m >> s) & 1; return n; }

extern "C" void harness(void)
{
  SA A; A.draw();
  const unsigned p = vs_range(TW::Perms<NS>::COUNT), ord = ORDBASE + vs_range(NORD);
  const unsigned used = U::usedStates(A);
#if OP != 2
#if DIR == 1
  vs_assume(U::usefulStates(A) == used);       // upward simulation is specified for automata without useless states
#endif
#if FLOW == 0
  vs_assume(used == (1u << NS) - 1);           // states numbered 0..NS-1 and NS passed as the number of states
#endif
#endif
  ExplicitTreeAut tw; TW::build<NS>(A, tw, p, ord, ORDBASE + NORD);
  unsigned pi[NS]; for (unsigned s = 0; s < NS; ++s) { pi[s] = 0; for (unsigned k = 0; k < (unsigned)TW::Perms<NS>::COUNT; ++k) if (p == k) pi[s] = TW::Perms<NS>::at(k, s); }
#if OP == 0
  bool R[NS][NS]; if (DIR == 0) refDown(A, R); else refUp(A, R);
#ifdef VS_SELFTEST_1
  R[0][NS - 1] = !R[0][NS - 1];                // seeded wrong reference
#endif
  unsigned long ix[NS];
  AutBase::StateDiscontBinaryRelation sim = simOf(tw, ix);
  unsigned long obs = 0;
  for (unsigned q = 0; q < NS; ++q) for (unsigned r = 0; r < NS; ++r) if (((used >> q) & 1) && ((used >> r) & 1)) {
    unsigned long tq = 0, tr = 0; for (unsigned s = 0; s < NS; ++s) { if (pi[q] == s) tq = ix[s]; if (pi[r] == s) tr = ix[s]; }
    const bool g = sim.get(tq, tr); CHECK(g == R[q][r], 1); obs |= (unsigned long)g << (q * NS + r); }
#ifdef VS_OBSERVE
  vs_observe(obs); vs_observe(used);
#endif
#elif OP == 1
  ExplicitTreeAut orig; A.build(orig);
  unsigned long i0[NS], i1[NS];
  AutBase::StateDiscontBinaryRelation s0 = simOf(orig, i0), s1 = simOf(tw, i1);
  unsigned long obs = 0;
  for (unsigned q = 0; q < NS; ++q) for (unsigned r = 0; r < NS; ++r) if (((used >> q) & 1) && ((used >> r) & 1)) {
    unsigned long tq = 0, tr = 0; for (unsigned s = 0; s < NS; ++s) { if (pi[q] == s) tq = i1[s]; if (pi[r] == s) tr = i1[s]; }
    bool g0 = s0.get(i0[q], i0[r]); const bool g1 = s1.get(tq, tr);
#ifdef VS_SELFTEST_1
    if (q == 0 && r == NS - 1 && p == TW::Perms<NS>::COUNT - 1) g0 = !g0;     // seeded: a difference for one renaming
#endif
    CHECK(g0 == g1, 11); obs |= (unsigned long)g1 << (q * NS + r); }
#ifdef VS_OBSERVE
  vs_observe(obs); vs_observe(used);
#endif
#else
  ExplicitTreeAut orig; A.build(orig);
  bool inRange = true;
  const unsigned r0 = countStates(orig.Reduce(), inRange), r1 = countStates(tw.Reduce(), inRange);
  const unsigned u0 = countStates(orig.RemoveUselessStates(), inRange), u1 = countStates(tw.RemoveUselessStates(), inRange);
  const unsigned n0 = countStates(orig.RemoveUnreachableStates(), inRange), n1 = countStates(tw.RemoveUnreachableStates(), inRange);
  CHECK(inRange, 20);                               // no result has more states than the universe (needed to count them at all)
  unsigned u0x = u0;
#ifdef VS_SELFTEST_1
  u0x += (A.pres[0] && ord == ORDBASE + NORD - 1);  // seeded: pretends a different count for one insertion order
#endif
  CHECK(r0 == r1, 21);                              // Reduce: same number of states for the twin
  // Same number of states for the twin (this property), and never MORE than the reference count: both calls REMOVE states, so
  // what is left is (up to renaming) a part of A, and by C03 every state left is useful resp. reachable top-down from a final
  // state - hence one of A's useful resp. reachable states (final states count as reachable, with or without rules).  An
  // implementation that drops more (e.g. a useful but redundant state) is fine; see STRICT_IMPL below for "exactly".
  // (Seeded change C19-m3 - RemoveUselessStates keeps unproductive states - shows up here as 3 states where 2 are useful.)
  CHECK(u0x == u1 && u1 <= popcount(U::usefulStates(A)), 22);
  CHECK(n0 == n1 && n1 <= popcount(U::reachableTD(A) & used), 23);
  CHECK(r1 <= popcount(used), 24);                  // "reducing w.r.t. the number of states" (header of Reduce; C05)
#ifdef STRICT_IMPL   // never defined.  This property only says that the counts do not depend on numbering / insertion order.
  // WHICH count comes out is the subject of C03, and there only "nothing dead is left" (the upper bounds above), not "every
  // useful state is kept": today exactly the useful states resp. the states reachable top-down from the final states (and
  // all final states) are left
  CHECK(u1 == popcount(U::usefulStates(A)), 25);
  CHECK(n1 == popcount(U::reachableTD(A) & used), 26);
#endif
#ifdef VS_OBSERVE
  vs_observe(r1); vs_observe(u1); vs_observe(n1);
#endif
#endif
#ifdef VS_WITNESS
  vs_reach();
#endif
}
