// C19 (a): inclusion and emptiness verdicts do not depend on how the operands are numbered / inserted.
// Symbolic pair (A over NA states, B over NB states, universe alphabet SYM_RANKS).  The library operands are built as
// TWINS: states renamed by a symbolic permutation (pa of A, pb of B; optionally spread to sparse numbers by BASE/STRIDE),
// rules and final states inserted in a symbolic order (orders ORDBASE .. ORDBASE+NORD-1 of: forward, backward, rotated, odd-then-even), symbols
// renumbered by the concrete table SYMMAP.  Solver variables: presence/finality bits of A and B, permutation and order bits.
//   OP 0: verdict of selection SEL on the twin pair == numbering-free macro-state oracle on (A, B); IsLangEmpty of both
//         twins == oracle.  Since the identity/forward twin is one of the cases, every twin agrees with the original.
//   OP 1: direct metamorphic form (no oracle): verdict on the twin pair == verdict on the identically numbered pair,
//         and all selections in SELS (bit mask) agree with each other on the twin pair.
#include <vata/explicit_tree_aut.hh>
#include "universe.h"
#include "incl_prep.h"
#include "twin.h"
using namespace VATA;
#ifndef NA
#define NA 1
#endif
#ifndef NB
#define NB 1
#endif
#ifndef SEL
#define SEL 0
#endif
#ifndef OP
#define OP 0
#endif
#ifndef NORD
#define NORD 4
#endif
#ifndef ORDBASE
#define ORDBASE 0
#endif
#ifndef BASE
#define BASE 0
#endif
#ifndef STRIDE
#define STRIDE 1
#endif
#ifndef SELS
#define SELS 0xff
#endif
#ifdef SYMMAP
static const unsigned SYMTAB[U::NSYM] = SYMMAP;
#define SYMPTR SYMTAB
#else
#define SYMPTR 0
#endif
// SEL: bit0 = sim, bits 1..2: 0 up, 1 down non-recursive, 2 down recursive, 3 down recursive + implication cache
static bool run(const ExplicitTreeAut& a, const ExplicitTreeAut& b, unsigned sel) {
  const bool sim = sel & 1; const unsigned alg = sel >> 1;
  return prepared_inclusion<ExplicitTreeAut>(a, b, alg == 0, alg >= 2, alg == 3, sim);
}
extern "C" void harness(void)
{
  U::SymAut<NA> A; A.draw();
  U::SymAut<NB> B; B.draw();
  const unsigned pa = vs_range(TW::Perms<NA>::COUNT), pb = vs_range(TW::Perms<NB>::COUNT), ord = ORDBASE + vs_range(NORD);
  ExplicitTreeAut a, b;
  TW::build<NA>(A, a, pa, ord, ORDBASE + NORD, BASE, STRIDE, SYMPTR);
  TW::build<NB>(B, b, pb, ord, ORDBASE + NORD, BASE, STRIDE, SYMPTR);
#if OP == 0
  bool expect = U::included<NA, NB>(A, B);
#ifdef VS_SELFTEST_1
  expect = expect && !(A.pres[0] && pa == TW::Perms<NA>::COUNT - 1 && ord == ORDBASE + NORD - 1);   // seeded: oracle wrong for ONE twin only
#endif
  const bool verdict = run(a, b, SEL);
  CHECK(verdict == expect, 1);
  const bool ea = a.IsLangEmpty(), eb = b.IsLangEmpty();
  CHECK(ea == U::langEmpty(A), 2);
  CHECK(eb == U::langEmpty(B), 3);
#ifdef VS_OBSERVE
  vs_observe(verdict); vs_observe(expect); vs_observe(ea); vs_observe(eb);
#endif
#else
  ExplicitTreeAut a0, b0; A.build(a0); B.build(b0);          // the identically numbered, forward-inserted originals
  bool first = true, v0 = false, agree = true, same = true;
  for (unsigned sel = 0; sel < 8; ++sel) if ((SELS >> sel) & 1) {
    const bool vt = run(a, b, sel), vo = run(a0, b0, sel);
    same &= (vt == vo);
    if (first) { v0 = vt; first = false; } else agree &= (vt == v0);
  }
#ifdef VS_SELFTEST_1
  same = same && !(A.pres[0] && ord == ORDBASE + NORD - 1);            // seeded: claims a difference for one insertion order
#endif
  CHECK(same, 11);      // renaming / reordering never changes a verdict
  CHECK(agree, 12);     // every selected inclusion algorithm returns the same verdict
  CHECK(a.IsLangEmpty() == a0.IsLangEmpty(), 13);
#ifdef VS_OBSERVE
  vs_observe(v0); vs_observe(same); vs_observe(agree);
#endif
#endif
#ifdef VS_WITNESS
  vs_reach();
#endif
}
