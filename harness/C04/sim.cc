// C04: ExplicitTreeAut::ComputeSimulation (DIR 0: TA_DOWNWARD, DIR 1: TA_UPWARD) on a symbolic automaton over the rule
// universe U(NS, SYM_RANKS) whose states are renamed by a symbolic permutation of 0..NS-1 before the automaton is built
// (PERM=1), with NS passed as the number of states.  The returned DiscontBinaryRelation is read with get(x,y) for all
// states and compared with the greatest downward / upward simulation computed by a naive fixpoint on the un-renamed
// automaton.  Downward: arbitrary automata (useless / leaf-only states included).  Upward: automata without useless
// states (all NS states useful).  Solver variables: rule presence bits, finality bits, permutation bits.
// RMASK restricts the rule universe to a sub-universe (bit i = universe rule i may be present); PERMFIX=k replaces the
// symbolic permutation by the k-th concrete one (used where symbolic state numbers would make hash values symbolic).
// VIA_REINDEX: the path of `vata sim` (cli/operations.hh): the automaton, built with the arbitrary concrete numbers RENAME
// (composed with the permutation), is first renumbered densely by ReindexStates with a weak translator, the number of
// states counted by that translator is passed on, and the relation is read at the translated numbers.
#include <vata/explicit_tree_aut.hh>
#include <vata/sim_param.hh>
#include "sim_oracle.h"
using namespace VATA;
#ifndef DIR
#define DIR 0
#endif
#ifndef PERM
#define PERM 1
#endif
#ifndef RMASK
#define RMASK (~0ul)     // sub-universe: bit i set = universe rule i may be present
#endif
#ifndef RENAME
#define RENAME {0, 1, 2, 3}   // concrete state numbers; only with VIA_REINDEX may they be sparse (>= NS)
#endif
static const unsigned RENAME_TAB[] = RENAME;
typedef U::SymAut<NS> SA;
static unsigned popcount(unsigned m) { unsigned c = 0; for (unsigned i = 0; i < 32; ++i) c += (m >> i) & 1; return c; }

extern "C" void harness(void)
{
  // ---- inputs
  SA A; U::drawMasked<NS>(A, RMASK);
  U::Perm<NS> P;
#ifdef PERMFIX
  P.fixed(PERMFIX);                            // concrete numbering: the PERMFIX-th permutation (keeps the hashed state numbers concrete)
#else
  if (PERM) P.draw(); else P.identity();
#endif
  const unsigned ALL = (1u << NS) - 1;
  const unsigned occ = U::occurring(A);
#if DIR == 1
#ifndef ANY_AUTOMATON                          // C20 runs this harness on every automaton (memory safety is not limited to trimmed ones)
  vs_assume(U::usefulStates(A) == ALL);        // no useless states (then every present rule is useful as well)
#endif
#ifdef KF_EXCLUDE_UPWARD_ENV
  vs_assume(!U::hasRankAtLeast2(A));           // known finding C04-1: parent of a rank>=2 rule translated twice
#endif
#endif
  // ---- the automaton under test, with renamed states
  unsigned ren[NS]; for (unsigned q = 0; q < NS; ++q) { ren[q] = 0; for (unsigned v = 0; v < NS; ++v) ren[q] = P.p[q] == v ? RENAME_TAB[v] : ren[q]; }
  ExplicitTreeAut aut; A.build(aut, ren);
  SimParam sp;
  sp.SetRelation(DIR == 0 ? SimParam::e_sim_relation::TA_DOWNWARD : SimParam::e_sim_relation::TA_UPWARD);
#ifdef VIA_REINDEX
  AutBase::StateToStateMap translMap; AutBase::StateType stateCnt = 0;
  AutBase::StateToStateTranslWeak stateTransl(translMap, [&stateCnt](const AutBase::StateType&) { return stateCnt++; });
  ExplicitTreeAut dense = aut.ReindexStates(stateTransl);
  CHECK(stateCnt == popcount(occ), 4);         // the translator has seen exactly the states of the automaton
  sp.SetNumStates(stateCnt);
  AutBase::StateDiscontBinaryRelation sim = dense.ComputeSimulation(sp);
#else
  sp.SetNumStates(NS);
#ifdef COPYREL
  // the caller keeps a COPY of the returned relation and then re-uses the variable it came from for the simulation of the
  // same automaton under another numbering: the copy must keep answering for the numbering it was computed for
  AutBase::StateDiscontBinaryRelation first = aut.ComputeSimulation(sp);
  AutBase::StateDiscontBinaryRelation sim(first);
  { unsigned ren2[NS]; for (unsigned q = 0; q < NS; ++q) ren2[q] = ren[NS - 1 - q];
    ExplicitTreeAut aut2; A.build(aut2, ren2); first = aut2.ComputeSimulation(sp); }
#else
  AutBase::StateDiscontBinaryRelation sim = aut.ComputeSimulation(sp);
#endif
#endif

  // ---- oracle on the canonical numbering, transported along the permutation
  bool S[NS][NS], E[NS][NS];
#if DIR == 0
#ifdef VS_SELFTEST_1
  U::downwardSimulation<NS>(A, S, 0);          // seeded wrong oracle: rules of symbol 0 never challenge
#else
  U::downwardSimulation<NS>(A, S);
#endif
#else
#ifdef VS_SELFTEST_1
  U::upwardSimulation<NS>(A, S, true);         // seeded wrong oracle: finality ignored
#else
  U::upwardSimulation<NS>(A, S);
#endif
#endif
#ifdef VIA_REINDEX
  // canonical numbering throughout: state q of the universe is the library state translMap[ren[q]]
  for (unsigned q = 0; q < NS; ++q) for (unsigned r = 0; r < NS; ++r) E[q][r] = S[q][r];
  const unsigned occR = occ;
  unsigned long dn[NS]; for (unsigned q = 0; q < NS; ++q) { dn[q] = 0; if ((occ >> q) & 1) { auto it = translMap.find(ren[q]); CHECK(it != translMap.end(), 5); if (it != translMap.end()) dn[q] = it->second; CHECK(dn[q] < stateCnt, 6); } }
  for (unsigned q = 0; q < NS; ++q) for (unsigned r = 0; r < NS; ++r) CHECK(q == r || !((occ >> q) & 1) || !((occ >> r) & 1) || dn[q] != dn[r], 7);   // injective
#define LIBSTATE(x) dn[x]
#else
  P.apply(S, E);
  const unsigned occR = P.applyMask(occ);      // occurring states in the numbering of the library automaton
#define LIBSTATE(x) (x)
#endif

  // ---- the property: get(x,y) for all states of the automaton (a number that does not occur is not a state)
  bool G[NS][NS];
#ifdef ANY_AUTOMATON
  vs_allow_throw(1);                           // get() on a state the relation does not know throws; only memory safety is checked here
#endif
  for (unsigned x = 0; x < NS; ++x) for (unsigned y = 0; y < NS; ++y) { G[x][y] = false;
    if (((occR >> x) & 1) & ((occR >> y) & 1)) {
      G[x][y] = sim.get(LIBSTATE(x), LIBSTATE(y));
#ifdef VS_SELFTEST_2
      CHECK(G[x][y] == E[y][x], 1);            // seeded wrong expectation: direction swapped
#elif defined(C04_ONLY_SOUNDNESS)
      CHECK(!G[x][y] || E[x][y], 1);           // diagnosis aid: only "the result is contained in the greatest simulation"
#else
      CHECK(G[x][y] == E[x][y], 1);
#endif
    } }
  // reflexive and transitive on the states of the automaton
  for (unsigned x = 0; x < NS; ++x) CHECK(!((occR >> x) & 1) || G[x][x], 2);
  for (unsigned x = 0; x < NS; ++x) for (unsigned y = 0; y < NS; ++y) for (unsigned z = 0; z < NS; ++z) CHECK(!(G[x][y] & G[y][z]) || G[x][z], 3);
#ifdef VS_OBSERVE
  { unsigned long g = 0, e = 0; for (unsigned x = 0; x < NS; ++x) for (unsigned y = 0; y < NS; ++y) { g |= (unsigned long)G[x][y] << (x * NS + y); e |= (unsigned long)(E[x][y] & ((occR >> x) & 1) & ((occR >> y) & 1)) << (x * NS + y); }
    vs_observe(g); vs_observe(e); vs_observe(occR); }
#endif
#ifdef VS_WITNESS
  vs_reach();
#endif
}
