// C06: ExplicitTreeAut::Complement() on a symbolic automaton A over the rule universe U(NS, SYM_RANKS), with an on-the-fly
// alphabet that contains the universe symbols plus the extra symbols XRANKS (registered, never used by A).
// Solver variables: one presence bit per universe rule, one finality bit per state of A.
// Oracle: every tree over the alphabet is accepted by exactly one of A and C = Complement(A) (profile fixpoint of
// compl_oracle.h over the decoded C); C has no rule whose symbol/rank is outside the alphabet.
//   REGMODE 0: symbols registered in index order (universe, then extras), names a,b,c,...   -> symbol number = index
//   REGMODE 1: extras first, then the universe symbols in reverse order, names z,y,x,...    -> numbers reversed, dictionary
//              order (rank, name) differs from the numbering
//   GLOBAL_ALPHA: do not SetAlphabet(); register into the library's global on-the-fly alphabet (what `vata cmpl` does)
//   SMAP: brace list, library state number of universe state s (default: s) - sparse / permuted numberings
#include <vata/explicit_tree_aut.hh>
#include <string>
#include "universe.h"
#include "compl_oracle.h"
#include "decode_free.h"
using namespace VATA;
#ifndef XRANKS
#define XRANKS {}
#define NXR 0
#endif
#ifndef REGMODE
#define REGMODE 0
#endif
#ifndef ROUNDS
#define ROUNDS 6
#endif
typedef U::SymAut<NS> SA;
enum { MC = 1u << NS };            // macro-states of the complement = subsets of A's states: at most 2^NS distinct states in the result
#ifdef SMAP
static const unsigned STATE_OF[NS] = SMAP;
static unsigned stateOf(unsigned s) { return STATE_OF[s]; }
#else
static unsigned stateOf(unsigned s) { return s; }
#endif
#if NXR > 0
static const unsigned char XR[NXR] = XRANKS;
#endif
enum { NAL = U::NSYM + NXR };       // alphabet: index k < U::NSYM = universe symbol k, then the extras
static_assert(NAL <= CO::MAXSYM, "alphabet larger than the oracle tables (CO::MAXSYM)");

extern "C" void harness(void)
{
  SA A; A.draw();
  // ---- the alphabet
  unsigned char arank[CO::MAXSYM]; unsigned long symnum[CO::MAXSYM];
  for (unsigned k = 0; k < NAL; ++k) arank[k] = k < U::NSYM ? U::RANK[k] :
#if NXR > 0
    XR[k - U::NSYM];
#else
    0;
#endif
  ExplicitTreeAut aut;
#ifndef GLOBAL_ALPHA
  ExplicitTreeAut::AlphabetType alph(new ExplicitTreeAut::OnTheFlyAlphabet);
  aut.SetAlphabet(alph);
#endif
  {
    ExplicitTreeAut::AbstractAlphabet::FwdTranslatorPtr reg = aut.GetAlphabet()->GetSymbolTransl();
    for (unsigned i = 0; i < NAL; ++i) {
      unsigned k = REGMODE == 0 ? i : NAL - 1 - i;
      std::string name(1, (char)(REGMODE == 0 ? 'a' + k : 'z' - k));
      symnum[k] = (*reg)(ExplicitTreeAut::StringRank(name, arank[k]));
    }
  }
  // ---- the operand
  for (unsigned i = 0; i < A.nrules; ++i) if (A.pres[i]) {
    U::Rule r = U::Univ<NS>::rule(i); ExplicitTreeAut::StateTuple t;
    for (unsigned k = 0; k < r.rank; ++k) t.push_back(stateOf(r.child[k]));
    aut.AddTransition(t, symnum[r.sym], stateOf(r.parent));
  }
  for (unsigned s = 0; s < NS; ++s) if (A.fin[s]) aut.SetStateFinal(stateOf(s));

#ifndef VIA
#define VIA 0
#endif
  // VIA: the automaton that is complemented is A itself (0) or an object that received A's value: 1 copy assignment into an
  // object that was associated with another on-the-fly alphabet {x:0, y:0, z:1} and held a rule over it, 2 copy construction,
  // 3 move assignment into such an object.  The value of an automaton includes the alphabet it is associated with.
#if VIA == 1 || VIA == 3
  ExplicitTreeAut other;
  { ExplicitTreeAut::AlphabetType alph2(new ExplicitTreeAut::OnTheFlyAlphabet); other.SetAlphabet(alph2);
    ExplicitTreeAut::AbstractAlphabet::FwdTranslatorPtr reg2 = other.GetAlphabet()->GetSymbolTransl();
    const unsigned long x = (*reg2)(ExplicitTreeAut::StringRank("x", 0)); (*reg2)(ExplicitTreeAut::StringRank("y", 0)); (*reg2)(ExplicitTreeAut::StringRank("z", 1));
    other.AddTransition(ExplicitTreeAut::StateTuple(), x, 0); other.SetStateFinal(0); }
#if VIA == 1
  other = aut;
#else
  { ExplicitTreeAut tmp(aut); other = std::move(tmp); }
#endif
  ExplicitTreeAut cmpl = other.Complement();
#elif VIA == 2
  ExplicitTreeAut other(aut);
  ExplicitTreeAut cmpl = other.Complement();
#else
  ExplicitTreeAut cmpl = aut.Complement();
#endif

  // ---- decode the result by iterating it: every rule must be a rule over the alphabet (symbol with its rank).  The state
  // numbers of the result are NOT interpreted (how Complement numbers its macro-states is not part of the contract): the
  // distinct numbers are collected into a slot table (decode_free.h) and the tables of C are indexed by slot.  The only
  // bound is the number of DISTINCT states, at most MC = 2^NS (a subset construction over NS states has no more).
  static CO::Tab<MC> C; C.clear(NAL, arank);
  U::Slots<MC> slots;
  bool inAlphabet = true, inRange = true; unsigned long nrulesC = 0;
  for (const ExplicitTreeAut::Transition& t : cmpl) {
    ++nrulesC;
    const unsigned long sym = t.GetSymbol(); const unsigned long n = t.GetChildren().size();
    bool hp[MC], h0[MC], h1[MC]; for (unsigned p = 0; p < MC; ++p) h0[p] = h1[p] = false;
    slots.locate(t.GetParent(), hp);
    if (n > 0) slots.locate(t.GetChildren()[0], h0);
    if (n > 1) slots.locate(t.GetChildren()[1], h1);
    bool symOk = false;
    for (unsigned k = 0; k < NAL; ++k) { bool es = (sym == symnum[k]) & (n == arank[k]); symOk |= es;
      for (unsigned p = 0; p < MC; ++p) { bool ep = es & hp[p];
        if (arank[k] == 0) C.r0[k][p] |= ep;
        else if (arank[k] == 1) { for (unsigned c = 0; c < MC; ++c) C.r1[k][p][c] |= ep & h0[c]; }
        else if (MC <= 4) { for (unsigned c = 0; c < MC; ++c) for (unsigned d = 0; d < MC; ++d) C.r2[k][p][c % (MC <= 4 ? MC : 1)][d % (MC <= 4 ? MC : 1)] |= ep & h0[c] & h1[d]; } } }
    inAlphabet &= symOk;
    inRange &= (n <= 2);
  }
  for (const auto& s : cmpl.GetFinalStates()) { bool hf[MC]; slots.locate(s, hf); for (unsigned p = 0; p < MC; ++p) C.fin[p] |= hf[p]; }
  inRange &= slots.ok;
  CHECK(inAlphabet, 1);      // Complement(A) has no rule with a symbol outside S (or with a wrong rank): it accepts no such tree
  CHECK(inRange, 2);         // decoding bound: the result has at most 2^NS distinct states (any numbering)
#ifdef STRICT_IMPL   // never defined: implementation detail of the current Complement (macro-states numbered on the fly from 0)
  { bool dense = true; for (const ExplicitTreeAut::Transition& t : cmpl) { dense &= t.GetParent() < MC; for (const auto& c : t.GetChildren()) dense &= c < MC; }
    for (const auto& s : cmpl.GetFinalStates()) dense &= s < MC;
    CHECK(dense, 2); }
#endif

  // ---- the operand as rule tables (straight from the input bits)
  static CO::Tab<NS> T; T.clear(NAL, arank);
  for (unsigned i = 0; i < A.nrules; ++i) { U::Rule r = U::Univ<NS>::rule(i);
    if (r.rank == 0) T.r0[r.sym][r.parent] = A.pres[i]; else if (r.rank == 1) T.r1[r.sym][r.parent][r.child[0]] = A.pres[i];
    else T.r2[r.sym][r.parent][r.child[0] % (NS <= 4 ? NS : 1)][r.child[1] % (NS <= 4 ? NS : 1)] = A.pres[i]; }
  for (unsigned s = 0; s < NS; ++s) T.fin[s] = A.fin[s];
#ifdef VS_SELFTEST_1
  T.fin[0] = !T.fin[0];                 // seeded wrong oracle: the oracle's A differs from the operand in one final state
#endif
#ifdef VS_SELFTEST_2
  for (unsigned p = 0; p < MC; ++p) C.r0[0][p] = false;   // seeded incomplete complement (what the unit test cannot see): union no longer universal
#endif
#ifdef VS_SELFTEST_3
  for (unsigned p = 0; p < MC; ++p) C.r0[0][p] |= C.fin[p];   // seeded too large complement: intersection no longer empty
#endif
  static CO::Profiles<NS, MC> P; P.compute(T, C, ROUNDS);
  CHECK(P.supported, 3);
  CHECK(P.converged, 4);     // oracle-side: the fixpoint was reached within ROUNDS rounds
  const unsigned fa = T.finMask(), fc = C.finMask();
  CHECK(P.disjoint(fa, fc), 5);   // no tree over S is accepted by both A and Complement(A)
  CHECK(P.covering(fa, fc), 6);   // every tree over S is accepted by A or by Complement(A)

  // ---- operand unchanged
  { bool same = true; unsigned long cnt = 0;
    for (const ExplicitTreeAut::Transition& t : aut) { ++cnt; bool m = false;
      for (unsigned i = 0; i < A.nrules; ++i) { U::Rule r = U::Univ<NS>::rule(i);
        bool e = A.pres[i] & (t.GetSymbol() == symnum[r.sym]) & (t.GetParent() == stateOf(r.parent)) & (t.GetChildren().size() == r.rank);
        for (unsigned k = 0; k < r.rank; ++k) e = e && t.GetChildren()[k] == stateOf(r.child[k]);
        m |= e; }
      same &= m; }
    unsigned long exp = 0; for (unsigned i = 0; i < A.nrules; ++i) exp += A.pres[i];
    CHECK(same && cnt == exp, 7);
    for (unsigned s = 0; s < NS; ++s) CHECK(aut.IsStateFinal(stateOf(s)) == A.fin[s], 8); }
#ifdef VS_OBSERVE
  // numbering of the macro-states depends on hash-table iteration over pointers: observe numbering-independent values only
  { unsigned used = 0; for (unsigned k = 0; k < NAL; ++k) for (unsigned p = 0; p < MC; ++p) { if (arank[k] == 0) used |= (unsigned)C.r0[k][p] << p; }
    unsigned nfin = 0; for (unsigned p = 0; p < MC; ++p) nfin += (fc >> p) & 1;   // (slot indices follow the iteration order: only counts are observed)
    vs_observe(nrulesC); vs_observe(C.ruleCount()); vs_observe(nfin); vs_observe(P.count()); vs_observe(P.disjoint(fa, fc)); vs_observe(P.covering(fa, fc)); vs_observe(used != 0); }
#endif
#ifdef VS_WITNESS
  vs_reach();
#endif
}
