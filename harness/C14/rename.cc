// C14: ReindexStates / CollapseStates / TranslateSymbols on a symbolic automaton A over the universe U(NS, SYM_RANKS) with a
// symbolic map.  Solver variables: presence bit per universe rule, finality bit per state, and per state (OP 0..3) the
// target index tgt[s] < NT (vs_range), resp. per symbol (OP 4) the target symbol within the symbols of the same rank.
//   OP 0 ReindexStates(AbstractReindexF&, ADDFIN)             -> fresh automaton
//      1 ReindexStates(dst, AbstractReindexF&, ADDFIN), dst = a copy of A (shares its storage)  -> dst = A u image(A)
//      2 ReindexStates(StateToStateTranslWeak&): weak translator whose allocator is the symbolic map (PREFILL: entry for
//        state 0 pre-entered with another symbolic target); the translator's map is read back afterwards
//      3 CollapseStates(const StateToStateMap&) with a total map
//      4 TranslateSymbols(AbstractSymbolTranslateF&)
//      5 ReindexStates(StateToStateTranslWeak&) with a counting allocator from OFFSET (first come, first numbered): the
//        map is read back and must be injective, into [OFFSET, OFFSET+NS), and the result its image
//   SPARSE 1: target index v is the library state number (v+1)*0x100000003 (symbols: 42 + 1000*f), 0: v itself
//   NT: number of target indices (default NS)
// The image oracle (U::imageAdd) works on masks: a rule / final state is expected iff it is the image of one of A.
#include <vata/explicit_tree_aut.hh>
#include "universe.h"
#include "decode.h"
using namespace VATA;
#ifndef OP
#define OP 0
#endif
#ifndef NT
#define NT NS
#endif
#ifndef SPARSE
#define SPARSE 0
#endif
#ifndef ADDFIN
#define ADDFIN 1
#endif
#ifndef PREFILL
#define PREFILL 0
#endif
#ifndef OFFSET
#define OFFSET 1000
#endif
#if OP == 4 || OP == 5
enum { MR = NS };
#else
enum { MR = NT };
#endif
typedef U::SymAut<NS> SA; typedef U::SymAut<MR> SR;
typedef AutBase::StateType StateType;
enum { NONE = 0xFFFF };

struct MapF : public AbstractReindexF {
  const unsigned* tgt; const unsigned long* name;
  MapF(const unsigned* t, const unsigned long* n) : tgt(t), name(n) { }
  StateType at(const StateType& s) const override { StateType r = ~(StateType)0; for (unsigned i = 0; i < NS; ++i) r = (s == i) ? (StateType)name[tgt[i]] : r; return r; }
  StateType operator[](const StateType& s) override { return this->at(s); }
};
struct SymF : public ExplicitTreeAut::AbstractSymbolTranslateF {
  const unsigned* stgt; const unsigned long* name;
  SymF(const unsigned* t, const unsigned long* n) : stgt(t), name(n) { }
  ExplicitTreeAut::SymbolType operator()(const ExplicitTreeAut::SymbolType& f) override { ExplicitTreeAut::SymbolType r = ~(ExplicitTreeAut::SymbolType)0; for (unsigned i = 0; i < U::NSYM; ++i) r = (f == i) ? (ExplicitTreeAut::SymbolType)name[stgt[i]] : r; return r; }
};
static unsigned popcount(unsigned m) { unsigned c = 0; for (unsigned s = 0; s < 32; ++s) c += (m >> s) & 1; return c; }

extern "C" void harness(void)
{
  SA A; A.draw();
  unsigned tgt[NS]; unsigned stgt[U::NSYM];
#if OP == 4
  // symbol f goes to the k-th symbol of the same rank
  for (unsigned f = 0; f < U::NSYM; ++f) { unsigned group[U::NSYM], n = 0; for (unsigned g = 0; g < U::NSYM; ++g) if (U::RANK[g] == U::RANK[f]) group[n++] = g;
    unsigned k = vs_range(n); unsigned t = group[0]; for (unsigned j = 0; j < n; ++j) t = (k == j) ? group[j] : t; stgt[f] = t; }
  for (unsigned s = 0; s < NS; ++s) tgt[s] = s;
#elif OP == 5
  for (unsigned s = 0; s < NS; ++s) tgt[s] = NONE;
#else
  for (unsigned s = 0; s < NS; ++s) tgt[s] = vs_range(NT);
#endif
#if PREFILL
  const bool preOn = vs_bit(); const unsigned preV = vs_range(NT);
#endif
  unsigned long name[MR], symName[U::NSYM];
  // library number of target index v (OP 1: dst already holds A under its own numbers, so indices < NS keep them; OP 4: states are not renamed; OP 5: OFFSET + v)
  for (unsigned v = 0; v < MR; ++v) name[v] = OP == 5 ? OFFSET + v : (SPARSE && OP != 4 && !(OP == 1 && v < NS)) ? (v + 1) * 0x100000003UL : v;
  for (unsigned f = 0; f < U::NSYM; ++f) symName[f] = (SPARSE && OP == 4) ? 42 + 1000 * f : f;

  ExplicitTreeAut a; A.build(a);
  const unsigned usedA = U::usedStates(A);
  SR R, E; U::clear(E);

#if OP == 0
  MapF f(tgt, name);
  ExplicitTreeAut res = a.ReindexStates(f, ADDFIN);
#elif OP == 1
  MapF f(tgt, name);
  ExplicitTreeAut res(a);                       // copy: shares the transition storage with a (copy on write)
  a.ReindexStates(res, f, ADDFIN);
  { unsigned id[NS]; for (unsigned s = 0; s < NS; ++s) id[s] = s; U::imageAdd<NS, MR>(A, id, E); }   // what dst held before
#elif OP == 2
  AutBase::StateToStateMap m;
#if PREFILL
  if (preOn) m.insert(std::make_pair((StateType)0, (StateType)name[preV]));
  tgt[0] = preOn ? preV : tgt[0];               // the pre-entered translation wins, the allocator is not asked
#endif
  const unsigned* ctgt = tgt; const unsigned long* cname = name;
  AutBase::StateToStateTranslWeak w(m, [ctgt, cname](const StateType& s) { StateType r = ~(StateType)0; for (unsigned i = 0; i < NS; ++i) r = (s == i) ? (StateType)cname[ctgt[i]] : r; return r; });
  ExplicitTreeAut res = a.ReindexStates(w);
#elif OP == 3
  AutBase::StateToStateMap m;
  for (unsigned s = 0; s < NS; ++s) m.insert(std::make_pair((StateType)s, (StateType)name[tgt[s]]));
  ExplicitTreeAut res = a.CollapseStates(m);
#elif OP == 4
  SymF f(stgt, symName);
  ExplicitTreeAut res = a.TranslateSymbols(f);
#else
  AutBase::StateToStateMap m; StateType cnt = OFFSET;
  AutBase::StateToStateTranslWeak w(m, [&cnt](const StateType&) { return cnt++; });
  ExplicitTreeAut res = a.ReindexStates(w);
#endif
  CHECK((U::decode<MR>(res, R, name, symName)), 1);

#if OP == 2 || OP == 5
  // ---- contents of the weak translator after the call: exactly the states of A (+ the pre-entered one)
  { bool has[NS]; unsigned long val[NS]; bool keysOk = true;
    for (unsigned s = 0; s < NS; ++s) { has[s] = false; val[s] = ~0UL; }
    for (const auto& kv : m) { bool in = false; for (unsigned s = 0; s < NS; ++s) { bool e = (kv.first == s); has[s] = has[s] | e; val[s] = e ? (unsigned long)kv.second : val[s]; in = in | e; } keysOk = keysOk & in; }
    CHECK(keysOk, 2);
    for (unsigned s = 0; s < NS; ++s) { bool pre = false;
#if PREFILL
      pre = preOn && s == 0;
#endif
      CHECK(has[s] == (((usedA >> s) & 1) || pre), 3);
#if OP == 2
      CHECK(!has[s] || val[s] == name[tgt[s]], 4);
#else
      CHECK(!has[s] || (val[s] >= OFFSET && val[s] < OFFSET + popcount(usedA)), 4);   // dense numbering from OFFSET
      tgt[s] = has[s] ? (unsigned)(val[s] - OFFSET) : NONE;                           // the map the library chose, as target index
#endif
    }
#if OP == 5
    for (unsigned s = 0; s < NS; ++s) for (unsigned t = s + 1; t < NS; ++t) CHECK(!(has[s] && has[t]) || val[s] != val[t], 5);
#endif
  }
#endif

  // ---- the result is exactly the image
#if OP == 4
  for (unsigned i = 0; i < A.nrules; ++i) { U::Rule r = U::Univ<NS>::rule(i);
    for (unsigned j = 0; j < E.nrules; ++j) { U::Rule q = U::Univ<NS>::rule(j);
      if (q.rank != r.rank || q.parent != r.parent || q.child[0] != r.child[0] || q.child[1] != r.child[1]) continue;
      E.pres[j] = E.pres[j] | (A.pres[i] & (stgt[r.sym] == q.sym)); } }
  for (unsigned s = 0; s < NS; ++s) E.fin[s] = A.fin[s];
#else
  { SA Af = A;
#if !ADDFIN
    for (unsigned s = 0; s < NS; ++s) Af.fin[s] = false;      // addFinalStates = false: only the rules are transferred
#endif
    U::imageAdd<NS, MR>(Af, tgt, E); }
#endif
#ifdef VS_SELFTEST_1
  for (unsigned j = 0; j < E.nrules; ++j) if (U::Univ<MR>::rule(j).rank == 1 && U::Univ<MR>::rule(j).parent == U::Univ<MR>::rule(j).child[0]) { E.pres[j] = false; break; }   // seeded wrong expectation: first loop rule f(q)->q never expected
#endif
  for (unsigned j = 0; j < E.nrules; ++j) CHECK(R.pres[j] == E.pres[j], 10);
  for (unsigned s = 0; s < MR; ++s) CHECK(R.fin[s] == E.fin[s], 11);

  // ---- consequences: language is preserved upwards; an injective renaming gives an isomorphic automaton
#if OP == 4
  { bool inj = true; for (unsigned f = 0; f < U::NSYM; ++f) for (unsigned g = f + 1; g < U::NSYM; ++g) inj = inj & (stgt[f] != stgt[g]);
    // L(R) is the relabelling of L(A): R against the mask-level image E in both directions (E accepts h(L(A)) by construction)
    CHECK((U::included<NS, NS>(E, R)), 20); CHECK((U::included<NS, NS>(R, E)), 21);
    CHECK(!inj || U::countRules(R) == U::countRules(A), 22); CHECK(U::usedStates(R) == usedA, 23);
    // an identity map returns the same automaton
    bool ident = true; for (unsigned f = 0; f < U::NSYM; ++f) ident = ident & (stgt[f] == f);
    CHECK(!ident || (U::sameAut<NS>(R, A)), 24); }
#elif ADDFIN
  { bool inj = true; for (unsigned s = 0; s < NS; ++s) for (unsigned t = s + 1; t < NS; ++t) inj = inj & !(((usedA >> s) & 1) && ((usedA >> t) & 1) && tgt[s] == tgt[t]);
    bool sub = U::included<NS, MR>(A, R);
#ifdef VS_SELFTEST_2
    inj = true;      // seeded wrong oracle: pretends that merging states never enlarges the language
#endif
    CHECK(sub, 20);
#if OP != 1
    bool sup = U::included<MR, NS>(R, A);
    CHECK(!inj || sup, 21);
    CHECK(!inj || U::countRules(R) == U::countRules(A), 22);
    CHECK(!inj || popcount(U::usedStates(R)) == popcount(usedA), 23);
    CHECK(U::countRules(R) <= U::countRules(A) && popcount(U::usedStates(R)) <= popcount(usedA), 24);
#endif
  }
#endif

  // ---- operand unchanged
  { SA A2; CHECK((U::decode<NS>(a, A2)), 30); CHECK((U::sameAut<NS>(A, A2)), 31); }
#ifdef VS_OBSERVE
#if OP != 5   // (OP 5: the numbering follows the iteration order of a hash table; only numbering-independent values)
  vs_observe(U::ruleMask(R)); vs_observe(U::finalMask(R));
#endif
  vs_observe(U::countRules(R)); vs_observe(popcount(U::finalMask(R))); vs_observe(U::langEmpty(R));
#endif
#ifdef VS_WITNESS
  vs_reach();
#endif
}
