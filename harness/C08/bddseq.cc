// C08: two-call sequences of operations on BDD-encoded automata: whether a call disturbs an automaton that exists
// already depends on which automata share a transition table, i.e. on the history of calls.  (Until /repo f5625b84
// UnionDisjointStates returned a copy of its left operand that shared - and was written into - the operand's table:
// known finding C08-2, found by SEQ 1.)  Every sequence starts with
//     R1 = UnionDisjointStates(A, B)            (A over states q0.., B over the following state numbers)
// and continues with SEQ:
//   1  R2 = UnionDisjointStates(A, C), C over the same state numbers as B (disjoint from A's, as the call requires)
//   2  R2 = Union(A, R1)                                                 expected L(A) u L(B)
//   3  R2 = Intersection(A, R1)                                          expected L(A)
//   4  R2 = R1.RemoveUselessStates(), R3 = A.RemoveUnreachableStates()   expected L(R1), L(A); no useless state in R2
//   5  R2 = UnionDisjointStates(R1, C), C over fresh state numbers       expected L(A) u L(B) u L(C)
//   6  (ENC 0) T1 = R1.GetTopDownAut(), T2 = A.GetTopDownAut()           expected L(R1), L(A)
//   7  (ENC 0) TA = A.GetTopDownAut(), TB = B loaded as a top-down automaton; Intersection(TA, TB), Union(TA, TB)
// After every call all automata built so far (operands and earlier results) are dumped again; none may have changed its
// language.  Solver variables: presence/finality bits of A, B, C over U(NA|NB|NC, SYM_RANKS).
#include "bddaut.h"
using namespace VATA;
#ifndef ENC
#define ENC 0
#endif
#ifndef SEQ
#define SEQ 1
#endif
#ifndef NA
#define NA 1
#endif
#ifndef NB
#define NB 1
#endif
#ifndef NC
#define NC 1
#endif
#if ENC == 0
typedef BDDBottomUpTreeAut AutT;
#else
typedef BDDTopDownTreeAut AutT;
#endif
#define WITH_C (SEQ == 1 || SEQ == 5)
enum { OFFC = SEQ == 1 ? NA : NA + NB, NALL = !WITH_C ? NA + NB : SEQ == 1 ? NA + (NB > NC ? NB : NC) : NA + NB + NC };
typedef BA::Aut<NALL> Big;

// the mask automaton X over N states placed at state numbers off.. inside the big state space
template <unsigned N> static Big place(const BA::Aut<N>& X, unsigned off)
{
  Big r; r.clear();
  for (unsigned i = 0; i < BA::Aut<N>::NR; ++i) { U::Rule q = U::Univ<N>::rule(i);
    r.pres[U::Univ<NALL>::index(q.sym, off + q.parent, q.rank > 0 ? off + q.child[0] : 0, q.rank > 1 ? off + q.child[1] : 0)] = X.pres[i]; }
  for (unsigned s = 0; s < N; ++s) r.fin[off + s] = X.fin[s];
  return r;
}
static Big join(const Big& x, const Big& y) { Big r; for (unsigned i = 0; i < Big::NR; ++i) r.pres[i] = x.pres[i] | y.pres[i]; for (unsigned s = 0; s < NALL; ++s) r.fin[s] = x.fin[s] | y.fin[s]; return r; }
template <class X> static void same(const X& aut, const BA::StateDict& full, const Big& expect, int id)
{
  BA::Dump<NALL> d = BA::dump<NALL>(aut, full);
  CHECK(d.ok, id); CHECK(BA::sameLang(expect, d.aut), id + 1);
}

extern "C" void harness(void)
{
  BA::Aut<NA> A; A.draw();
  BA::Aut<NB> B; B.draw();
#if WITH_C
  BA::Aut<NC> C; C.draw();
#endif
  BA::StateDict full; BA::seedDict(full, 0, BA::MAXQ);
  BA::StateDict dictA, dictB, dictC; BA::seedDict(dictA, 0, NA); BA::seedDict(dictB, NA, NA + NB);
  AutT a, b, c;
  BA::load(a, A, dictA); BA::load(b, B, dictB, NA);
  const Big eA = place(A, 0), eB = place(B, NA);
#if WITH_C
  BA::seedDict(dictC, OFFC, OFFC + NC); BA::load(c, C, dictC, OFFC);
  const Big eC = place(C, OFFC);
#endif
  // in a disjoint union of mask automata the language is the union of the languages (as long as the state numbers are disjoint)
  const Big eAB = join(eA, eB);

  AutT r1 = AutT::UnionDisjointStates(a, b);
#ifdef VS_SELFTEST_1
  same(r1, full, eA, 10);                     // seeded wrong expectation: the union "forgets" B
#else
  same(r1, full, eAB, 10);
#endif
  // (these two calls used to stand on the #endif line above, where the preprocessor discards them: ids 12..15 were never checked)
  same(a, full, eA, 12); same(b, full, eB, 14);

#if SEQ == 1
  AutT r2 = AutT::UnionDisjointStates(a, c);
  Big eAC = join(eA, eC);
  same(r2, full, eAC, 20); same(c, full, eC, 22);
#elif SEQ == 2
  AutT r2 = AutT::Union(a, r1);               // renumbers the states of both operands unless they share a table: decoded numbering-free
  { enum { NU = NA + NALL }; static_assert(NU <= BA::MAXQ, "too many states in the union");
    BA::Dump<NU> d = BA::dump<NU>(r2, full, true); CHECK(d.ok, 20); CHECK(BA::sameLang(eAB, d.aut), 21); }
#elif SEQ == 3
  AutT r2 = AutT::Intersection(a, r1);
  { enum { NP = NA * (NA + NB) }; static_assert(NP <= BA::MAXQ, "too many product states");
    BA::Dump<NP> d = BA::dump<NP>(r2, full, true); CHECK(d.ok, 20); CHECK(BA::sameLang(eA, d.aut), 21); }
#elif SEQ == 4
  AutT r2 = r1.RemoveUselessStates(); AutT r3 = a.RemoveUnreachableStates();
  { BA::Dump<NALL> d = BA::dump<NALL>(r2, full); CHECK(d.ok, 20); CHECK(BA::sameLang(eAB, d.aut), 21);
    CHECK(((BA::occurring(d.aut) | d.states) & ~BA::useful(d.aut)) == 0, 22); }
  same(r3, full, eA, 24);
#elif SEQ == 5
  AutT r2 = AutT::UnionDisjointStates(r1, c);
  same(r2, full, join(eAB, eC), 20); same(c, full, eC, 22);
#elif SEQ == 6
  BDDTopDownTreeAut t1 = r1.GetTopDownAut(); BDDTopDownTreeAut t2 = a.GetTopDownAut();
  same(t1, full, eAB, 20); same(t2, full, eA, 22);
#elif SEQ == 7
  // a converted automaton meets a directly loaded top-down automaton: both must use the same encoding of symbols and ranks
  BDDTopDownTreeAut ta = a.GetTopDownAut();
  BDDTopDownTreeAut tb; BA::StateDict dictT; BA::seedDict(dictT, NA, NA + NB); BA::load(tb, B, dictT, NA);
  BDDTopDownTreeAut r2 = BDDTopDownTreeAut::Intersection(ta, tb);
  { enum { NP = NA * NB }; BA::Dump<NP> d = BA::dump<NP>(r2, full, true); CHECK(d.ok, 20);
    BA::Aut<NA * NB> AxB = BA::product(A, B);
    CHECK(BA::included(d.aut, A) & BA::included(d.aut, B) & BA::included(AxB, d.aut), 21); }
  BDDTopDownTreeAut r3 = BDDTopDownTreeAut::Union(ta, tb);
  { enum { NU = NA + NB }; BA::Dump<NU> d = BA::dump<NU>(r3, full, true); CHECK(d.ok, 24); CHECK(BA::sameLang(eAB, d.aut), 25); }
#endif
  // everything that existed before the second call still denotes what it denoted
  same(r1, full, eAB, 30); same(a, full, eA, 32); same(b, full, eB, 34);
#ifdef VS_OBSERVE
  { BA::Dump<NALL> d1 = BA::dump<NALL>(r1, full), dA = BA::dump<NALL>(a, full);
    vs_observe(d1.aut.ruleMask()); vs_observe(d1.aut.finalMask()); vs_observe(dA.aut.ruleMask()); vs_observe(dA.aut.finalMask()); vs_observe(d1.ok); }
#endif
#ifdef VS_WITNESS
  vs_reach();
#endif
}
