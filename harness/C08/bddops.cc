// C08: one operation of the BDD-encoded tree automata (ENC 0 = bottom-up, 1 = top-down) on symbolic operands over the
// universe U(NA|NB, SYM_RANKS): the result and every operand after the call are dumped (DumpToString) and their languages
// compared with the expected ones by the macro-state oracle of bddaut.h.
//   OP 0 load + dump     1 Union     2 UnionDisjointStates     3 Intersection     4 RemoveUnreachableStates
//      5 RemoveUselessStates     6 GetTopDownAut (ENC 0 only)
//   SHARE 1: the operands are copies of one automaton (they share its transition table) with their own final states
//   SEED  1: state dictionaries pre-filled (state qk has number k; B's states follow A's), 0: numbered on the fly by the loader
//   PRIME 0: symbol codes handed out by the loader, 1/2: fixed in advance (ascending / descending)
// Solver variables: presence bits of A's (AFREE) and B's (BFREE) universe rules, finality bits.
#include "bddaut.h"
using namespace VATA;
#ifndef ENC
#define ENC 0
#endif
#ifndef OP
#define OP 0
#endif
#ifndef NA
#define NA 2
#endif
#ifndef NB
#define NB 1
#endif
#ifndef SHARE
#define SHARE 0
#endif
#ifndef SEED
#define SEED 1
#endif
#ifndef PRIME
#define PRIME 0
#endif
#ifndef AFREE
#define AFREE ~0ul
#endif
#ifndef BFREE
#define BFREE ~0ul
#endif
#if ENC == 0
typedef BDDBottomUpTreeAut AutT;
#else
typedef BDDTopDownTreeAut AutT;
#endif
#define BINARY (OP >= 1 && OP <= 3)
#if SHARE && BINARY
#undef NB
#define NB NA
#endif
#if !BINARY
#undef NB
#define NB 0
#endif
#if OP == 2 && !SEED && !SHARE
#error UnionDisjointStates needs disjoint state numbers: SEED=1
#endif
#if SHARE && !SEED
#error SHARE=1 needs SEED=1
#endif
enum { NALL = (BINARY && !SHARE) ? NA + NB : NA, NR = OP == 3 ? (NA * NB > NALL ? NA * NB : NALL) : NALL };

extern "C" void harness(void)
{
  BA::Aut<NA> A; A.draw(AFREE);
#if BINARY
  BA::Aut<NB> B;
#if SHARE
  B = A; B.drawFinals();
#else
  B.draw(BFREE);
#endif
#endif
  BA::StateDict full; BA::seedDict(full, 0, BA::MAXQ);     // for results: state k is printed as qk
  BA::StateDict dictA, dictB;
#if SEED
  BA::seedDict(dictA, 0, NA); BA::seedDict(dictB, NA, NA + NB);
#endif
  AutT a, b;
  BA::primeAlphabet(a, PRIME);
#if SHARE
  // one automaton holding the rules; the operands are copies of it (sharing its transition table) with their own final states
  AutT base; { BA::Aut<NA> rulesOnly = A; for (unsigned s = 0; s < NA; ++s) rulesOnly.fin[s] = false; BA::load(base, rulesOnly, dictA); }
  a = base; for (unsigned s = 0; s < NA; ++s) if (A.fin[s]) a.SetStateFinal(dictA.TranslateFwd(BA::QN[s]));
#if BINARY
  b = base; for (unsigned s = 0; s < NA; ++s) if (B.fin[s]) b.SetStateFinal(dictA.TranslateFwd(BA::QN[s]));
#endif
#define DICT_B dictA
#else
  BA::load(a, A, dictA);
#if BINARY
  BA::load(b, B, dictB, NA);
#endif
#define DICT_B dictB
#endif

  // ---- the operation
#if OP == 0
  BA::Dump<NR> R = BA::dump<NR>(a, dictA);
  bool expect = BA::sameLang(A, R.aut);
#elif OP == 1 || OP == 2
#if OP == 1
  AutT r = AutT::Union(a, b);
#else
  AutT r = AutT::UnionDisjointStates(a, b);
#endif
  // Union renumbers the states (translation maps are out-parameters): its result is decoded independently of the numbers
  // it chose (bddaut.h, Decoder free = true); UnionDisjointStates keeps the (disjoint) numbers of its operands
  BA::Dump<NR> R = BA::dump<NR>(r, full, OP == 1);
  BA::Aut<NA + NB> AB = BA::disjointUnion(A, B);
#ifdef VS_SELFTEST_1
  for (unsigned s = 0; s < NB; ++s) AB.fin[NA + s] = false;          // seeded wrong oracle: the union "forgets" B
#endif
  bool expect = BA::included(A, R.aut) & BA::included(B, R.aut) & BA::included(R.aut, AB);
#elif OP == 3
  AutT r = AutT::Intersection(a, b);
  BA::Dump<NR> R = BA::dump<NR>(r, full, true);                       // product states are numbered by the library: decoded numbering-free
  BA::Aut<NA * NB> AxB = BA::product(A, B);
  bool expect = BA::included(R.aut, A) & BA::included(R.aut, B) & BA::included(AxB, R.aut);
#elif OP == 4 || OP == 5
#if SHARE
  AutT a2 = a;                                                        // the operation runs on a copy that shares a's table
#else
  AutT& a2 = a;
#endif
#if OP == 4
  AutT r = a2.RemoveUnreachableStates();
#else
  AutT r = a2.RemoveUselessStates();
#endif
  BA::Dump<NR> R = BA::dump<NR>(r, SEED ? full : dictA);
  bool expect = BA::sameLang(A, R.aut);
  const unsigned occ = BA::occurring(R.aut) | R.states;
#if OP == 5
  CHECK((occ & ~BA::useful(R.aut)) == 0, 3);                          // no useless state is left (part of the property statement)
#elif ENC == 0
  // beyond the property statement (which only asks RemoveUnreachableStates to keep the language), but the documented
  // contract of include/vata/bdd_bu_tree_aut.hh: "returns the copy of the automaton without bottom-up unreachable states"
  CHECK((occ & ~BA::productive(R.aut)) == 0, 4);                      // bottom-up: no state without a tree is left
#elif defined(STRICT_IMPL)   // never defined
  // top-down: neither the property nor the header says which states RemoveUnreachableStates has to drop (only that the
  // language is kept); that nothing out of reach of the final states is left describes the current implementation
  CHECK((occ & ~BA::reachableTD(R.aut)) == 0, 4);
#else
  (void)occ;
#endif
#elif OP == 6
  BDDTopDownTreeAut r = a.GetTopDownAut();
  BA::Dump<NR> R = BA::dump<NR>(r, SEED ? full : dictA);
  bool expect = BA::sameLang(A, R.aut);
#endif
  CHECK(R.ok, 1);
  CHECK(expect, 2);

  // ---- no operand has changed its language (the dumps may mention states of the other operand: decode over all of them)
  {
    BA::Dump<NALL> dA = BA::dump<NALL>(a, SEED ? full : dictA);
    BA::Aut<NA> A1 = A;
#ifdef VS_SELFTEST_2
    for (unsigned s = 0; s < NA; ++s) A1.fin[s] = false;              // seeded wrong expectation about the operand
#endif
    CHECK(dA.ok, 10); CHECK(BA::sameLang(A1, dA.aut), 11);
#if BINARY
    BA::Dump<NALL> dB = BA::dump<NALL>(b, SEED ? full : DICT_B);
    // B's states are called q(NA+s) unless the operands share their states
#if SHARE
    const BA::Aut<NA>& Bx = B;
#else
    BA::Aut<NA> none; none.clear(); BA::Aut<NA + NB> Bx = BA::disjointUnion(none, B);
#endif
    CHECK(dB.ok, 12); CHECK(BA::sameLang(Bx, dB.aut), 13);
#endif
#if SHARE && (OP == 4 || OP == 5)
    BA::Dump<NALL> dA2 = BA::dump<NALL>(a2, SEED ? full : dictA);
    CHECK(dA2.ok, 14); CHECK(BA::sameLang(A, dA2.aut), 15);
#endif
#ifdef VS_OBSERVE
    vs_observe(dA.aut.ruleMask()); vs_observe(dA.aut.finalMask());
#endif
  }
#ifdef VS_OBSERVE
  vs_observe(R.aut.ruleMask()); vs_observe(R.aut.finalMask()); vs_observe(R.states); vs_observe(R.ok); vs_observe(expect);
#endif
#ifdef VS_WITNESS
  vs_reach();
#endif
}
