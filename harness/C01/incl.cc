// C01: ExplicitTreeAut::CheckInclusion under the parameter selection SEL on a symbolic pair (A over NA states, B over NB
// states, same ranked alphabet), against the macro-state oracle.  Solver variables: presence/finality bits of A and B.
#include <vata/explicit_tree_aut.hh>
#include "universe.h"
#include "incl_prep.h"
using namespace VATA;
#ifndef NA
#define NA 1
#endif
#ifndef NB
#define NB 1
#endif
#ifndef SEL
#define SEL 0
#endif
// SEL: bit0 = sim, bits 1..2: 0 up, 1 down non-recursive, 2 down recursive, 3 down recursive + implication cache
extern "C" void harness(void)
{
  // AMASK / BMASK restrict the candidate rules (sub-universe); ATRI / BTRI select the triangular sub-universe
#ifndef AMASK
#define AMASK (~0ul)
#endif
#ifndef BMASK
#define BMASK (~0ul)
#endif
#ifdef ATRI
  U::SymAut<NA> A; A.draw(U::SymAut<NA>::triangular());
#else
  U::SymAut<NA> A; A.draw(AMASK);
#endif
#ifdef BTRI
  U::SymAut<NB> B; B.draw(U::SymAut<NB>::triangular());
#else
  U::SymAut<NB> B; B.draw(BMASK);
#endif
#ifdef KF_EXCLUDE
  KF_EXCLUDE
#endif
  // AFINMASK / BFINMASK: states whose finality is free; the others are final iff their bit in AFINFIX / BFINFIX is set
#ifdef AFINMASK
  for (unsigned s = 0; s < NA; ++s) if (!(((AFINMASK) >> s) & 1)) vs_assume(A.fin[s] == ((((AFINFIX) >> s) & 1) != 0));
#endif
#ifdef BFINMASK
  for (unsigned s = 0; s < NB; ++s) if (!(((BFINMASK) >> s) & 1)) vs_assume(B.fin[s] == ((((BFINFIX) >> s) & 1) != 0));
#endif
#ifndef DIRECT
#define DIRECT 0
#endif
  ExplicitTreeAut a, b; A.build(a);
#if DIRECT == 2      // B's states are numbered NA.. (dense and disjoint from A's), nothing is sanitised: memory-safety queries (C20)
  { unsigned ren[NB]; for (unsigned s = 0; s < NB; ++s) ren[s] = NA + s; B.build(b, ren); }
  vs_allow_throw(1);   // the library may refuse such operands by a standard exception (a state the relation does not know): not a memory error
#else
  B.build(b);
#endif
  const bool sim = SEL & 1; const unsigned alg = SEL >> 1;
  bool verdict = prepared_inclusion<ExplicitTreeAut>(a, b, alg == 0, alg >= 2, alg == 3, sim, DIRECT, NA + NB);
  bool expect = U::included<NA, NB>(A, B);
#ifdef VS_SELFTEST_1
  expect = expect && !(A.pres[0] && !B.pres[0]);   // seeded wrong oracle
#endif
  CHECK(verdict == expect, 1);
#ifdef VS_OBSERVE
  vs_observe(verdict); vs_observe(expect);
#endif
#ifdef VS_WITNESS
  vs_reach();
#endif
}
