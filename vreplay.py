#!/usr/bin/env python3
"""Replays a counterexample file written by vcheck.py against a native build (g++, ASan/UBSan, real libstdc++) of the
harness and the /repo working-tree sources.  usage: vreplay.py replays/<file>.json ; exit 1 if it still fails."""
import sys, json, os, tempfile, shutil, subprocess
sys.path.insert(0, os.path.dirname(os.path.abspath(__file__)))
import vcheck
def main():
    r = json.load(open(sys.argv[1])); work = tempfile.mkdtemp(prefix='vreplay_')
    try:
        objs = []
        for t in r['tus'] + ['__rt__']:
            src = os.path.join(vcheck.RT, 'vs_native.cc') if t == '__rt__' else os.path.join(vcheck.REPO, 'src', t + '.cc')
            o = os.path.join(work, t + '.o'); p = subprocess.run(['g++'] + vcheck.NATIVE_FLAGS + ['-c', src, '-o', o]); objs.append(o)
            if p.returncode: return 2
        exe = os.path.join(work, 'twin')
        p = subprocess.run(['g++'] + vcheck.NATIVE_FLAGS + vcheck.defs(r['defines']) + [os.path.join(vcheck.VERIF, r['src'])] + objs + ['-no-pie', '-Wl,--unresolved-symbols=ignore-all', '-Wl,-z,lazy', '-o', exe])
        if p.returncode: return 2
        f = os.path.join(work, 'in'); open(f, 'w').write('\n'.join(str(x) for x in r['inputs']) + '\n')
        p = subprocess.run([exe, f]); print('native twin exit code', p.returncode, '(10 = property check failed, 11 = exception, 13/14 = ASan/UBSan)')
        return 1 if p.returncode != 0 else 0
    finally: shutil.rmtree(work, ignore_errors=True)
sys.exit(main())
