#!/bin/sh
# usage: seedbatch.sh <slot> <round-prefix e.g. r3> C01:1 C01:2 ...   - runs seedtest.py sequentially in worktree /tmp/seed_wt_<slot>
slot=$1; pre=$2; shift 2
mkdir -p /tmp/seedlogs
for it in "$@"; do
  p=${it%%:*}; k=${it##*:}
  d=/tmp/${MUTPRE:-mut3}_${p}_out/mut_$k
  [ -d "$d" ] || { echo "$it: no dir $d"; continue; }
  SEED_WT=/tmp/seed_wt_$slot VERIF_JOBS=${VERIF_JOBS:-6} python3 /verif/seedtest.py $p $d $p-${pre}m$k ${SEED_CHECKS:+--checks $SEED_CHECKS} $SEED_ARGS > /tmp/seedlogs/$p-${pre}m$k.log 2>&1
  echo "$it: $(grep -m1 '^{"seed"' /tmp/seedlogs/$p-${pre}m$k.log)"
done
