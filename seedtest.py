#!/usr/bin/env python3
"""Confirms a seeded change (red-team deliverable) and runs the /verif checks against it.

usage: seedtest.py <property> <mut_dir> <seed-id> [--checks C03,C20] [--tier quick] [--no-suite]

Works in a scratch git worktree of /repo (VERIF_REPO points the checks at it), so /repo itself is never touched and
concurrently running checks are not disturbed.  Steps: (1) unmodified: build demo, must exit 0; (2) apply patch:
library rebuilds, demo must fail, test suite must give the same per-test results as the unmodified tree;
(3) run the checks: record which report a VIOLATION.  Keeps the result under /verif/seeded/<seed-id>/."""
import sys, os, subprocess, shutil, json, re, time

VERIF = os.path.dirname(os.path.abspath(__file__))
WT = os.environ.get('SEED_WT', '/tmp/seed_wt')

def sh(cmd, **kw):
    return subprocess.run(cmd, shell=isinstance(cmd, str), stdout=subprocess.PIPE, stderr=subprocess.STDOUT, text=True, **kw)

def norm_log(path):
    """per-test-case outcome lines of a ctest LastTest.log, without timings"""
    out = []
    try: txt = open(path, errors='replace').read()
    except OSError: return ['<no log>']
    for l in txt.splitlines():
        l = re.sub(r'\x1b\[[0-9;]*m', '', l)
        if re.search(r'error in "|failures? (is|are) detected|No errors detected|Test (Passed|Failed)|\*\*\* ', l):
            out.append(re.sub(r'[0-9.]+ ?(sec|ms|us|s)\b', 'T', l).strip())
    return sorted(out)

def ensure_worktree():
    if not os.path.isdir(WT):
        r = sh(['git', '-C', '/repo', 'worktree', 'add', '--detach', WT, 'HEAD']); print(r.stdout[-300:])
    else:
        sh(['git', '-C', WT, 'checkout', '--', '.']); sh(['git', '-C', WT, 'checkout', '--detach', subprocess.run(['git', '-C', '/repo', 'rev-parse', 'HEAD'], capture_output=True, text=True).stdout.strip()])
    if not os.path.isdir(os.path.join(WT, '_b')):
        r = sh('cmake -G Ninja -B %s/_b -S %s -DCMAKE_BUILD_TYPE=Release > /dev/null' % (WT, WT))
    r = sh('cmake --build %s/_b -j12' % WT)
    if r.returncode: print(r.stdout[-2000:]); sys.exit('baseline build failed')

def build_demo(mut, exe):
    if os.path.exists(os.path.join(mut, 'demo.cc')):
        r = sh('g++ -std=c++11 -O1 -DLIBVATA_VERIF -I%s/include -I%s/src %s/demo.cc %s/_b/src/libvata.a -o %s' % (WT, WT, mut, WT, exe))
        return r.returncode == 0, r.stdout[-1500:]
    return True, ''

def run_demo(mut, exe):
    if os.path.exists(os.path.join(mut, 'demo.cc')):
        # memory-safety seeds whose effect stays inside malloc slack in a plain build: the demo is confirmed under valgrind memcheck
        r = sh((['valgrind', '-q', '--error-exitcode=99'] if os.path.exists(os.path.join(mut, 'USE_VALGRIND')) else []) + [exe], cwd=mut, timeout=1800)
    else: r = sh(['sh', os.path.join(mut, 'demo.sh')], cwd=mut, timeout=600, env=dict(os.environ, VATA=WT + '/_b/cli/vata', WT=WT))
    return r.returncode, r.stdout[-1500:]

def main():
    prop, mut, sid = sys.argv[1], os.path.abspath(sys.argv[2]), sys.argv[3]
    checks = [prop]; tier = 'quick'; suite = '--no-suite' not in sys.argv
    if '--checks' in sys.argv: checks = sys.argv[sys.argv.index('--checks') + 1].split(',')
    if '--tier' in sys.argv: tier = sys.argv[sys.argv.index('--tier') + 1]
    res = {'property': prop, 'seed': sid, 'source': mut, 'ran': []}
    ensure_worktree()
    exe = '/tmp/seed_demo_%s' % sid
    ok, out = build_demo(mut, exe); res['demo_builds_unmodified'] = ok
    if not ok: print(out)
    rc0, out0 = run_demo(mut, exe); res['demo_rc_unmodified'] = rc0
    base = None
    if suite:
        sh('ctest --test-dir %s/_b -j8 --timeout 900' % WT); base = norm_log(WT + '/_b/Testing/Temporary/LastTest.log')
    r = sh(['git', '-C', WT, 'apply', os.path.join(mut, 'patch.diff')])
    if r.returncode: print('PATCH DOES NOT APPLY', r.stdout); res['applies'] = False; json.dump(res, sys.stdout, indent=1); return 2
    res['applies'] = True
    try:
        r = sh('cmake --build %s/_b -j12' % WT); res['builds_with_change'] = r.returncode == 0
        if r.returncode: print(r.stdout[-2000:])
        ok, out = build_demo(mut, exe)
        rc1, out1 = run_demo(mut, exe); res['demo_rc_changed'] = rc1; res['demo_output_changed_tail'] = out1[-600:]
        if suite:
            sh('ctest --test-dir %s/_b -j8 --timeout 900' % WT); mutl = norm_log(WT + '/_b/Testing/Temporary/LastTest.log')
            res['suite_same_as_unmodified'] = (mutl == base)
            if mutl != base: res['suite_diff'] = [l for l in mutl if l not in base][:10] + ['--'] + [l for l in base if l not in mutl][:10]
        prev = {}
        try: prev = json.load(open(os.path.join(VERIF, 'seeded', sid, 'meta.json')))
        except Exception: pass
        if not suite and prev.get('confirmed_by_us'): res['suite_same_as_unmodified'] = True   # confirmed in an earlier run of this script
        res['confirmed'] = bool(rc0 == 0 and rc1 != 0 and res['builds_with_change'] and res.get('suite_same_as_unmodified'))
        res['checks'] = {}
        for c in checks:
            t0 = time.time()
            r = sh(['python3', os.path.join(VERIF, 'vcheck.py'), c, tier], env=dict(os.environ, VERIF_REPO=WT, VERIF_REPLAY_DIR='/tmp/seed_replays_' + sid, VERIF_EVIDENCE_DIR='/tmp/seed_evidence_' + sid, VERIF_JOBS=os.environ.get('VERIF_JOBS', '8')), cwd=VERIF)
            viol = [l for l in r.stdout.splitlines() if l.startswith('VIOLATION')]
            detail = [l for l in r.stdout.splitlines() if l.startswith('   ')][:3]
            res['checks'][c] = {'exit': r.returncode, 'violations': viol[:5], 'detail': detail, 'tail': r.stdout.splitlines()[-1:] , 'wall_s': round(time.time() - t0, 1)}
            res['ran'].append('VERIF_REPO=<worktree with patch> python3 vcheck.py %s %s -> exit %d' % (c, tier, r.returncode))
        res['detected_by'] = [c for c, v in res['checks'].items() if v['exit'] == 1 and v['violations']]      # (a crash of the driver also exits 1)
    finally:
        sh(['git', '-C', WT, 'checkout', '--', '.'])
    dst = os.path.join(VERIF, 'seeded', sid); os.makedirs(dst, exist_ok=True)
    for f in os.listdir(mut):
        if f in ('patch.diff', 'demo.cc', 'demo.sh', 'NOTES.md') or f.endswith('.txt') and os.path.getsize(os.path.join(mut, f)) < 20000 and not f.startswith('ctest') or f.endswith('.timbuk'):
            shutil.copy(os.path.join(mut, f), dst)
    meta = {'breaks_property': prop, 'needs_to_manifest': 'see NOTES.md', 'confirmed_by_us': res.get('confirmed'), 'what_we_ran': res['ran'] + ['demo on unmodified worktree -> rc %s; with patch -> rc %s' % (res.get('demo_rc_unmodified'), res.get('demo_rc_changed')), 'ctest per-test results identical to unmodified tree: %s' % res.get('suite_same_as_unmodified')],
            'detected_by': res.get('detected_by'), 'checks': res.get('checks')}
    json.dump(meta, open(os.path.join(dst, 'meta.json'), 'w'), indent=1)
    print(json.dumps({k: res.get(k) for k in ('seed', 'confirmed', 'demo_rc_unmodified', 'demo_rc_changed', 'suite_same_as_unmodified', 'detected_by')}))
    for c, v in res.get('checks', {}).items(): print(' ', c, v['exit'], v['violations'][:1], v['detail'][:1], v['tail'])
    # the replays written by the run belong to the patched tree, not to /repo: drop them
    shutil.rmtree('/tmp/seed_replays_' + sid, ignore_errors=True); shutil.rmtree('/tmp/seed_evidence_' + sid, ignore_errors=True)
    return 0

if __name__ == '__main__':
    sys.exit(main())
