#!/usr/bin/env python3
"""Public-API coverage of the symbolic checks: which member functions of the four automaton facades (and of the MTBDD
package / LTS class) that the library defines were never executed symbolically by any check.

usage: apicov.py [evidence_dir]      (needs evidence/functions/<id>.<tier>.txt written by vcheck.py and a built library)

The list of defined functions comes from `nm -C` on the library archive built from /repo (/repo/_build/src/libvata.a,
or $VERIF_LIB); the list of executed functions is the union of the engine's per-query function sets.  This is a
reporting aid for C20 ("code not reached by any harness"), not a check."""
import os, sys, subprocess, re, glob

VERIF = os.path.dirname(os.path.abspath(__file__))
edir = sys.argv[1] if len(sys.argv) > 1 else os.path.join(VERIF, 'evidence')
lib = os.environ.get('VERIF_LIB', '/repo/_build/src/libvata.a')
FACADES = r'VATA::(ExplicitTreeAut|ExplicitFiniteAut|BDDBottomUpTreeAut|BDDTopDownTreeAut|ExplicitLTS)::'

def norm(s):
    s = re.sub(r'\[abi:cxx11\]', '', s)
    return re.sub(r'\s+', '', s)

defined = {}
out = subprocess.run(['nm', '-C', '--defined-only', lib], capture_output=True, text=True).stdout
for l in out.splitlines():
    m = re.match(r'^[0-9a-f]* [TW] (' + FACADES + r'.*)$', l)
    if m: defined[norm(m.group(1))] = m.group(1)
executed = set()
for f in glob.glob(os.path.join(edir, 'functions', '*.txt')):
    for l in open(f, errors='replace'):
        l = l.strip()
        if l: executed.add(norm(l))
missing = sorted(v for k, v in defined.items() if k not in executed)
print('%d facade functions defined, %d executed by some check, %d never executed:' % (len(defined), len(defined) - len(missing), len(missing)))
for m in missing: print('  ' + m[:200])
