#!/usr/bin/env python3
"""Fills the generated sections of DESIGN.md (between <!-- BEGIN x --> / <!-- END x --> markers) from the registry
(checks.d), claims.json, known_findings.json and seeded/*/meta.json, so that the document stays in step with the checks."""
import json, os, sys, glob, re
VERIF = os.path.dirname(os.path.abspath(__file__))
sys.path.insert(0, VERIF)
import checks as REG

claims = json.load(open(os.path.join(VERIF, 'claims.json')))
props = [json.loads(l) for l in open(os.path.join(VERIF, 'properties.jsonl'))]
kf = json.load(open(os.path.join(VERIF, 'known_findings.json')))['findings']
notes = json.load(open(os.path.join(VERIF, 'design_notes.json'))) if os.path.exists(os.path.join(VERIF, 'design_notes.json')) else {}

def per_property():
    out = []
    for p in props:
        pid = p['id']; c = claims.get(pid, {}); spec = REG.CHECKS.get(pid)
        out.append('### %s — %s' % (pid, p['title']))
        if not c.get('claimed') or not spec:
            out.append('**Not claimed.** ' + c.get('reason', 'no check built.')); out.append('');
            if notes.get(pid): out.append(notes[pid]); out.append('')
            continue
        out.append('* **Level**: `%s` — %s' % (spec.get('level', 'model_checking'), c['text']))
        out.append('* **What is executed and compared**: ' + spec.get('explanation', ''))
        for h in spec['harnesses']:
            nq = len(h['configs'].get('quick', [])); nt = len(h['configs'].get('thorough', h['configs'].get('quick', [])))
            out.append('  * harness `%s` (`%s`): %d quick / %d thorough queries; translation units: %s; self-tests: %s' % (h['name'], h['src'], nq, nt, ', '.join(h['tus']) or '(header-only)', ', '.join(s if isinstance(s, str) else s['define'] for s in h.get('selftests', [])) or '-'))
        b = spec.get('bounds', {})
        out.append('* **Bounds**: quick: %s; thorough: %s' % (b.get('quick', ''), b.get('thorough', b.get('quick', ''))))
        out.append('* **Outside the bounds**: ' + spec.get('outside', ''))
        f = [k for k in kf if k['property'] == pid]
        if f: out.append('* **Findings**: ' + '; '.join('%s (%s%s)' % (k['id'], k['status'], ' by ' + k['fixed_by'] if k.get('fixed_by') else '') for k in f))
        if notes.get(pid): out.append('* **Notes**: ' + notes[pid])
        out.append('')
    return '\n'.join(out)

def findings():
    out = ['Every entry reproduces natively through the public API (native twin; several also through the `vata` CLI) and was', 'explained from the source before it was repaired.  All repairs are single unguarded `fix:` commits in /repo; the', 'unedited test suite gives the same results with each of them (4 targets pass, `bdd_bu_tree_aut_test` keeps its 2', 'baseline failures).  `known_findings.json` records them as `fixed` (a fixed entry suppresses nothing).', '',
           "**C07-1 (open during the first build phase, fixed since by 5d7f6798).**  The upward inclusion algorithm of the BDD bottom-up encoding (`src/tree_incl_up.hh`) gave every child", 'position that is not being processed the *union* of all macro-states the antichain holds for that child, instead of one macro-state', 'per position in every combination; with a rule of rank >= 2 in the smaller automaton it could answer "included" for a pair that is', 'not included (A = all trees over a, b, g/2; B = trees whose leaves are all a or all b: g(a,b) was missed).  The repair enumerates the', 'product of the per-position antichain entries (copies taken before the functor changes the antichain; the processed set first for the', 'positions of the processed state) and calls the symbol-wise pairing once per combination; the tuple generator and the functor are', 'untouched.  The C07 check no longer excludes anything; all its queries (90 in the quick tier, including five new universes with rank-2', 'rules in the smaller automaton for the upward selections) pass on the repaired tree, and the recorded witness is part of them.', '',
           '| id | property | fix commit | defect | witness (harness config / inputs) |', '|---|---|---|---|---|']
    for k in kf:
        w = k.get('witness', {})
        out.append('| %s | %s | %s | %s | `%s` / `%s` |' % (k['id'], k['property'], k.get('fixed_by', '(open)'), k['what'].replace('|', '/'), w.get('config', ''), ' '.join(str(x) for x in w.get('inputs', []))))
    return '\n'.join(out)

def seeded():
    rows = []
    for m in sorted(glob.glob(os.path.join(VERIF, 'seeded', '*', 'meta.json'))):
        j = json.load(open(m)); sid = os.path.basename(os.path.dirname(m))
        desc = ''
        n = os.path.join(os.path.dirname(m), 'NOTES.md')
        if os.path.exists(n):
            for l in open(n, errors='replace'):
                if l.startswith('#'): desc = l.lstrip('# ').strip(); break
            if not desc:      # no heading: the first non-empty line is the title
                for l in open(n, errors='replace'):
                    if l.strip() and not set(l.strip()) <= set('=-'): desc = l.strip(); break
        det = j.get('detected_by') or []
        ck = j.get('checks', {}); viol = ''
        for c in det:
            d = ck.get(c, {}).get('detail') or []
            if d: viol = d[0].strip()[:110]
        rows.append('| %s | %s | %s | %s | %s | %s |' % (sid, j.get('breaks_property'), desc.replace('|', '/')[:120], 'yes' if j.get('confirmed_by_us') else 'NO', ', '.join(det) if det else '**missed**', viol.replace('|', '/')))
    if not rows: return '(none yet)'
    metas = [json.load(open(m)) for m in sorted(glob.glob(os.path.join(VERIF, 'seeded', '*', 'meta.json')))]
    ids = [os.path.basename(os.path.dirname(m)) for m in sorted(glob.glob(os.path.join(VERIF, 'seeded', '*', 'meta.json')))]
    missed = [i for i, j in zip(ids, metas) if not (j.get('detected_by') or [])]
    summary = ['', '**Summary**: %d seeded changes in five rounds (ids `Cxx-mK` first round, `Cxx-r2mK` second, `Cxx-r3mK` third - 2 changes for each of the 20 properties, written after the repair of C07-1 -, `Cxx-r4mK` fourth - 2 changes for each of the 11 properties that had a miss in the third round, written against the strengthened checks, `Cxx-r5mK` fifth - 2 changes for each of 8 further properties, asked for small failing inputs that need a particular way of calling the library), %d confirmed by us, %d caught by at least one check (quick tier), %d not caught: %s.' % (len(ids), sum(1 for j in metas if j.get('confirmed_by_us')), len(ids) - len(missed), len(missed), ', '.join(missed) or '-'),
               'The table shows the state after the checks were strengthened (the notes under each property in section 4 say which universes were added for which miss).', 'Not caught: ' + notes.get('_missed', '')]
    return '\n'.join(['Each change was written by a fresh sub-agent that saw only the property text and its own worktree; we confirmed it', '(demo passes on the unmodified tree, fails with the change, test suite unchanged) and ran the listed checks against a', 'worktree with the patch applied (`seedtest.py`).', '',
                      '| seed | property | change | confirmed | caught by | first violation reported |', '|---|---|---|---|---|---|'] + rows + summary)

def main():
    p = os.path.join(VERIF, 'DESIGN.md'); s = open(p).read()
    for name, gen in (('PER_PROPERTY', per_property), ('FINDINGS', findings), ('SEEDED', seeded)):
        b, e = '<!-- BEGIN %s -->' % name, '<!-- END %s -->' % name
        if name + '_PLACEHOLDER' in s: s = s.replace(name + '_PLACEHOLDER', b + '\n' + e)
        i, j = s.index(b), s.index(e)
        s = s[:i + len(b)] + '\n' + gen() + '\n' + s[j:]
    open(p, 'w').write(s)
main()
