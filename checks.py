# Registry of the checks: per property the harnesses, the libvata translation units they encode, and the query
# configurations (preprocessor defines selecting the bound) per tier.
TREE_CORE = ['explicit_tree_aut', 'explicit_tree_aut_core']

COMMON_ASSUMPTIONS = [
  'engine: vsymex (this repository, engine/vsymex): symbolic execution of the LLVM-14 IR that clang++-14 -O1 produces from /repo working-tree sources and the libstdc++-12 headers; state merging at post-dominators; every boolean/constant-leaf term kept as a reduced ordered decision diagram over the input bits and theory atoms; z3 4.8.12 decides every query that involves theory atoms and produces every counterexample',
  'libstdc++.so functions without IR are modelled in engine/rt/models.cc (red-black tree insert/erase without rebalancing, _Prime_rehash_policy in integer arithmetic for load factor 1, list hooks, __cxa_guard_*); libc string functions as plain loops (engine/rt/libc_models.c)',
  'operator new/malloc never fail; heap addresses are assigned by a bump allocator (16-byte aligned, never reused), so results that depend on one particular address order are seen for that order only',
  'a C++ exception ends the path and is reported as a violation unless the harness expects it; static destructors are not run; output streams are no-ops',
  'single-threaded; no signal/IO environment',
  'translation validation: the engine in concrete mode and a g++ -fsanitize=address,undefined build of the same harness against the real sources must print identical observations on seeded random inputs (every run)',
]

def U(ns, ranks, **kw):
    d = {'NS': ns, 'SYM_RANKS': '{%s}' % ','.join(str(r) for r in ranks)}
    d.update(kw); return d

CHECKS = {
 'C03': {
  'level': 'model_checking',
  'explanation': 'RemoveUnreachableStates, RemoveUselessStates and IsLangEmpty executed symbolically on every automaton whose rules are drawn from the rule universe of the configuration (presence bit per rule, finality bit per state); results decoded by iterating the returned automaton and compared with naive fixpoint oracles (productive / reachable / useful masks, macro-state language inclusion in both directions).',
  'bounds': {'quick': 'automata over <=3 states with symbols of rank <=2; universes: 2 states x {a/0,f/1}, 2 x {a/0,f/1,g/2}, 3 x {a/0,f/1}; all subsets of rules and final states (8..16 free bits per query)',
             'thorough': 'as quick plus 2 x {a/0,b/0,f/1,g/2} and 3-state universes with a binary symbol restricted to sub-universes'},
  'outside': 'more than 3 states, rank > 2, state numbers >= NS, automata sharing storage with other automata (see C11)',
  'harnesses': [
    {'name': 'trim', 'src': 'harness/C03/trim.cc', 'tus': TREE_CORE + ['explicit_tree_useless', 'explicit_tree_unreach'],
     'configs': {'quick': [U(2, [0, 1], OP=0), U(2, [0, 1], OP=1), U(2, [0, 1, 2], OP=0), U(2, [0, 1, 2], OP=1), U(3, [0, 1], OP=0), U(3, [0, 1], OP=1)],
                 'thorough': [U(2, [0, 1], OP=0), U(2, [0, 1], OP=1), U(2, [0, 1, 2], OP=0), U(2, [0, 1, 2], OP=1), U(3, [0, 1], OP=0), U(3, [0, 1], OP=1), U(2, [0, 0, 1, 2], OP=0), U(2, [0, 0, 1, 2], OP=1)]},
     'selftest_config': U(2, [0, 1], OP=0), 'selftests': ['VS_SELFTEST_1']},
  ],
 },
}
