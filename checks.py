# Registry of the checks: per property the harnesses, the libvata translation units they encode, and the query
# configurations (preprocessor defines selecting the bound) per tier.
TREE_CORE = ['explicit_tree_aut', 'explicit_tree_aut_core']

COMMON_ASSUMPTIONS = [
  'engine: vsymex (this repository, engine/vsymex): symbolic execution of the LLVM-14 IR that clang++-14 -O1 produces from /repo working-tree sources and the libstdc++-12 headers; state merging at post-dominators; every boolean/constant-leaf term kept as a reduced ordered decision diagram over the input bits and theory atoms; z3 4.8.12 decides every query that involves theory atoms and produces every counterexample',
  'libstdc++.so functions without IR are modelled in engine/rt/models.cc (red-black tree insert/erase without rebalancing, _Prime_rehash_policy in integer arithmetic for load factor 1, list hooks, __cxa_guard_*); libc string functions as plain loops (engine/rt/libc_models.c)',
  'operator new/malloc never fail; heap addresses are assigned by a bump allocator (16-byte aligned, never reused), so results that depend on one particular address order are seen for that order only',
  'a C++ exception ends the path and is reported as a violation unless the harness expects it; static destructors are not run; output streams are no-ops',
  'single-threaded; no signal/IO environment',
  'translation validation: the engine in concrete mode and a g++ -fsanitize=address,undefined build of the same harness against the real sources must print identical observations on seeded random inputs (every run)',
]

def U(ns, ranks, **kw):
    d = {'NS': ns, 'SYM_RANKS': '{%s}' % ','.join(str(r) for r in ranks)}
    d.update(kw); return d

TREE_INCL = TREE_CORE + ['explicit_tree_useless', 'explicit_tree_unreach', 'explicit_tree_incl', 'explicit_tree_incl_up', 'explicit_tree_incl_down', 'explicit_tree_union', 'explicit_tree_sim', 'explicit_lts_sim', 'aut_base', 'incl_param', 'util', 'symbolic', 'convert']

def AB(na, nb, ranks, **kw):
    d = {'NA': na, 'NB': nb, 'SYM_RANKS': '{%s}' % ','.join(str(r) for r in ranks)}
    d.update(kw); return d

def c01_tri(sels, shapes=((2, 3), (3, 2)), both=True, **meta):
    # triangular sub-universes (a rule is a candidate iff parent <= every child): DAG-shaped automata with self loops
    # over 2+3 / 3+2 states, 19..20 free bits
    out = []
    for (na, nb) in shapes:
        for sel in sels:
            d = AB(na, nb, [0, 1], SEL=sel, BTRI=None, **meta)
            if both: d['ATRI'] = None
            out.append(d)
    return out

def c01_configs(shapes, heavy=False):
    out = []
    for (na, nb, ranks) in shapes:
        for sel in range(8):
            big = sel == 1 and 2 in ranks      # upward + simulation with a binary symbol: ~100 s, > 10 GB
            if big and not heavy: continue
            out.append(AB(na, nb, ranks, SEL=sel, **({'_heavy': 1, '_mem_gb': 40, '_time': 1500} if big else {})))
    return out


import os, glob, importlib.util
CHECKS = {}
for _f in sorted(glob.glob(os.path.join(os.path.dirname(os.path.abspath(__file__)), 'checks.d', '*.py'))):
    _spec = importlib.util.spec_from_file_location('checks_' + os.path.basename(_f)[:-3], _f)
    _m = importlib.util.module_from_spec(_spec)
    try: _spec.loader.exec_module(_m)
    except Exception as _e:      # a broken fragment must not take the other properties' checks down with it
        import sys as _sys; print('WARNING: registry fragment %s cannot be loaded: %s' % (_f, _e), file=_sys.stderr); continue
    CHECKS.update(_m.CHECKS)
